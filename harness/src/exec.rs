//! Minimal deterministic "executor" support: named wakers whose wake-ups are recorded.
use std::sync::atomic::{AtomicBool, Ordering};
use std::sync::{Arc, Mutex};
use std::task::{Wake, Waker};

pub type WakeLog = Arc<Mutex<Vec<u32>>>;

pub struct Flag {
    pub id: u32,
    pub woken: AtomicBool,
    pub log: WakeLog,
}

impl Wake for Flag {
    fn wake(self: Arc<Self>) {
        self.wake_by_ref()
    }
    fn wake_by_ref(self: &Arc<Self>) {
        self.woken.store(true, Ordering::SeqCst);
        self.log.lock().unwrap().push(self.id);
    }
}

/// A task identity: a waker plus the "was woken since last poll" flag.
#[derive(Clone)]
pub struct Task {
    pub flag: Arc<Flag>,
}

impl Task {
    pub fn new(id: u32, log: &WakeLog) -> Task {
        Task {
            flag: Arc::new(Flag {
                id,
                woken: AtomicBool::new(true), // a new task must be polled once
                log: log.clone(),
            }),
        }
    }
    pub fn waker(&self) -> Waker {
        Waker::from(self.flag.clone())
    }
    pub fn is_woken(&self) -> bool {
        self.flag.woken.load(Ordering::SeqCst)
    }
    /// Call just before polling.
    pub fn clear(&self) {
        self.flag.woken.store(false, Ordering::SeqCst);
    }
    pub fn id(&self) -> u32 {
        self.flag.id
    }
}
