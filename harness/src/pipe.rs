//! Scripted in-memory transport: the harness owns both ends' buffers.
use std::cell::RefCell;
use std::collections::VecDeque;
use std::io;
use std::pin::Pin;
use std::rc::Rc;
use std::task::{Context, Poll, Waker};
use tokio::io::{AsyncRead, AsyncWrite, ReadBuf};

#[derive(Debug, Clone, Copy, PartialEq, Eq)]
pub enum WriteMode {
    /// accept everything
    All,
    /// accept at most this many further bytes, then `Pending`
    Budget(usize),
    /// return Ok(0)
    Zero,
    /// fail with BrokenPipe
    Fail,
}

#[derive(Debug)]
pub struct PipeState {
    pub inbound: VecDeque<u8>,
    pub eof: bool,
    pub read_fail: bool,
    /// the failed read reports UnexpectedEof (a peer that vanished without closing, as TLS transports report it)
    pub read_fail_unexpected_eof: bool,
    /// max bytes handed out per poll_read (0 = unlimited)
    pub read_chunk: usize,
    pub read_waker: Option<Waker>,
    pub outbound: Vec<u8>,
    pub write_mode: WriteMode,
    /// max bytes accepted per poll_write call (0 = unlimited)
    pub write_chunk: usize,
    pub write_waker: Option<Waker>,
    pub n_flush: u64,
    pub n_write_calls: u64,
    pub n_read_calls: u64,
    pub shutdown: bool,
    /// C20: called at the entry of every `poll_write` ("write") / `poll_flush` ("flush"), i.e. while the connection task
    /// is between its lock sections; the driver uses it to run handle operations exactly there
    pub hook: Hook,
}

/// Callback slot of the transport (not `Debug`, hence the wrapper).
#[derive(Default)]
pub struct Hook(pub Option<Box<dyn FnMut(&'static str)>>);

impl std::fmt::Debug for Hook {
    fn fmt(&self, f: &mut std::fmt::Formatter<'_>) -> std::fmt::Result {
        write!(f, "Hook({})", if self.0.is_some() { "set" } else { "-" })
    }
}

fn run_hook(cell: &Rc<RefCell<PipeState>>, which: &'static str) {
    let h = cell.borrow_mut().hook.0.take();
    if let Some(mut f) = h {
        f(which);
        let mut s = cell.borrow_mut();
        if s.hook.0.is_none() {
            s.hook.0 = Some(f);
        }
    }
}

#[derive(Clone)]
pub struct Pipe(pub Rc<RefCell<PipeState>>);

impl Pipe {
    pub fn new() -> Pipe {
        Pipe(Rc::new(RefCell::new(PipeState {
            inbound: VecDeque::new(),
            eof: false,
            read_fail: false,
            read_fail_unexpected_eof: false,
            read_chunk: 0,
            read_waker: None,
            outbound: Vec::new(),
            write_mode: WriteMode::All,
            write_chunk: 0,
            write_waker: None,
            n_flush: 0,
            n_write_calls: 0,
            n_read_calls: 0,
            shutdown: false,
            hook: Hook(None),
        })))
    }
    /// The peer sends bytes towards the endpoint.
    pub fn feed(&self, bytes: &[u8]) {
        let mut s = self.0.borrow_mut();
        s.inbound.extend(bytes.iter().copied());
        if let Some(w) = s.read_waker.take() {
            drop(s);
            w.wake();
        }
    }
    pub fn set_eof(&self) {
        let mut s = self.0.borrow_mut();
        s.eof = true;
        if let Some(w) = s.read_waker.take() {
            drop(s);
            w.wake();
        }
    }
    pub fn set_read_fail_kind(&self, unexpected_eof: bool) {
        self.0.borrow_mut().read_fail_unexpected_eof = unexpected_eof;
        self.set_read_fail();
    }
    pub fn set_read_fail(&self) {
        let mut s = self.0.borrow_mut();
        s.read_fail = true;
        if let Some(w) = s.read_waker.take() {
            drop(s);
            w.wake();
        }
    }
    pub fn set_write_mode(&self, m: WriteMode) {
        let mut s = self.0.borrow_mut();
        s.write_mode = m;
        if let Some(w) = s.write_waker.take() {
            drop(s);
            w.wake();
        }
    }
    /// Take everything the endpoint has written so far.
    pub fn take_out(&self) -> Vec<u8> {
        std::mem::take(&mut self.0.borrow_mut().outbound)
    }
}

impl Default for Pipe {
    fn default() -> Self {
        Pipe::new()
    }
}

impl AsyncRead for Pipe {
    fn poll_read(self: Pin<&mut Self>, cx: &mut Context<'_>, buf: &mut ReadBuf<'_>) -> Poll<io::Result<()>> {
        let mut s = self.0.borrow_mut();
        s.n_read_calls += 1;
        if s.inbound.is_empty() {
            if s.read_fail {
                if s.read_fail_unexpected_eof {
                    return Poll::Ready(Err(io::Error::new(io::ErrorKind::UnexpectedEof, "scripted unexpected eof")));
                }
                return Poll::Ready(Err(io::Error::new(io::ErrorKind::ConnectionReset, "scripted read failure")));
            }
            if s.eof {
                return Poll::Ready(Ok(()));
            }
            s.read_waker = Some(cx.waker().clone());
            return Poll::Pending;
        }
        let mut n = buf.remaining().min(s.inbound.len());
        if s.read_chunk > 0 {
            n = n.min(s.read_chunk);
        }
        for _ in 0..n {
            let b = s.inbound.pop_front().unwrap();
            buf.put_slice(&[b]);
        }
        Poll::Ready(Ok(()))
    }
}

impl AsyncWrite for Pipe {
    fn poll_write(self: Pin<&mut Self>, cx: &mut Context<'_>, data: &[u8]) -> Poll<io::Result<usize>> {
        run_hook(&self.0, "write");
        let mut s = self.0.borrow_mut();
        s.n_write_calls += 1;
        let mut n = data.len();
        if s.write_chunk > 0 {
            n = n.min(s.write_chunk);
        }
        match s.write_mode {
            WriteMode::All => {}
            WriteMode::Budget(b) => {
                if b == 0 {
                    s.write_waker = Some(cx.waker().clone());
                    return Poll::Pending;
                }
                n = n.min(b);
                s.write_mode = WriteMode::Budget(b - n);
            }
            WriteMode::Zero => return Poll::Ready(Ok(0)),
            WriteMode::Fail => {
                return Poll::Ready(Err(io::Error::new(io::ErrorKind::BrokenPipe, "scripted write failure")))
            }
        }
        s.outbound.extend_from_slice(&data[..n]);
        Poll::Ready(Ok(n))
    }
    fn poll_flush(self: Pin<&mut Self>, _cx: &mut Context<'_>) -> Poll<io::Result<()>> {
        run_hook(&self.0, "flush");
        self.0.borrow_mut().n_flush += 1;
        Poll::Ready(Ok(()))
    }
    fn poll_shutdown(self: Pin<&mut Self>, _cx: &mut Context<'_>) -> Poll<io::Result<()>> {
        self.0.borrow_mut().shutdown = true;
        Poll::Ready(Ok(()))
    }
}
