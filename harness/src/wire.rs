//! Independent (not h2's) HTTP/2 frame writer and parser used by the scripted peer, plus a
//! table-free HPACK writer (literal without indexing, no Huffman) so that what the peer sends does
//! not depend on the code under test.

pub const DATA: u8 = 0;
pub const HEADERS: u8 = 1;
pub const PRIORITY: u8 = 2;
pub const RST_STREAM: u8 = 3;
pub const SETTINGS: u8 = 4;
pub const PUSH_PROMISE: u8 = 5;
pub const PING: u8 = 6;
pub const GOAWAY: u8 = 7;
pub const WINDOW_UPDATE: u8 = 8;
pub const CONTINUATION: u8 = 9;

pub const FLAG_END_STREAM: u8 = 0x1;
pub const FLAG_ACK: u8 = 0x1;
pub const FLAG_END_HEADERS: u8 = 0x4;
pub const FLAG_PADDED: u8 = 0x8;
pub const FLAG_PRIORITY: u8 = 0x20;

pub const PREFACE: &[u8] = b"PRI * HTTP/2.0\r\n\r\nSM\r\n\r\n";

#[derive(Debug, Clone, PartialEq, Eq)]
pub struct RawFrame {
    pub kind: u8,
    pub flags: u8,
    pub sid: u32,
    pub payload: Vec<u8>,
}

pub fn frame(kind: u8, flags: u8, sid: u32, payload: &[u8]) -> Vec<u8> {
    let mut v = Vec::with_capacity(9 + payload.len());
    let len = payload.len() as u32;
    v.extend_from_slice(&[(len >> 16) as u8, (len >> 8) as u8, len as u8, kind, flags]);
    v.extend_from_slice(&(sid & 0x7fff_ffff).to_be_bytes());
    v.extend_from_slice(payload);
    v
}

/// Split complete frames off the front of `buf`.
pub fn parse_frames(buf: &mut Vec<u8>) -> Vec<RawFrame> {
    let mut out = Vec::new();
    let mut pos = 0;
    while buf.len() - pos >= 9 {
        let len = ((buf[pos] as usize) << 16) | ((buf[pos + 1] as usize) << 8) | buf[pos + 2] as usize;
        if buf.len() - pos < 9 + len {
            break;
        }
        let sid = u32::from_be_bytes([buf[pos + 5], buf[pos + 6], buf[pos + 7], buf[pos + 8]]) & 0x7fff_ffff;
        out.push(RawFrame {
            kind: buf[pos + 3],
            flags: buf[pos + 4],
            sid,
            payload: buf[pos + 9..pos + 9 + len].to_vec(),
        });
        pos += 9 + len;
    }
    buf.drain(..pos);
    out
}

fn hpack_int(out: &mut Vec<u8>, first: u8, prefix_bits: u8, mut v: usize) {
    let max = (1usize << prefix_bits) - 1;
    if v < max {
        out.push(first | v as u8);
        return;
    }
    out.push(first | max as u8);
    v -= max;
    while v >= 128 {
        out.push((v % 128) as u8 | 0x80);
        v /= 128;
    }
    out.push(v as u8);
}

/// Literal header field without indexing, new name, no Huffman (RFC 7541 6.2.2).
pub fn hpack_literal(fields: &[(Vec<u8>, Vec<u8>)]) -> Vec<u8> {
    let mut out = Vec::new();
    for (n, v) in fields {
        out.push(0x00);
        hpack_int(&mut out, 0, 7, n.len());
        out.extend_from_slice(n);
        hpack_int(&mut out, 0, 7, v.len());
        out.extend_from_slice(v);
    }
    out
}

pub fn settings(params: &[(u16, u32)]) -> Vec<u8> {
    let mut p = Vec::new();
    for (id, v) in params {
        p.extend_from_slice(&id.to_be_bytes());
        p.extend_from_slice(&v.to_be_bytes());
    }
    frame(SETTINGS, 0, 0, &p)
}

pub fn settings_ack() -> Vec<u8> {
    frame(SETTINGS, FLAG_ACK, 0, &[])
}

pub fn window_update(sid: u32, inc: u32) -> Vec<u8> {
    frame(WINDOW_UPDATE, 0, sid, &(inc & 0x7fff_ffff).to_be_bytes())
}

pub fn rst_stream(sid: u32, code: u32) -> Vec<u8> {
    frame(RST_STREAM, 0, sid, &code.to_be_bytes())
}

pub fn ping(ack: bool, payload: [u8; 8]) -> Vec<u8> {
    frame(PING, if ack { FLAG_ACK } else { 0 }, 0, &payload)
}

pub fn goaway(last: u32, code: u32, debug: &[u8]) -> Vec<u8> {
    let mut p = Vec::new();
    p.extend_from_slice(&(last & 0x7fff_ffff).to_be_bytes());
    p.extend_from_slice(&code.to_be_bytes());
    p.extend_from_slice(debug);
    frame(GOAWAY, 0, 0, &p)
}

pub fn data(sid: u32, payload: &[u8], eos: bool, pad: Option<u8>) -> Vec<u8> {
    let mut flags = if eos { FLAG_END_STREAM } else { 0 };
    match pad {
        None => frame(DATA, flags, sid, payload),
        Some(p) => {
            flags |= FLAG_PADDED;
            let mut v = vec![p];
            v.extend_from_slice(payload);
            v.extend(std::iter::repeat(0u8).take(p as usize));
            frame(DATA, flags, sid, &v)
        }
    }
}

/// HEADERS (+ CONTINUATION when `split` > 0: block cut into pieces of at most `split` bytes).
pub fn headers(sid: u32, block: &[u8], eos: bool, split: usize) -> Vec<u8> {
    let mut out = Vec::new();
    let es = if eos { FLAG_END_STREAM } else { 0 };
    if split == 0 || block.len() <= split {
        return frame(HEADERS, es | FLAG_END_HEADERS, sid, block);
    }
    let chunks: Vec<&[u8]> = block.chunks(split).collect();
    for (i, c) in chunks.iter().enumerate() {
        let last = i + 1 == chunks.len();
        if i == 0 {
            out.extend(frame(HEADERS, es, sid, c));
        } else {
            out.extend(frame(CONTINUATION, if last { FLAG_END_HEADERS } else { 0 }, sid, c));
        }
    }
    out
}

pub fn push_promise(sid: u32, promised: u32, block: &[u8]) -> Vec<u8> {
    let mut p = Vec::new();
    p.extend_from_slice(&(promised & 0x7fff_ffff).to_be_bytes());
    p.extend_from_slice(block);
    frame(PUSH_PROMISE, FLAG_END_HEADERS, sid, &p)
}

pub fn priority(sid: u32, dep: u32, weight: u8) -> Vec<u8> {
    let mut p = Vec::new();
    p.extend_from_slice(&dep.to_be_bytes());
    p.push(weight);
    frame(PRIORITY, 0, sid, &p)
}
