//! Real multi-threaded runs of one h2 client endpoint (property C20).
//!
//!   threads --seed S --n N [--first I] [--workers W] [--ops K]
//!       N runs; in each: one thread polls the connection against a scripted peer (its own thread, independent
//!       frame parser/writer of `wire`), W worker threads hammer handles (send_request, send_data, reserve_capacity,
//!       capacity, poll_capacity, send_reset, poll_reset, poll_response, poll_data, release_capacity, drops, clones,
//!       user pings) with seeded random timing.  The library's hook events of ALL threads go to the global,
//!       sequence-numbered log of `h2::verif` (events emitted while the stream-state mutex is held are appended before
//!       it is released), bracketed by `op.begin` / `op.end` markers of the harness.  One JSON object per run:
//!         {"seed","i","cfg","workers","log":[[seq,thread,depth,name,args..]..],"ops":[{"t","b","e","op","res"}..],
//!          "frames":[{"t","sid",..,"seq"}..],"snap":{..},"panics":[..],"deadlock":bool,"conn":"..","stats":{..}}
//!   threads --probe poison-recv|poison-ref
//!       child-process probes for the poisoned-lock behaviour of handle destructors (exit status is the result).
use bytes::{Buf, Bytes};
use h2::client;
use h2verif_harness::driver::{err_str, pattern, snap_json};
use h2verif_harness::wire::{self, RawFrame};
use h2verif_harness::{arg_u64, args, Rng};
use serde_json::{json, Value};
use std::collections::{HashMap, VecDeque};
use std::future::Future;
use std::io;
use std::pin::Pin;
use std::sync::atomic::{AtomicBool, AtomicU64, Ordering};
use std::sync::{Arc, Mutex};
use std::task::{Context, Poll, Wake, Waker};
use std::time::{Duration, Instant};
use tokio::io::{AsyncRead, AsyncWrite, ReadBuf};

// ------------------------------------------------------------------------------------------------ transport

struct TState {
    inbound: VecDeque<u8>,
    read_waker: Option<Waker>,
    outbound: Vec<u8>,
    /// (sequence number of the `io.write` marker, bytes accepted by that call)
    writes: Vec<(u64, usize)>,
    credit: usize,
    chunk: usize,
    write_waker: Option<Waker>,
    rng: Rng,
    spin: u64,
    n_flush: u64,
}

#[derive(Clone)]
struct TPipe(Arc<Mutex<TState>>);

fn spin(n: u64) {
    let mut x = 0u64;
    for i in 0..n {
        x = x.wrapping_add(i).rotate_left(3);
        std::hint::black_box(x);
    }
}

impl TPipe {
    fn new(seed: u64, credit: usize, chunk: usize, spin: u64) -> TPipe {
        TPipe(Arc::new(Mutex::new(TState {
            inbound: VecDeque::new(),
            read_waker: None,
            outbound: Vec::new(),
            writes: Vec::new(),
            credit,
            chunk,
            write_waker: None,
            rng: Rng::new(seed ^ 0x7717),
            spin,
            n_flush: 0,
        })))
    }
    fn feed(&self, bytes: &[u8]) {
        let w = {
            let mut s = self.0.lock().unwrap();
            s.inbound.extend(bytes.iter().copied());
            s.read_waker.take()
        };
        if let Some(w) = w {
            w.wake();
        }
    }
    fn grant(&self, n: usize) {
        let w = {
            let mut s = self.0.lock().unwrap();
            s.credit = s.credit.saturating_add(n);
            s.write_waker.take()
        };
        if let Some(w) = w {
            w.wake();
        }
    }
}

impl AsyncRead for TPipe {
    fn poll_read(self: Pin<&mut Self>, cx: &mut Context<'_>, buf: &mut ReadBuf<'_>) -> Poll<io::Result<()>> {
        let mut s = self.0.lock().unwrap();
        if s.inbound.is_empty() {
            s.read_waker = Some(cx.waker().clone());
            return Poll::Pending;
        }
        let n = buf.remaining().min(s.inbound.len());
        for _ in 0..n {
            let b = s.inbound.pop_front().unwrap();
            buf.put_slice(&[b]);
        }
        Poll::Ready(Ok(()))
    }
}

impl AsyncWrite for TPipe {
    fn poll_write(self: Pin<&mut Self>, cx: &mut Context<'_>, data: &[u8]) -> Poll<io::Result<usize>> {
        let (n, sp) = {
            let mut s = self.0.lock().unwrap();
            if s.credit == 0 {
                s.write_waker = Some(cx.waker().clone());
                return Poll::Pending;
            }
            let mut n = data.len().min(s.credit);
            if s.chunk > 0 {
                n = n.min(s.chunk);
            }
            s.credit -= n;
            s.outbound.extend_from_slice(&data[..n]);
            let seq = h2::verif::mark("io.write", vec![n as i64]).unwrap_or(0);
            s.writes.push((seq, n));
            let spin_max = s.spin;
            let sp = if spin_max > 0 { s.rng.below(spin_max) } else { 0 };
            (n, sp)
        };
        // the connection task is between its lock sections here: widen the window
        if sp % 3 == 0 {
            std::thread::yield_now();
        }
        spin(sp);
        Poll::Ready(Ok(n))
    }
    fn poll_flush(self: Pin<&mut Self>, _cx: &mut Context<'_>) -> Poll<io::Result<()>> {
        self.0.lock().unwrap().n_flush += 1;
        std::thread::yield_now();
        Poll::Ready(Ok(()))
    }
    fn poll_shutdown(self: Pin<&mut Self>, _cx: &mut Context<'_>) -> Poll<io::Result<()>> {
        Poll::Ready(Ok(()))
    }
}

// ------------------------------------------------------------------------------------------------ wakers

struct ThreadWaker {
    woken: AtomicBool,
    thread: std::thread::Thread,
}

impl Wake for ThreadWaker {
    fn wake(self: Arc<Self>) {
        self.wake_by_ref()
    }
    fn wake_by_ref(self: &Arc<Self>) {
        self.woken.store(true, Ordering::SeqCst);
        self.thread.unpark();
    }
}

struct CountWaker(AtomicU64);

impl Wake for CountWaker {
    fn wake(self: Arc<Self>) {
        self.0.fetch_add(1, Ordering::SeqCst);
    }
    fn wake_by_ref(self: &Arc<Self>) {
        self.0.fetch_add(1, Ordering::SeqCst);
    }
}

fn poll_n<F: Future + Unpin>(f: &mut F, n: usize) -> Option<F::Output> {
    let w = Waker::from(Arc::new(CountWaker(AtomicU64::new(0))));
    let mut cx = Context::from_waker(&w);
    for _ in 0..n {
        if let Poll::Ready(v) = Pin::new(&mut *f).poll(&mut cx) {
            return Some(v);
        }
    }
    None
}

// ------------------------------------------------------------------------------------------------ shared run state

struct Shared {
    progress: AtomicU64,
    panicked: AtomicBool,
    stop_conn: AtomicBool,
    stop_peer: AtomicBool,
    peer_finish: AtomicBool,
    panics: Mutex<Vec<Value>>,
    ops: Mutex<Vec<Value>>,
}

fn panic_msg(p: Box<dyn std::any::Any + Send>) -> String {
    if let Some(s) = p.downcast_ref::<&str>() {
        s.to_string()
    } else if let Some(s) = p.downcast_ref::<String>() {
        s.clone()
    } else {
        "?".to_string()
    }
}

// op codes of the begin/end markers (the JSON op list carries the details)
const OP_CONN_POLL: i64 = 1;
const OP_HANDLE: i64 = 2;

// ------------------------------------------------------------------------------------------------ scripted peer (server side)

#[derive(Default, Clone)]
struct PeerStream {
    head_sent: bool,
    ep_ended: bool,
    peer_ended: bool,
    reset: bool,
    sent_off: u64,
    pending_wu: u64,
}

fn feed_marked(pipe: &TPipe, kind: i64, sid: u32, val: i64, bytes: &[u8]) {
    h2::verif::mark("io.feed", vec![kind, sid as i64, val]);
    pipe.feed(bytes);
}

#[allow(clippy::too_many_arguments)]
fn peer_thread(pipe: TPipe, sh: Arc<Shared>, seed: u64, grant_max: u64, rst_chance: u64, wu_lazy: u64) {
    h2::verif::set_thread_tag(2);
    let mut rng = Rng::new(seed ^ 0xBEEF);
    let mut consumed = 0usize;
    let mut buf: Vec<u8> = Vec::new();
    let mut preface_skipped = false;
    let mut streams: HashMap<u32, PeerStream> = HashMap::new();
    let mut conn_pending_wu: u64 = 0;
    let mut idle_rounds = 0u32;
    loop {
        if sh.stop_peer.load(Ordering::SeqCst) || sh.panicked.load(Ordering::SeqCst) {
            break;
        }
        let finishing = sh.peer_finish.load(Ordering::SeqCst);
        let new_bytes: Vec<u8> = {
            let s = pipe.0.lock().unwrap();
            s.outbound[consumed..].to_vec()
        };
        let mut did = false;
        if !new_bytes.is_empty() {
            consumed += new_bytes.len();
            buf.extend_from_slice(&new_bytes);
            did = true;
        }
        if !preface_skipped && buf.len() >= wire::PREFACE.len() {
            buf.drain(..wire::PREFACE.len());
            preface_skipped = true;
        }
        let frames: Vec<RawFrame> = if preface_skipped { wire::parse_frames(&mut buf) } else { Vec::new() };
        for f in frames {
            match f.kind {
                wire::SETTINGS => {
                    if f.flags & wire::FLAG_ACK == 0 {
                        feed_marked(&pipe, 4, 0, -1, &wire::settings_ack());
                    }
                }
                wire::PING => {
                    if f.flags & wire::FLAG_ACK == 0 && f.payload.len() == 8 {
                        let mut p = [0u8; 8];
                        p.copy_from_slice(&f.payload);
                        feed_marked(&pipe, 6, 0, 1, &wire::ping(true, p));
                    }
                }
                wire::HEADERS => {
                    let st = streams.entry(f.sid).or_default();
                    if f.flags & wire::FLAG_END_STREAM != 0 {
                        st.ep_ended = true;
                    }
                }
                wire::DATA => {
                    let n = f.payload.len() as u64;
                    conn_pending_wu += n;
                    let st = streams.entry(f.sid).or_default();
                    st.pending_wu += n;
                    if f.flags & wire::FLAG_END_STREAM != 0 {
                        st.ep_ended = true;
                    }
                }
                wire::RST_STREAM => {
                    streams.entry(f.sid).or_default().reset = true;
                }
                _ => {}
            }
        }
        // window updates (sometimes delayed so that streams run out of window)
        if conn_pending_wu > 0 && (finishing || rng.below(wu_lazy + 1) == 0) {
            feed_marked(&pipe, 8, 0, conn_pending_wu as i64, &wire::window_update(0, conn_pending_wu as u32));
            conn_pending_wu = 0;
            did = true;
        }
        let sids: Vec<u32> = streams.keys().copied().collect();
        for sid in sids {
            let st = streams.get_mut(&sid).unwrap();
            if st.reset {
                continue;
            }
            if st.pending_wu > 0 && !st.ep_ended && (finishing || rng.below(wu_lazy + 1) == 0) {
                let n = st.pending_wu;
                st.pending_wu = 0;
                feed_marked(&pipe, 8, sid, n as i64, &wire::window_update(sid, n as u32));
                did = true;
            }
            if !st.head_sent && (finishing || rng.chance(1, 3)) {
                st.head_sent = true;
                let block = wire::hpack_literal(&[(b":status".to_vec(), b"200".to_vec())]);
                feed_marked(&pipe, 1, sid, 0, &wire::headers(sid, &block, false, 0));
                did = true;
            } else if st.head_sent && !st.peer_ended && (finishing || rng.chance(1, 4)) {
                // response body: small chunks, at most 3000 bytes per stream (always inside the default windows)
                let n = rng.range(0, 400);
                let eos = finishing || st.sent_off + n > 2600 || rng.chance(1, 5);
                let body: Vec<u8> = (0..n).map(|i| pattern(sid, 1, st.sent_off + i)).collect();
                st.sent_off += n;
                st.peer_ended = eos;
                feed_marked(&pipe, 0, sid, n as i64, &wire::data(sid, &body, eos, None));
                did = true;
            } else if !finishing && rst_chance > 0 && !st.peer_ended && rng.below(rst_chance) == 0 {
                st.reset = true;
                st.peer_ended = true;
                feed_marked(&pipe, 3, sid, 8, &wire::rst_stream(sid, 8));
                did = true;
            }
        }
        // the "network" drains: more write credit
        if finishing {
            pipe.grant(1 << 20);
        } else if rng.chance(2, 3) {
            pipe.grant(rng.range(1, grant_max) as usize);
        }
        if did {
            sh.progress.fetch_add(1, Ordering::SeqCst);
            idle_rounds = 0;
        } else {
            idle_rounds += 1;
        }
        if idle_rounds > 3 {
            std::thread::sleep(Duration::from_micros(200));
        } else {
            match rng.below(3) {
                0 => std::thread::yield_now(),
                1 => spin(rng.below(3000)),
                _ => std::thread::sleep(Duration::from_micros(50)),
            }
        }
    }
}

// ------------------------------------------------------------------------------------------------ workers

#[derive(Default)]
struct WHandle {
    sid: u32,
    send: Option<h2::SendStream<Bytes>>,
    resp: Option<client::ResponseFuture>,
    recv: Option<h2::RecvStream>,
    sent_off: u64,
    recv_off: u64,
    unreleased: u64,
}

struct Worker {
    tid: u32,
    rng: Rng,
    sr: Vec<Option<client::SendRequest<Bytes>>>,
    handles: Vec<WHandle>,
    ping: Option<h2::PingPong>,
    waker: Waker,
    sh: Arc<Shared>,
    max_data: u64,
    /// after a big send_data: reset / drop that stream a few operations later (aims at the window in which its DATA frame is
    /// with the codec while the connection task holds no lock)
    follow: Option<(usize, u64)>,
}

impl Worker {
    fn gen_op(&mut self) -> Value {
        if let Some((h, n)) = self.follow {
            if n == 0 {
                self.follow = None;
                if self.handles[h].send.is_some() {
                    return if self.rng.chance(2, 3) { json!({"op":"send_reset","h":h,"code":8}) } else { json!({"op":"drop_send","h":h}) };
                }
            } else {
                self.follow = Some((h, n - 1));
            }
        }
        let r = self.rng.below(100);
        let live: Vec<usize> = (0..self.handles.len())
            .filter(|&i| self.handles[i].send.is_some() || self.handles[i].recv.is_some() || self.handles[i].resp.is_some())
            .collect();
        let with_send: Vec<usize> = (0..self.handles.len()).filter(|&i| self.handles[i].send.is_some()).collect();
        if self.ping.is_some() && r < 6 {
            return if self.rng.chance(1, 2) { json!({"op":"send_ping"}) } else { json!({"op":"poll_pong"}) };
        }
        if live.len() < 2 || (live.len() < 5 && r < 18) {
            return if self.rng.chance(1, 3) { json!({"op":"poll_ready"}) } else { json!({"op":"send_request","eos": self.rng.chance(1, 8)}) };
        }
        if r < 22 {
            return match self.rng.below(4) {
                0 => json!({"op":"clone_sr"}),
                1 if self.sr.iter().flatten().count() > 1 => {
                    let i = (0..self.sr.len()).rev().find(|&i| self.sr[i].is_some()).unwrap_or(0);
                    json!({"op":"drop_sr","sr": i})
                }
                _ => json!({"op":"poll_ready"}),
            };
        }
        if !with_send.is_empty() && r < 75 {
            let h = *self.rng.pick(&with_send);
            let k = self.rng.below(100);
            return if k < 38 {
                let len = match self.rng.below(10) {
                    0 => 0,
                    1..=4 => self.rng.range(1, 300),
                    5..=7 => self.rng.range(800, 5000.min(self.max_data.max(801))),
                    _ => self.rng.range(1000, self.max_data.max(1001)),
                };
                if len >= 1024 && self.follow.is_none() && self.rng.chance(1, 3) {
                    self.follow = Some((h, self.rng.below(4)));
                }
                json!({"op":"send_data","h":h,"len":len,"eos": self.rng.chance(1, 7)})
            } else if k < 52 {
                json!({"op":"reserve","h":h,"n": *self.rng.pick(&[0u64, 1, 100, 1000, 5000, 20000, 70000])})
            } else if k < 62 {
                json!({"op":"capacity","h":h})
            } else if k < 76 {
                json!({"op":"poll_capacity","h":h})
            } else if k < 84 {
                json!({"op":"send_reset","h":h,"code": *self.rng.pick(&[8u64, 0, 2])})
            } else if k < 90 {
                json!({"op":"poll_reset","h":h})
            } else if k < 94 {
                json!({"op":"send_trailers","h":h})
            } else {
                json!({"op":"drop_send","h":h})
            };
        }
        if live.is_empty() {
            return json!({"op":"poll_ready"});
        }
        let h = *self.rng.pick(&live);
        let hd = &self.handles[h];
        if hd.resp.is_some() {
            return if self.rng.chance(1, 8) { json!({"op":"drop_response","h":h}) } else { json!({"op":"poll_response","h":h}) };
        }
        if hd.recv.is_some() {
            return match self.rng.below(8) {
                0..=3 => json!({"op":"poll_data","h":h}),
                4 | 5 => json!({"op":"release","h":h,"n": if hd.unreleased > 0 { self.rng.range(1, hd.unreleased) } else { 0 }}),
                6 => json!({"op":"poll_trailers","h":h}),
                _ => json!({"op":"drop_recv","h":h}),
            };
        }
        json!({"op":"capacity","h":h})
    }

    fn exec(&mut self, op: &Value) -> Value {
        let name = op["op"].as_str().unwrap_or("");
        let h = op["h"].as_u64().unwrap_or(0) as usize;
        let mut cx = Context::from_waker(&self.waker);
        match name {
            "poll_ready" => match self.sr.iter_mut().flatten().next() {
                None => json!("no-handle"),
                Some(s) => match s.poll_ready(&mut cx) {
                    Poll::Pending => json!("Pending"),
                    Poll::Ready(Ok(())) => json!("Ready"),
                    Poll::Ready(Err(e)) => json!(err_str(&e)),
                },
            },
            "clone_sr" => {
                let c = self.sr.iter().flatten().next().cloned();
                match c {
                    Some(c) => {
                        self.sr.push(Some(c));
                        json!(self.sr.len() - 1)
                    }
                    None => json!("no-handle"),
                }
            }
            "drop_sr" => {
                let i = op["sr"].as_u64().unwrap_or(0) as usize;
                if let Some(s) = self.sr.get_mut(i) {
                    s.take();
                }
                json!("dropped")
            }
            "send_request" => {
                let eos = op["eos"].as_bool().unwrap_or(false);
                let req = http::Request::builder().method("POST").uri("https://example.com/").body(()).unwrap();
                match self.sr.iter_mut().flatten().last() {
                    None => json!("no-handle"),
                    Some(s) => match s.send_request(req, eos) {
                        Ok((resp, send)) => {
                            let sid = u32::from(send.stream_id());
                            self.handles.push(WHandle { sid, send: Some(send), resp: Some(resp), ..Default::default() });
                            json!({"h": self.handles.len() - 1, "sid": sid})
                        }
                        Err(e) => json!(err_str(&e)),
                    },
                }
            }
            "send_data" => {
                let len = op["len"].as_u64().unwrap_or(0);
                let eos = op["eos"].as_bool().unwrap_or(false);
                let hd = &mut self.handles[h];
                let (sid, off) = (hd.sid, hd.sent_off);
                match hd.send.as_mut() {
                    None => json!("no-handle"),
                    Some(s) => {
                        let body: Vec<u8> = (0..len).map(|i| pattern(sid, 0, off + i)).collect();
                        match s.send_data(Bytes::from(body), eos) {
                            Ok(()) => {
                                hd.sent_off += len;
                                json!("ok")
                            }
                            Err(e) => json!(err_str(&e)),
                        }
                    }
                }
            }
            "reserve" => match self.handles[h].send.as_mut() {
                None => json!("no-handle"),
                Some(s) => {
                    s.reserve_capacity(op["n"].as_u64().unwrap_or(0) as usize);
                    json!("ok")
                }
            },
            "capacity" => match self.handles[h].send.as_mut() {
                None => json!("no-handle"),
                Some(s) => json!({"capacity": s.capacity()}),
            },
            "poll_capacity" => match self.handles[h].send.as_mut() {
                None => json!("no-handle"),
                Some(s) => match s.poll_capacity(&mut cx) {
                    Poll::Pending => json!("Pending"),
                    Poll::Ready(None) => json!("None"),
                    Poll::Ready(Some(Ok(n))) => json!({"capacity": n}),
                    Poll::Ready(Some(Err(e))) => json!(err_str(&e)),
                },
            },
            "send_reset" => match self.handles[h].send.as_mut() {
                None => json!("no-handle"),
                Some(s) => {
                    s.send_reset(h2::Reason::from(op["code"].as_u64().unwrap_or(8) as u32));
                    json!("ok")
                }
            },
            "poll_reset" => match self.handles[h].send.as_mut() {
                None => json!("no-handle"),
                Some(s) => match s.poll_reset(&mut cx) {
                    Poll::Pending => json!("Pending"),
                    Poll::Ready(Ok(r)) => json!({"reason": u32::from(r)}),
                    Poll::Ready(Err(e)) => json!(err_str(&e)),
                },
            },
            "send_trailers" => match self.handles[h].send.as_mut() {
                None => json!("no-handle"),
                Some(s) => {
                    let mut m = http::HeaderMap::new();
                    m.insert("x-trailer", http::HeaderValue::from_static("t"));
                    match s.send_trailers(m) {
                        Ok(()) => json!("ok"),
                        Err(e) => json!(err_str(&e)),
                    }
                }
            },
            "drop_send" => {
                self.handles[h].send.take();
                json!("dropped")
            }
            "poll_response" => {
                let hd = &mut self.handles[h];
                match hd.resp.as_mut() {
                    None => json!("no-handle"),
                    Some(r) => match Pin::new(r).poll(&mut cx) {
                        Poll::Pending => json!("Pending"),
                        Poll::Ready(Ok(resp)) => {
                            let (parts, body) = resp.into_parts();
                            hd.recv = Some(body);
                            hd.resp = None;
                            json!({"status": parts.status.as_u16()})
                        }
                        Poll::Ready(Err(e)) => {
                            hd.resp = None;
                            json!(err_str(&e))
                        }
                    },
                }
            }
            "drop_response" => {
                self.handles[h].resp.take();
                json!("dropped")
            }
            "poll_data" => {
                let hd = &mut self.handles[h];
                let sid = hd.sid;
                match hd.recv.as_mut() {
                    None => json!("no-handle"),
                    Some(r) => match r.poll_data(&mut cx) {
                        Poll::Pending => json!("Pending"),
                        Poll::Ready(None) => json!("None"),
                        Poll::Ready(Some(Ok(b))) => {
                            let off = hd.recv_off;
                            let good = b.iter().enumerate().all(|(i, x)| *x == pattern(sid, 1, off + i as u64));
                            hd.recv_off += b.len() as u64;
                            hd.unreleased += b.len() as u64;
                            json!({"len": b.len(), "pattern_ok": good})
                        }
                        Poll::Ready(Some(Err(e))) => json!(err_str(&e)),
                    },
                }
            }
            "poll_trailers" => match self.handles[h].recv.as_mut() {
                None => json!("no-handle"),
                Some(r) => match r.poll_trailers(&mut cx) {
                    Poll::Pending => json!("Pending"),
                    Poll::Ready(Ok(None)) => json!("None"),
                    Poll::Ready(Ok(Some(_))) => json!("Trailers"),
                    Poll::Ready(Err(e)) => json!(err_str(&e)),
                },
            },
            "release" => {
                let n = op["n"].as_u64().unwrap_or(0) as usize;
                let hd = &mut self.handles[h];
                match hd.recv.as_mut() {
                    None => json!("no-handle"),
                    Some(r) => match r.flow_control().release_capacity(n) {
                        Ok(()) => {
                            hd.unreleased = hd.unreleased.saturating_sub(n as u64);
                            json!({"ok": true})
                        }
                        Err(e) => json!({"ok": false, "err": err_str(&e)}),
                    },
                }
            }
            "drop_recv" => {
                self.handles[h].recv.take();
                json!("dropped")
            }
            "send_ping" => match self.ping.as_mut() {
                None => json!("no-handle"),
                Some(p) => match p.send_ping(h2::Ping::opaque()) {
                    Ok(()) => json!("ok"),
                    Err(e) => json!(err_str(&e)),
                },
            },
            "poll_pong" => match self.ping.as_mut() {
                None => json!("no-handle"),
                Some(p) => match p.poll_pong(&mut cx) {
                    Poll::Pending => json!("Pending"),
                    Poll::Ready(Ok(_)) => json!("Pong"),
                    Poll::Ready(Err(e)) => json!(err_str(&e)),
                },
            },
            _ => json!("unknown-op"),
        }
    }

    /// one recorded operation: markers, panic capture
    fn step(&mut self, op: Value) -> bool {
        let b = h2::verif::mark("op.begin", vec![OP_HANDLE]).unwrap_or(0);
        let res = match std::panic::catch_unwind(std::panic::AssertUnwindSafe(|| self.exec(&op))) {
            Ok(v) => v,
            Err(p) => {
                let msg = panic_msg(p);
                self.sh.panics.lock().unwrap().push(json!({"thread": self.tid, "op": op, "panic": msg}));
                self.sh.panicked.store(true, Ordering::SeqCst);
                json!({"panic": msg})
            }
        };
        let e = h2::verif::mark("op.end", vec![OP_HANDLE]).unwrap_or(0);
        let bad = res.get("panic").is_some();
        self.sh.ops.lock().unwrap().push(json!({"t": self.tid, "b": b, "e": e, "op": op, "res": res}));
        self.sh.progress.fetch_add(1, Ordering::SeqCst);
        !bad
    }

    fn pause(&mut self) {
        match self.rng.below(6) {
            0 | 1 => std::thread::yield_now(),
            2 | 3 => spin(self.rng.below(2500)),
            4 => std::thread::sleep(Duration::from_micros(self.rng.range(10, 120))),
            _ => {}
        }
    }

    fn run(mut self, n_ops: usize) {
        h2::verif::set_thread_tag(self.tid);
        let mut done = 0;
        while done < n_ops && !self.sh.panicked.load(Ordering::SeqCst) {
            let op = self.gen_op();
            if !self.step(op) {
                break;
            }
            done += 1;
            self.pause();
        }
        if self.sh.panicked.load(Ordering::SeqCst) {
            // the stream-state mutex may be poisoned: destructors of handles would panic again
            std::mem::forget(self);
            return;
        }
        // drop everything that is left, one recorded operation per handle
        for h in 0..self.handles.len() {
            for name in ["drop_send", "drop_response", "drop_recv"] {
                let present = match name {
                    "drop_send" => self.handles[h].send.is_some(),
                    "drop_response" => self.handles[h].resp.is_some(),
                    _ => self.handles[h].recv.is_some(),
                };
                if present && !self.step(json!({"op": name, "h": h})) {
                    std::mem::forget(self);
                    return;
                }
            }
        }
        for i in 0..self.sr.len() {
            if self.sr[i].is_some() && !self.step(json!({"op":"drop_sr","sr": i})) {
                std::mem::forget(self);
                return;
            }
        }
        self.ping.take();
    }
}

// ------------------------------------------------------------------------------------------------ one run

fn describe(f: &RawFrame, offs: &mut HashMap<u32, u64>) -> Value {
    let p = &f.payload;
    let be32 = |b: &[u8]| u32::from_be_bytes([b[0], b[1], b[2], b[3]]);
    match f.kind {
        wire::DATA => {
            let off = offs.entry(f.sid).or_insert(0);
            let good = p.iter().enumerate().all(|(i, x)| *x == pattern(f.sid, 0, *off + i as u64));
            let o = *off;
            *off += p.len() as u64;
            json!({"t":"DATA","sid":f.sid,"len":p.len(),"flen":p.len(),"eos":f.flags & wire::FLAG_END_STREAM != 0,"off":o,"pattern_ok":good})
        }
        wire::HEADERS => json!({"t":"HEADERS","sid":f.sid,"flen":p.len(),"eos":f.flags & wire::FLAG_END_STREAM != 0,"eoh":f.flags & wire::FLAG_END_HEADERS != 0}),
        wire::RST_STREAM => json!({"t":"RST_STREAM","sid":f.sid,"code": if p.len()==4 {be32(p) as i64} else {-1}}),
        wire::SETTINGS => {
            let mut params = Vec::new();
            for c in p.chunks(6) {
                if c.len() == 6 {
                    params.push(json!([u16::from_be_bytes([c[0], c[1]]), be32(&c[2..6])]));
                }
            }
            json!({"t":"SETTINGS","sid":f.sid,"ack":f.flags & wire::FLAG_ACK != 0,"params":params,"flen":p.len()})
        }
        wire::PING => json!({"t":"PING","sid":f.sid,"ack":f.flags & wire::FLAG_ACK != 0}),
        wire::GOAWAY => json!({"t":"GOAWAY","sid":f.sid,"last": if p.len()>=8 {(be32(&p[0..4]) & 0x7fff_ffff) as i64} else {-1},
                                "code": if p.len()>=8 {be32(&p[4..8]) as i64} else {-1}}),
        wire::WINDOW_UPDATE => json!({"t":"WINDOW_UPDATE","sid":f.sid,"inc": if p.len()==4 {(be32(p) & 0x7fff_ffff) as i64} else {-1}}),
        k => json!({"t":"OTHER","kind":k,"sid":f.sid,"flen":p.len()}),
    }
}

fn run_one(seed: u64, i: u64, workers: usize, n_ops: usize) -> Value {
    let mut rng = Rng::new(seed.wrapping_mul(1_000_003).wrapping_add(i));
    // configuration
    let peer_iws = *rng.pick(&[None, Some(1000u32), Some(5000), Some(20000), Some(65535), Some(200000)]);
    let peer_mfs = *rng.pick(&[None, None, Some(16384u32), Some(30000)]);
    let peer_mcs = *rng.pick(&[None, None, Some(3u32), Some(10)]);
    let max_buf = *rng.pick(&[None, None, Some(1000usize), Some(5000), Some(100000)]);
    let mut peer_settings: Vec<(u16, u32)> = Vec::new();
    if let Some(v) = peer_iws {
        peer_settings.push((4, v));
    }
    if let Some(v) = peer_mfs {
        peer_settings.push((5, v));
    }
    if let Some(v) = peer_mcs {
        peer_settings.push((3, v));
    }
    let chunk = *rng.pick(&[0usize, 0, 100, 700, 3000]);
    let grant_max = *rng.pick(&[400u64, 2000, 9000, 60000]);
    let spin_max = *rng.pick(&[0u64, 500, 4000, 20000]);
    let rst_chance = *rng.pick(&[0u64, 40, 150]);
    let wu_lazy = *rng.pick(&[0u64, 1, 4]);
    let max_data = *rng.pick(&[3000u64, 12000, 40000]);
    let cfg = json!({"role":"client","max_send_buffer_size":max_buf,"peer_settings":peer_settings.iter().map(|(a,b)| json!([a,b])).collect::<Vec<_>>(),
                     "io":{"chunk":chunk,"grant_max":grant_max,"spin":spin_max,"rst_chance":rst_chance,"wu_lazy":wu_lazy,"max_data":max_data}});

    h2::verif::start_global();
    h2::verif::set_thread_tag(0);
    let pipe = TPipe::new(seed ^ i, 1 << 16, chunk, spin_max);
    let mut b = client::Builder::new();
    if let Some(v) = max_buf {
        b.max_send_buffer_size(v);
    }
    let mut fut = Box::pin(b.handshake::<_, Bytes>(pipe.clone()));
    let (sr, mut conn) = match poll_n(&mut fut, 8) {
        Some(Ok(x)) => x,
        _ => return json!({"seed": seed, "i": i, "cfg": cfg, "error": "handshake"}),
    };
    let ping = conn.ping_pong();
    h2::verif::mark("io.feed", vec![4, 0, peer_iws.map(|v| v as i64).unwrap_or(-1)]);
    pipe.feed(&wire::settings(&peer_settings));

    let sh = Arc::new(Shared {
        progress: AtomicU64::new(0),
        panicked: AtomicBool::new(false),
        stop_conn: AtomicBool::new(false),
        stop_peer: AtomicBool::new(false),
        peer_finish: AtomicBool::new(false),
        panics: Mutex::new(Vec::new()),
        ops: Mutex::new(Vec::new()),
    });

    // connection thread
    let sh_c = sh.clone();
    let conn_parked = Arc::new(AtomicBool::new(false));
    let conn_parked_c = conn_parked.clone();
    let conn_thread = std::thread::spawn(move || {
        h2::verif::set_thread_tag(1);
        let tw = Arc::new(ThreadWaker { woken: AtomicBool::new(true), thread: std::thread::current() });
        let waker = Waker::from(tw.clone());
        let mut cx = Context::from_waker(&waker);
        let mut result: Option<String> = None;
        let mut polls = 0u64;
        loop {
            if sh_c.panicked.load(Ordering::SeqCst) {
                break;
            }
            if tw.woken.swap(false, Ordering::SeqCst) {
                conn_parked_c.store(false, Ordering::SeqCst);
                let b = h2::verif::mark("op.begin", vec![OP_CONN_POLL]).unwrap_or(0);
                let r = std::panic::catch_unwind(std::panic::AssertUnwindSafe(|| Pin::new(&mut conn).poll(&mut cx)));
                let e = h2::verif::mark("op.end", vec![OP_CONN_POLL]).unwrap_or(0);
                polls += 1;
                sh_c.progress.fetch_add(1, Ordering::SeqCst);
                let res = match r {
                    Ok(Poll::Pending) => json!("Pending"),
                    Ok(Poll::Ready(Ok(()))) => {
                        result = Some("Ok".into());
                        json!("Ready(Ok)")
                    }
                    Ok(Poll::Ready(Err(e))) => {
                        let s = err_str(&e);
                        result = Some(s.clone());
                        json!(s)
                    }
                    Err(p) => {
                        let msg = panic_msg(p);
                        sh_c.panics.lock().unwrap().push(json!({"thread": 1, "op": {"op":"conn_poll"}, "panic": msg}));
                        sh_c.panicked.store(true, Ordering::SeqCst);
                        json!({"panic": msg})
                    }
                };
                sh_c.ops.lock().unwrap().push(json!({"t": 1, "b": b, "e": e, "op": {"op":"conn_poll"}, "res": res}));
                if result.is_some() {
                    break;
                }
            } else {
                if sh_c.stop_conn.load(Ordering::SeqCst) {
                    break;
                }
                conn_parked_c.store(true, Ordering::SeqCst);
                std::thread::park_timeout(Duration::from_millis(2));
            }
        }
        (conn, result, polls)
    });

    // peer thread
    let (pipe_p, sh_p) = (pipe.clone(), sh.clone());
    let peer = std::thread::spawn(move || peer_thread(pipe_p, sh_p, seed ^ (i << 8), grant_max, rst_chance, wu_lazy));

    // workers
    let mut hs = Vec::new();
    let mut ping = ping;
    for w in 0..workers {
        let wk = Worker {
            tid: 10 + w as u32,
            rng: Rng::new(seed.wrapping_mul(7919).wrapping_add(i * 131 + w as u64)),
            sr: vec![Some(sr.clone())],
            handles: Vec::new(),
            ping: if w == 0 { ping.take() } else { None },
            waker: Waker::from(Arc::new(CountWaker(AtomicU64::new(0)))),
            sh: sh.clone(),
            max_data,
            follow: None,
        };
        hs.push(std::thread::spawn(move || wk.run(n_ops)));
    }
    drop(sr);

    // watchdog: a run that stops making progress while workers are unfinished is a deadlock
    let t0 = Instant::now();
    let mut last = (sh.progress.load(Ordering::SeqCst), Instant::now());
    let mut deadlock = false;
    loop {
        if hs.iter().all(|h| h.is_finished()) {
            break;
        }
        std::thread::sleep(Duration::from_millis(5));
        let p = sh.progress.load(Ordering::SeqCst);
        if p != last.0 {
            last = (p, Instant::now());
        } else if last.1.elapsed() > Duration::from_secs(20) {
            deadlock = true;
            break;
        }
    }
    if deadlock {
        let log = h2::verif::drain_global();
        println!("{}", json!({"seed": seed, "i": i, "cfg": cfg, "workers": workers, "deadlock": true, "elapsed_ms": t0.elapsed().as_millis() as u64,
                              "last_events": log.iter().rev().take(40).map(|g| json!([g.seq, g.thread, g.ev.name])).collect::<Vec<_>>(),
                              "ops_done": sh.ops.lock().map(|o| o.len()).unwrap_or(0)}));
        std::process::exit(3);
    }
    for h in hs {
        let _ = h.join();
    }
    // quiesce: let the peer answer everything, wait until nothing moves any more
    sh.peer_finish.store(true, Ordering::SeqCst);
    let mut quiet = 0;
    let mut lastp = sh.progress.load(Ordering::SeqCst);
    let tq = Instant::now();
    while quiet < 6 && tq.elapsed() < Duration::from_secs(10) && !sh.panicked.load(Ordering::SeqCst) {
        std::thread::sleep(Duration::from_millis(4));
        let p = sh.progress.load(Ordering::SeqCst);
        if p == lastp && (conn_parked.load(Ordering::SeqCst) || conn_thread.is_finished()) {
            quiet += 1;
        } else {
            quiet = 0;
            lastp = p;
        }
    }
    let settled = quiet >= 6;
    sh.stop_conn.store(true, Ordering::SeqCst);
    let (conn, conn_result, polls) = match conn_thread.join() {
        Ok(x) => x,
        Err(_) => return json!({"seed": seed, "i": i, "cfg": cfg, "error": "connection thread died"}),
    };
    sh.stop_peer.store(true, Ordering::SeqCst);
    let _ = peer.join();
    h2::verif::stop_global();
    let panicked = sh.panicked.load(Ordering::SeqCst);
    let snap = if panicked {
        Value::Null
    } else {
        match std::panic::catch_unwind(std::panic::AssertUnwindSafe(|| conn.verif_snapshot())) {
            Ok(s) => snap_json(&s),
            Err(_) => Value::Null,
        }
    };
    std::mem::forget(conn);
    let log: Vec<Value> = h2::verif::drain_global()
        .into_iter()
        .map(|g| {
            let mut a = vec![json!(g.seq), json!(g.thread), json!(g.ev.depth), json!(g.ev.name)];
            a.extend(g.ev.args.into_iter().map(|x| json!(x)));
            Value::Array(a)
        })
        .collect();
    // the endpoint's output, frame by frame, with the sequence number of the write that completed each frame
    let (outbound, writes) = {
        let s = pipe.0.lock().unwrap();
        (s.outbound.clone(), s.writes.clone())
    };
    let mut frames: Vec<Value> = Vec::new();
    {
        let mut pos = wire::PREFACE.len().min(outbound.len());
        let mut offs: HashMap<u32, u64> = HashMap::new();
        let mut wi = 0usize;
        let mut wend = 0usize; // bytes covered by writes[..wi]
        while outbound.len() >= pos + 9 {
            let len = ((outbound[pos] as usize) << 16) | ((outbound[pos + 1] as usize) << 8) | outbound[pos + 2] as usize;
            if outbound.len() < pos + 9 + len {
                break;
            }
            let mut chunk = outbound[pos..pos + 9 + len].to_vec();
            let f = wire::parse_frames(&mut chunk).remove(0);
            let start = pos;
            pos += 9 + len;
            let mut seq_first = None;
            while wi < writes.len() && wend + writes[wi].1 < pos {
                if seq_first.is_none() && wend + writes[wi].1 > start {
                    seq_first = Some(writes[wi].0);
                }
                wend += writes[wi].1;
                wi += 1;
            }
            let seq_last = writes.get(wi).map(|w| w.0).unwrap_or(0);
            let mut d = describe(&f, &mut offs);
            d["seq"] = json!(seq_last);
            d["seq_first"] = json!(seq_first.unwrap_or(seq_last));
            frames.push(d);
        }
    }
    let ops = std::mem::take(&mut *sh.ops.lock().unwrap());
    let panics = std::mem::take(&mut *sh.panics.lock().unwrap());
    let mut hist: std::collections::BTreeMap<String, u64> = Default::default();
    for o in &ops {
        *hist.entry(o["op"]["op"].as_str().unwrap_or("?").to_string()).or_default() += 1;
    }
    json!({"seed": seed, "i": i, "cfg": cfg, "workers": workers, "deadlock": false, "settled": settled, "conn": conn_result,
           "log": log, "ops": ops, "frames": frames, "snap": snap, "panics": panics,
           "stats": {"polls": polls, "ops": hist, "elapsed_ms": t0.elapsed().as_millis() as u64, "out_bytes": outbound.len()}})
}

// ------------------------------------------------------------------------------------------------ poisoned-lock probes

/// A body whose `remaining()` panics on demand: `StreamRef::send_data` calls it while the stream-state mutex is held.
struct PanicBuf {
    data: Bytes,
    boom: bool,
}

impl Buf for PanicBuf {
    fn remaining(&self) -> usize {
        if self.boom {
            panic!("user Buf::remaining panics");
        }
        self.data.remaining()
    }
    fn chunk(&self) -> &[u8] {
        self.data.chunk()
    }
    fn advance(&mut self, n: usize) {
        self.data.advance(n)
    }
}

/// exit 0: the panic unwound normally (caught); the process dies with SIGABRT when a destructor panics while unwinding.
fn probe(kind: &str) {
    if std::env::var("VERIF_PANIC_VERBOSE").is_err() {
        std::panic::set_hook(Box::new(|_| {}));
    }
    let pipe = TPipe::new(1, 1 << 20, 0, 0);
    let mut fut = Box::pin(client::Builder::new().handshake::<_, PanicBuf>(pipe.clone()));
    let (mut sr, mut conn) = poll_n(&mut fut, 8).expect("handshake").expect("handshake ok");
    pipe.feed(&wire::settings(&[]));
    let w = Waker::from(Arc::new(CountWaker(AtomicU64::new(0))));
    let mut cx = Context::from_waker(&w);
    let _ = Pin::new(&mut conn).poll(&mut cx);
    let req = http::Request::builder().method("POST").uri("https://example.com/").body(()).unwrap();
    let (mut resp, mut send) = sr.send_request(req, false).expect("send_request");
    let _ = Pin::new(&mut conn).poll(&mut cx);
    let block = wire::hpack_literal(&[(b":status".to_vec(), b"200".to_vec())]);
    pipe.feed(&wire::headers(1, &block, false, 0));
    let _ = Pin::new(&mut conn).poll(&mut cx);
    let body: Option<h2::RecvStream> = match Pin::new(&mut resp).poll(&mut cx) {
        Poll::Ready(Ok(r)) => Some(r.into_body()),
        _ => None,
    };
    assert!(body.is_some(), "no response");
    let body = if kind == "poison-recv" {
        body
    } else {
        drop(body); // poison-ref: the RecvStream is dropped while the lock is healthy
        None
    };
    let r = std::panic::catch_unwind(std::panic::AssertUnwindSafe(move || {
        // the handles live on this stack frame while send_data panics under the lock
        let _keep_recv = body;
        let _ = send.send_data(PanicBuf { data: Bytes::from_static(b"x"), boom: true }, false);
    }));
    // the poisoned lock surfaces on the next handle operation (as a panic), it is not silently ignored
    let next = std::panic::catch_unwind(std::panic::AssertUnwindSafe(|| {
        let _ = sr.poll_ready(&mut cx);
    }));
    // the connection's own end-of-stream handling maps the poisoned lock to an error instead of panicking
    let conn_poll = std::panic::catch_unwind(std::panic::AssertUnwindSafe(|| {
        matches!(Pin::new(&mut conn).poll(&mut cx), Poll::Ready(_))
    }));
    println!("{}", json!({"probe": kind, "first_panic_unwound": r.is_err(), "next_handle_op_panics": next.is_err(),
                          "conn_poll_panics": conn_poll.is_err()}));
    std::mem::forget(conn);
    std::mem::forget(sr);
    std::process::exit(0);
}

trait HoldStreamId {
    fn clone_stream_id_holder(&self) -> h2::StreamId;
}

impl<B: Buf> HoldStreamId for h2::SendStream<B> {
    fn clone_stream_id_holder(&self) -> h2::StreamId {
        self.stream_id()
    }
}

fn main() {
    let a = args();
    if let Some(k) = a.get("probe") {
        probe(k);
        return;
    }
    if std::env::var("VERIF_PANIC_VERBOSE").is_err() {
        std::panic::set_hook(Box::new(|_| {}));
    }
    let seed = arg_u64(&a, "seed", 1);
    let n = arg_u64(&a, "n", 4);
    let first = arg_u64(&a, "first", 0);
    let workers = arg_u64(&a, "workers", 3) as usize;
    let n_ops = arg_u64(&a, "ops", 120) as usize;
    let mut tot_ops = 0u64;
    for i in first..n {
        let v = run_one(seed, i, workers, n_ops);
        tot_ops += v["ops"].as_array().map(|x| x.len() as u64).unwrap_or(0);
        println!("{}", v);
    }
    println!("{}", json!({"summary": {"runs": n - first, "workers": workers, "ops": tot_ops}}));
}
