//! Correspondence harness for the HPACK header-block decoder (property C11).
//!
//!   hpackdec --seed S --n N --mode valid|mutate|random|fixtures|ints|replay
//!
//! A case is a HISTORY: one `Decoder::new(size)` fed 1..6 header blocks; before a block 0..2
//! `queue_size_update` calls; every block is delivered as 1..4 fragments the way
//! src/codec/framed_read.rs does (the BytesMut keeps what `take` left, the next CONTINUATION
//! payload is appended, `Ok` and `Err(NeedMore)` are tolerated on all but the last fragment).
//! Per block the line records: headers handed to the callback (name/value octets), verdict,
//! content of the BytesMut afterwards, and the dynamic table (`Decoder::verif_table`).
//! `huff`: for every position of a block where a Huffman coded string could start, what
//! `huffman::decode` answers on those octets (so that the Coq side does not depend on the
//! Huffman model).
//!
//! The blocks are written by the independent writer below (NOT h2's Encoder); `huffman_encode`
//! is only used to produce inputs.  `replay` reads histories (same JSON shape, inputs only) from
//! stdin: used for the committed corpus, for shrinking and for the exhaustive integer sweep.

use bytes::BytesMut;
use h2::verif::hpack::{huffman_decode, huffman_encode, Decoder, DecoderError, NeedMore};
use h2verif_harness::{arg_u64, args, json_bytes, Rng};
use std::collections::BTreeMap;
use std::io::{BufRead, Cursor};
use std::ops::ControlFlow;
use std::panic::{catch_unwind, AssertUnwindSafe};

// ------------------------------------------------------------------------------------------
// running the implementation

struct BlockIn {
    queued: Vec<usize>,
    frags: Vec<Vec<u8>>,
    tags: Vec<&'static str>,
}

struct BlockOut {
    fields: Vec<(Vec<u8>, Vec<u8>)>,
    verdict: String,
    left: Vec<u8>,
    table: (Vec<(Vec<u8>, Vec<u8>)>, usize, usize),
    calls: usize,
}

fn err_name(e: &DecoderError) -> String {
    match e {
        DecoderError::InvalidRepresentation => "InvalidRepresentation".into(),
        DecoderError::InvalidIntegerPrefix => "InvalidIntegerPrefix".into(),
        DecoderError::InvalidTableIndex => "InvalidTableIndex".into(),
        DecoderError::InvalidHuffmanCode => "InvalidHuffmanCode".into(),
        DecoderError::InvalidUtf8 => "InvalidUtf8".into(),
        DecoderError::InvalidStatusCode => "InvalidStatusCode".into(),
        DecoderError::InvalidPseudoheader => "InvalidPseudoheader".into(),
        DecoderError::InvalidMaxDynamicSize => "InvalidMaxDynamicSize".into(),
        DecoderError::IntegerOverflow => "IntegerOverflow".into(),
        DecoderError::NeedMore(NeedMore::UnexpectedEndOfStream) => "NeedMore(UnexpectedEndOfStream)".into(),
        DecoderError::NeedMore(NeedMore::IntegerUnderflow) => "NeedMore(IntegerUnderflow)".into(),
        DecoderError::NeedMore(NeedMore::StringUnderflow) => "NeedMore(StringUnderflow)".into(),
    }
}

/// Feed one block the way framed_read.rs / HeaderBlock::load do.
fn run_block(dec: &mut Decoder, b: &BlockIn) -> BlockOut {
    for q in &b.queued {
        dec.queue_size_update(*q);
    }
    let mut fields: Vec<(Vec<u8>, Vec<u8>)> = Vec::new();
    let mut buf = BytesMut::new();
    let mut verdict = "Ok".to_string();
    let mut calls = 0;
    let n = b.frags.len();
    for (i, frag) in b.frags.iter().enumerate() {
        let last = i + 1 == n;
        if buf.is_empty() {
            buf = BytesMut::from(&frag[..]);
        } else {
            buf.extend_from_slice(frag);
        }
        calls += 1;
        let res = catch_unwind(AssertUnwindSafe(|| {
            let mut cursor = Cursor::new(&mut buf);
            dec.decode(&mut cursor, |h| {
                fields.push((h.name().as_slice().to_vec(), h.value_slice().to_vec()));
                ControlFlow::Continue(())
            })
        }));
        match res {
            Ok(Ok(())) => {}
            Ok(Err(DecoderError::NeedMore(_))) if !last => {}
            Ok(Err(e)) => {
                verdict = err_name(&e);
                break;
            }
            Err(_) => {
                verdict = "Panic".to_string();
                break;
            }
        }
    }
    let table = if verdict == "Panic" {
        (Vec::new(), 0, 0)
    } else {
        dec.verif_table()
    };
    BlockOut { fields, verdict, left: buf.to_vec(), table, calls }
}

/// Prefix integer as the decoder reads it: None when truncated or longer than 1 + 4 octets.
fn walk_int(all: &[u8], pos: usize, prefix: u32) -> Option<(u64, usize)> {
    if pos >= all.len() {
        return None;
    }
    let mask = ((1u32 << prefix) - 1) as u8;
    let mut v = (all[pos] & mask) as u64;
    let mut p = pos + 1;
    if v < mask as u64 {
        return Some((v, p));
    }
    let mut shift = 0;
    for _ in 0..4 {
        if p >= all.len() {
            return None;
        }
        let b = all[p];
        p += 1;
        v += ((b & 0x7f) as u64) << shift;
        shift += 7;
        if b & 0x80 == 0 {
            return Some((v, p));
        }
    }
    None
}

/// Huffman coded strings of a block: the octet stream is walked representation by representation
/// (structure only: no table, no validation, so the walk goes at least as far as the decoder
/// does, in whatever fragments the block arrives); for every string with the H bit the answer
/// of `huffman::decode` is recorded.  A string the walk misses shows up on the Coq side as a
/// disagreement (unrecorded strings decode to a non-octet there), never as silent agreement.
fn huff_candidates(all: &[u8], acc: &mut BTreeMap<Vec<u8>, Option<Vec<u8>>>) {
    let mut pos = 0usize;
    // returns the position after the string, recording it when Huffman coded
    let string = |pos: usize, acc: &mut BTreeMap<Vec<u8>, Option<Vec<u8>>>| -> Option<usize> {
        if pos >= all.len() {
            return None;
        }
        let huff = all[pos] & 0x80 != 0;
        let (len, p) = walk_int(all, pos, 7)?;
        if len > (all.len() - p) as u64 {
            return None;
        }
        let end = p + len as usize;
        if huff {
            let raw = all[p..end].to_vec();
            if !acc.contains_key(&raw) {
                let mut scratch = BytesMut::new();
                let r = catch_unwind(AssertUnwindSafe(|| huffman_decode(&raw, &mut scratch)));
                let v = match r {
                    Ok(Ok(b)) => Some(b.to_vec()),
                    _ => None,
                };
                acc.insert(raw, v);
            }
        }
        Some(end)
    };
    while pos < all.len() {
        let b = all[pos];
        let next = if b & 0x80 != 0 {
            walk_int(all, pos, 7).map(|x| x.1)
        } else if b & 0x40 != 0 || b & 0xe0 == 0 {
            let prefix = if b & 0x40 != 0 { 6 } else { 4 };
            match walk_int(all, pos, prefix) {
                None => None,
                Some((idx, p)) => {
                    if idx == 0 {
                        match string(p, acc) {
                            Some(p2) => string(p2, acc),
                            None => None,
                        }
                    } else {
                        string(p, acc)
                    }
                }
            }
        } else {
            walk_int(all, pos, 5).map(|x| x.1)
        };
        match next {
            Some(p) => pos = p,
            None => break,
        }
    }
}

fn json_pairs(v: &[(Vec<u8>, Vec<u8>)]) -> String {
    let mut s = String::from("[");
    for (i, (n, val)) in v.iter().enumerate() {
        if i > 0 {
            s.push(',');
        }
        s.push_str(&format!("[{},{}]", json_bytes(n), json_bytes(val)));
    }
    s.push(']');
    s
}

struct Stats {
    cases: u64,
    blocks: u64,
    verdicts: BTreeMap<String, u64>,
    tags: BTreeMap<String, u64>,
    frags: BTreeMap<usize, u64>,
    fields: u64,
    resumed: u64,
    nonempty_table: u64,
    evictions: u64,
}

impl Stats {
    fn new() -> Stats {
        Stats {
            cases: 0,
            blocks: 0,
            verdicts: BTreeMap::new(),
            tags: BTreeMap::new(),
            frags: BTreeMap::new(),
            fields: 0,
            resumed: 0,
            nonempty_table: 0,
            evictions: 0,
        }
    }
}

/// Run a history and print its JSON line.
fn run_case(size: usize, blocks: &[BlockIn], stats: &mut Stats, extra: &str) {
    let mut dec = Decoder::new(size);
    let mut huff: BTreeMap<Vec<u8>, Option<Vec<u8>>> = BTreeMap::new();
    let mut out = String::new();
    out.push_str(&format!("{{\"size\":{},\"blocks\":[", size));
    stats.cases += 1;
    let mut prev_entries = 0usize;
    let mut first = true;
    for b in blocks {
        let all: Vec<u8> = b.frags.iter().flat_map(|f| f.iter().cloned()).collect();
        huff_candidates(&all, &mut huff);
        let o = run_block(&mut dec, b);
        stats.blocks += 1;
        *stats.verdicts.entry(o.verdict.clone()).or_insert(0) += 1;
        *stats.frags.entry(b.frags.len()).or_insert(0) += 1;
        for t in &b.tags {
            *stats.tags.entry(t.to_string()).or_insert(0) += 1;
        }
        stats.fields += o.fields.len() as u64;
        if o.calls > 1 {
            stats.resumed += 1;
        }
        if !o.table.0.is_empty() {
            stats.nonempty_table += 1;
        }
        if o.table.0.len() < prev_entries {
            stats.evictions += 1;
        }
        prev_entries = o.table.0.len();
        if !first {
            out.push(',');
        }
        first = false;
        let frags: Vec<String> = b.frags.iter().map(|f| json_bytes(f)).collect();
        let queued: Vec<String> = b.queued.iter().map(|q| q.to_string()).collect();
        let tags: Vec<String> = b.tags.iter().map(|t| format!("\"{}\"", t)).collect();
        out.push_str(&format!(
            "{{\"queued\":[{}],\"frags\":[{}],\"fields\":{},\"verdict\":\"{}\",\"left\":{},\"table\":{{\"entries\":{},\"size\":{},\"max\":{}}},\"tags\":[{}]}}",
            queued.join(","),
            frags.join(","),
            json_pairs(&o.fields),
            o.verdict,
            json_bytes(&o.left),
            json_pairs(&o.table.0),
            o.table.1,
            o.table.2,
            tags.join(",")
        ));
        if o.verdict != "Ok" {
            // Any error of a complete block is a connection error in h2 (GOAWAY): the decoder is
            // never used again.  (Its Huffman scratch buffer keeps the partial output of a failed
            // string, which would leak into the next string if it were.)
            break;
        }
    }
    out.push_str("],\"huff\":[");
    let mut firsth = true;
    for (raw, r) in &huff {
        if !firsth {
            out.push(',');
        }
        firsth = false;
        match r {
            Some(v) => out.push_str(&format!("[{},{}]", json_bytes(raw), json_bytes(v))),
            None => out.push_str(&format!("[{},null]", json_bytes(raw))),
        }
    }
    out.push(']');
    out.push_str(extra);
    out.push('}');
    println!("{}", out);
}

// ------------------------------------------------------------------------------------------
// independent block writer

/// RFC 7541 5.1 integer; `pattern` = the high bits of the first octet (already in place);
/// `pad` extra continuation octets contributing 0 (only possible when v >= 2^prefix - 1).
fn put_int(out: &mut Vec<u8>, prefix: u32, pattern: u8, v: u64, pad: usize) {
    let max = (1u64 << prefix) - 1;
    if v < max {
        out.push(pattern | v as u8);
        return;
    }
    out.push(pattern | max as u8);
    let mut r = v - max;
    while r >= 128 {
        out.push((r % 128) as u8 | 0x80);
        r /= 128;
    }
    if pad == 0 {
        out.push(r as u8);
    } else {
        out.push(r as u8 | 0x80);
        for _ in 0..pad - 1 {
            out.push(0x80);
        }
        out.push(0);
    }
}

fn put_string(out: &mut Vec<u8>, s: &[u8], huff: bool, pad: usize) {
    if huff {
        let mut b = BytesMut::new();
        huffman_encode(s, &mut b);
        put_int(out, 7, 0x80, b.len() as u64, pad);
        out.extend_from_slice(&b);
    } else {
        put_int(out, 7, 0, s.len() as u64, pad);
        out.extend_from_slice(s);
    }
}

const GOOD_NAMES: &[&str] = &[
    "x-a", "custom-key", "foo", "content-type", "accept", "cookie", "set-cookie", "te", "a",
    "x-!#$%&'*+-.^_`|~09", "x-\"quoted\"", "cache-control", "user-agent", "x-request-id",
    "this-is-a-rather-long-header-name-that-exceeds-the-sixty-four-octet-scratch-buffer-of-http",
];
const BAD_NAMES: &[&[u8]] = &[
    b"", b"Foo", b"a b", b"a:b", b"\x00", b"\xc3\xa9", b"x-\x7f", b"UPPER", b"a(b)", b"a,b", b"a/b",
    b"this-is-a-rather-long-header-name-that-exceeds-the-sixty-four-octet-Scratch-buffer-of-http",
    b"this-is-a-rather-long-header-name-that-exceeds-the-sixty-four-octet-scratch buffer-of-http",
    b":unknown", b":", b":Method", b":authority2", b":statu",
];
const PSEUDO: &[&str] = &[":authority", ":method", ":scheme", ":path", ":protocol", ":status"];
const GOOD_VALUES: &[&[u8]] = &[
    b"", b"a", b"custom-value", b"gzip, deflate", b"www.example.com", b"/", b"/index.html",
    b"no-cache", b"text/html; charset=utf-8", b"tab\there", b"high \xff\xfe octets", b"\xc3\xa9t\xc3\xa9",
    b"Mon, 21 Oct 2013 20:13:21 GMT", b"https://www.example.com", b"private", b"302",
    b"foo=ASDJKHQKBZXOQWEOPIUAXQWEOIU; max-age=3600; version=1",
];
const BAD_VALUES: &[&[u8]] = &[b"\x00", b"a\x7fb", b"line\nbreak", b"\x1f", b"cr\r"];
const UTF8_GOOD: &[&[u8]] = &[
    b"\xc2\x80", b"\xdf\xbf", b"\xe0\xa0\x80", b"\xed\x9f\xbf", b"\xee\x80\x80", b"\xef\xbf\xbf",
    b"\xf0\x90\x80\x80", b"\xf4\x8f\xbf\xbf", b"a\xe2\x82\xacb", b"\xf3\xbf\xbf\xbf", b"\xe1\x80\x80z",
    b"\xec\xbf\xbf", b"\xf1\x80\x80\x80", b"/caf\xc3\xa9?q=\xe2\x9c\x93", b"\x00\x7f",
];
const UTF8_BAD: &[&[u8]] = &[
    b"\xe0\x9f\xbf", b"\xed\xa0\x80", b"\xf0\x8f\xbf\xbf", b"\xf4\x90\x80\x80", b"\xf5\x80\x80\x80",
    b"\xc0\x80", b"\xc1\xbf", b"\x80", b"\xe1\x80", b"\xf1\x80\x80", b"\xe1\x80\xc0", b"\xff", b"\xc2",
    b"a\xbfb", b"\xf4\x8f\xbf", b"\xef\xbf\xc0", b"\xdf\x7f", b"\xf8\x88\x80\x80\x80",
];
const METHODS: &[&[u8]] = &[b"GET", b"POST", b"PUT", b"DELETE", b"OPTIONS", b"CONNECT", b"QUERY", b"PROPFIND",
    b"x-custom.method~1", b"A-VERY-LONG-EXTENSION-METHOD-NAME", b"", b"G T", b"GE\"T", b"get(", b"M\xc3\xa9", b"A@B", b"[x]"];
const STATUSES: &[&[u8]] = &[b"200", b"204", b"404", b"100", b"999", b"599", b"099", b"20", b"2000", b"abc", b"2 0",
    b"", b"20a", b"\xb200", b"1:0", b"10/"];

struct Gen<'a> {
    rng: &'a mut Rng,
    bad: u64,        // per-mille probability that a choice is an invalid one
    dyn_names: Vec<Vec<u8>>, // names of the dynamic entries, newest first (exact at block start)
    dyn_sizes: Vec<usize>,   // their sizes
    tbl_max: usize,          // table max_size (simulated within the block)
    limit: usize,    // last_max_update the decoder will use for this block
    tags: Vec<&'static str>,
}

impl<'a> Gen<'a> {
    fn evict(&mut self, need: usize) {
        let mut total: usize = self.dyn_sizes.iter().sum();
        while total + need > self.tbl_max && !self.dyn_sizes.is_empty() {
            total -= self.dyn_sizes.pop().unwrap();
            self.dyn_names.pop();
        }
    }
    fn insert(&mut self, name: Vec<u8>, vlen: usize) {
        let sz = 32 + name.len() + vlen;
        self.evict(sz);
        let total: usize = self.dyn_sizes.iter().sum();
        if total + sz <= self.tbl_max {
            self.dyn_names.insert(0, name);
            self.dyn_sizes.insert(0, sz);
        }
    }
    fn is_bad(&mut self) -> bool {
        self.bad > 0 && self.rng.below(1000) < self.bad
    }
    fn tag(&mut self, t: &'static str) {
        if !self.tags.contains(&t) {
            self.tags.push(t);
        }
    }
    /// extra zero continuation octets for value v with this prefix: stays within h2's limit of 4
    /// continuation octets unless an invalid choice is drawn
    fn pad(&mut self, prefix: u32, v: u64) -> usize {
        let max = (1u64 << prefix) - 1;
        if v < max || !self.rng.chance(1, 8) {
            return 0;
        }
        let mut conts = 1;
        let mut r = v - max;
        while r >= 128 { conts += 1; r /= 128; }
        if self.is_bad() {
            self.tag("int-overlong");
            return (5 - conts.min(4)) + self.rng.below(2) as usize;
        }
        if conts >= 4 { return 0; }
        self.tag("int-padded");
        self.rng.range(1, (4 - conts) as u64) as usize
    }
    fn index(&mut self, name_only: bool) -> u64 {
        let _ = name_only;
        if self.is_bad() {
            self.tag("bad-index");
            return match self.rng.below(4) {
                0 => 0,
                1 => 62 + self.dyn_names.len() as u64,
                2 => 62 + self.dyn_names.len() as u64 + self.rng.range(1, 300),
                _ => self.rng.range(1 << 20, 1 << 29),
            };
        }
        if !self.dyn_names.is_empty() && self.rng.chance(1, 2) {
            self.tag("index-dynamic");
            62 + self.rng.below(self.dyn_names.len() as u64)
        } else {
            self.tag("index-static");
            self.rng.range(1, 61)
        }
    }
    fn value_for(&mut self, name: &[u8]) -> Vec<u8> {
        let bad = self.is_bad();
        match name {
            b":method" => {
                if bad { self.tag("bad-method"); self.rng.pick(&METHODS[10..]).to_vec() } else { self.rng.pick(&METHODS[..10]).to_vec() }
            }
            b":status" => {
                if bad { self.tag("bad-status"); self.rng.pick(&STATUSES[6..]).to_vec() } else { self.rng.pick(&STATUSES[..6]).to_vec() }
            }
            b":authority" | b":scheme" | b":path" | b":protocol" => {
                if bad {
                    self.tag("bad-utf8");
                    self.rng.pick(UTF8_BAD).to_vec()
                } else if self.rng.chance(1, 3) {
                    self.tag("utf8-multibyte");
                    self.rng.pick(UTF8_GOOD).to_vec()
                } else {
                    self.rng.pick(GOOD_VALUES).to_vec()
                }
            }
            _ => {
                if bad {
                    self.tag("bad-value");
                    self.rng.pick(BAD_VALUES).to_vec()
                } else if self.rng.chance(1, 10) {
                    self.tag("high-octets-value");
                    let src = if self.rng.chance(1, 2) { *self.rng.pick(UTF8_BAD) } else { *self.rng.pick(UTF8_GOOD) };
                    src.iter().cloned().filter(|b| *b >= 32 && *b != 127).collect()
                } else if self.rng.chance(1, 12) {
                    self.tag("long-value");
                    let n = self.rng.range(40, 260) as usize;
                    (0..n).map(|i| b'a' + (i % 26) as u8).collect()
                } else if self.rng.chance(1, 6) {
                    let n = self.rng.range(0, 12) as usize;
                    (0..n).map(|_| self.rng.range(32, 126) as u8).collect()
                } else {
                    self.rng.pick(GOOD_VALUES).to_vec()
                }
            }
        }
    }
    fn new_name(&mut self) -> Vec<u8> {
        if self.is_bad() {
            self.tag("bad-name");
            return self.rng.pick(BAD_NAMES).to_vec();
        }
        if self.rng.chance(1, 4) {
            self.tag("pseudo-literal");
            self.rng.pick(PSEUDO).as_bytes().to_vec()
        } else if self.rng.chance(1, 8) {
            let n = self.rng.range(1, 10) as usize;
            (0..n).map(|_| *self.rng.pick(b"abcdefghijklmnopqrstuvwxyz0123456789-_.!~")).collect()
        } else {
            self.rng.pick(GOOD_NAMES).as_bytes().to_vec()
        }
    }
    fn string(&mut self, out: &mut Vec<u8>, s: &[u8]) {
        let huff = self.rng.chance(1, 2);
        if huff {
            self.tag("huffman");
        } else {
            self.tag("raw");
        }
        let enc_len = if huff { let mut b = BytesMut::new(); huffman_encode(s, &mut b); b.len() } else { s.len() };
        let pad = self.pad(7, enc_len as u64);
        if huff && self.is_bad() {
            // not a valid Huffman string: arbitrary octets, EOS, bad padding
            self.tag("bad-huffman");
            let n = self.rng.range(1, 8) as usize;
            let junk: Vec<u8> = match self.rng.below(3) {
                0 => vec![0xff; n.max(4)],
                1 => { let mut b = BytesMut::new(); huffman_encode(s, &mut b); let mut v = b.to_vec(); v.push(0xff); v }
                _ => self.rng.bytes(n),
            };
            put_int(out, 7, 0x80, junk.len() as u64, 0);
            out.extend_from_slice(&junk);
            return;
        }
        put_string(out, s, huff, pad);
    }
    /// the name of the table entry an index refers to, if known (to pick a fitting value)
    fn name_of_index(&self, i: u64) -> Vec<u8> {
        match i {
            1 => b":authority".to_vec(),
            2 | 3 => b":method".to_vec(),
            4 | 5 => b":path".to_vec(),
            6 | 7 => b":scheme".to_vec(),
            8..=14 => b":status".to_vec(),
            i if i >= 62 && ((i - 62) as usize) < self.dyn_names.len() => self.dyn_names[(i - 62) as usize].clone(),
            _ => b"x".to_vec(),
        }
    }
    fn rep(&mut self, out: &mut Vec<u8>) {
        let k = self.rng.below(10);
        self.rep_kind(out, k)
    }
    /// one representation of a chosen kind: 0..=2 indexed, 3..=6 incremental, 7..=8 without indexing, 9 never indexed
    fn rep_kind(&mut self, out: &mut Vec<u8>, kind: u64) {
        match kind {
            0..=2 => {
                self.tag("indexed");
                let i = self.index(false);
                let pad = self.pad(7, i);
                put_int(out, 7, 0x80, i, pad);
            }
            3..=6 => {
                self.tag("literal-incremental");
                let (name, vlen) = self.literal(out, 6, 0x40);
                self.insert(name, vlen);
            }
            7..=8 => {
                self.tag("literal-without");
                let _ = self.literal(out, 4, 0x00);
            }
            _ => {
                self.tag("literal-never");
                let _ = self.literal(out, 4, 0x10);
            }
        }
    }
    fn literal(&mut self, out: &mut Vec<u8>, prefix: u32, pattern: u8) -> (Vec<u8>, usize) {
        if self.rng.chance(1, 2) {
            self.tag("name-indexed");
            let i = self.index(true);
            let pad = self.pad(prefix, i);
            put_int(out, prefix, pattern, i, pad);
            let name = self.name_of_index(i);
            let v = self.value_for(&name);
            self.string(out, &v);
            (name, v.len())
        } else {
            self.tag("name-literal");
            put_int(out, prefix, pattern, 0, 0);
            let name = self.new_name();
            let v = self.value_for(&name);
            self.string(out, &name);
            self.string(out, &v);
            (name, v.len())
        }
    }
    fn size_update(&mut self, out: &mut Vec<u8>) {
        let v = if self.is_bad() {
            self.tag("update-oversize");
            self.limit as u64 + self.rng.range(1, 5000)
        } else {
            self.tag("size-update");
            match self.rng.below(4) {
                0 => 0,
                1 => self.limit as u64,
                _ => self.rng.below(self.limit as u64 + 1),
            }
        };
        let pad = self.pad(5, v);
        put_int(out, 5, 0x20, v, pad);
        if v <= self.limit as u64 {
            self.tbl_max = v as usize;
            self.evict(0);
        }
    }
    fn block(&mut self) -> Vec<u8> {
        let mut out = Vec::new();
        if self.rng.chance(1, 4) {
            let k = self.rng.range(1, 2);
            for _ in 0..k {
                self.size_update(&mut out);
            }
        }
        if self.bad > 0 && self.rng.chance(1, 8) {
            // a size update whose whole prefix is ONE kind of representation (each kind clears the decoder's
            // "may still resize" flag on its own line of code), then possibly more fields
            self.tag("update-after-uniform-prefix");
            let kind = *self.rng.pick(&[0u64, 3, 7, 9]);
            let k = self.rng.range(1, 3);
            for _ in 0..k {
                self.rep_kind(&mut out, kind);
            }
            self.size_update(&mut out);
            let m = self.rng.below(3);
            for _ in 0..m {
                self.rep(&mut out);
            }
            return out;
        }
        let n = if self.rng.chance(1, 20) { 0 } else { self.rng.range(1, 8) };
        for i in 0..n {
            self.rep(&mut out);
            if i + 1 < n && self.is_bad() && self.rng.chance(1, 3) {
                self.tag("update-misplaced");
                self.size_update(&mut out);
            }
        }
        out
    }
}

fn split_frags(rng: &mut Rng, bytes: &[u8]) -> Vec<Vec<u8>> {
    let k = match rng.below(10) {
        0..=4 => 1,
        5..=6 => 2,
        7..=8 => 3,
        _ => 4,
    };
    if k == 1 || bytes.is_empty() {
        return vec![bytes.to_vec()];
    }
    let mut cuts: Vec<usize> = (0..k - 1).map(|_| rng.range(0, bytes.len() as u64) as usize).collect();
    cuts.sort();
    let mut res = Vec::new();
    let mut prev = 0;
    for c in cuts {
        res.push(bytes[prev..c].to_vec());
        prev = c;
    }
    res.push(bytes[prev..].to_vec());
    res
}

fn mutate(rng: &mut Rng, bytes: &mut Vec<u8>, tags: &mut Vec<&'static str>) {
    match rng.below(6) {
        0 => {
            if !bytes.is_empty() {
                let n = rng.below(bytes.len() as u64) as usize;
                bytes.truncate(n);
                tags.push("mut-truncate");
            }
        }
        1 => {
            if !bytes.is_empty() {
                let i = rng.below(bytes.len() as u64) as usize;
                bytes[i] ^= 1 << rng.below(8);
                tags.push("mut-bitflip");
            }
        }
        2 => {
            let i = rng.range(0, bytes.len() as u64) as usize;
            bytes.insert(i, rng.byte());
            tags.push("mut-insert");
        }
        3 => {
            if !bytes.is_empty() {
                let i = rng.below(bytes.len() as u64) as usize;
                bytes.remove(i);
                tags.push("mut-delete");
            }
        }
        4 => {
            // an integer that needs more than 5 octets, somewhere
            let i = rng.range(0, bytes.len() as u64) as usize;
            let first = *rng.pick(&[0xffu8, 0x7f, 0x3f, 0x1f, 0x0f]);
            let mut v = vec![first, 0xff, 0xff, 0xff, 0xff, 0x0f];
            if rng.chance(1, 2) { v.truncate(rng.range(1, 5) as usize); }
            for (k, b) in v.iter().enumerate() { bytes.insert(i + k, *b); }
            tags.push("mut-bigint");
        }
        _ => {}
    }
}

fn gen_history(rng: &mut Rng, mode: &str) -> (usize, Vec<BlockIn>) {
    let size = match rng.below(8) {
        0 => 0usize,
        1..=3 => rng.range(64, 300) as usize,
        4 => rng.range(33, 63) as usize,
        5 => 65536,
        _ => 4096,
    };
    let nblocks = rng.range(1, 6);
    let mut blocks: Vec<BlockIn> = Vec::new();
    let mut limit = size;
    // a probe decoder run alongside tells the generator what the dynamic table really holds
    let mut probe = Decoder::new(size);
    let mut probe_dead = false;
    // in mutate mode the history is valid up to a random block, invalid choices start there
    let first_bad = rng.below(nblocks);
    for bi in 0..nblocks {
        let (pentries, _psize, pmax) = if probe_dead { (Vec::new(), 0, 0) } else { probe.verif_table() };
        let dyn_sizes: Vec<usize> = pentries.iter().map(|e| 32 + e.0.len() + e.1.len()).collect();
        let dyn_names: Vec<Vec<u8>> = pentries.into_iter().map(|e| e.0).collect();
        let mut queued = Vec::new();
        if rng.chance(1, 4) {
            let k = if rng.chance(1, 5) { 2 } else { 1 };
            for _ in 0..k {
                queued.push(match rng.below(6) {
                    0 => 0usize,
                    1..=3 => rng.range(40, 300) as usize,
                    4 => 4096,
                    _ => rng.range(0, 70000) as usize,
                });
            }
            limit = *queued.iter().max().unwrap();
        } else if !probe_dead {
            let _ = limit;
        }
        let mut tags: Vec<&'static str> = Vec::new();
        let bytes: Vec<u8>;
        if mode == "random" && bi >= first_bad {
            let n = rng.range(0, 40) as usize;
            let mut b = Vec::with_capacity(n);
            for _ in 0..n {
                b.push(match rng.below(6) {
                    0 => *rng.pick(&[0x00u8, 0x0f, 0x10, 0x1f, 0x20, 0x3f, 0x40, 0x7f, 0x80, 0xff, 0xbe, 0x82]),
                    1 => rng.range(0, 16) as u8,
                    2 => rng.range(0x80, 0xc8) as u8,
                    _ => rng.byte(),
                });
            }
            tags.push("random-bytes");
            bytes = b;
        } else {
            let bad = if mode == "mutate" && bi >= first_bad { 150 } else { 0 };
            let mut g = Gen { rng, bad, dyn_names, dyn_sizes, tbl_max: pmax, limit, tags: Vec::new() };
            let mut b = g.block();
            tags = g.tags;
            if mode == "mutate" && bi >= first_bad && rng.chance(1, 3) {
                mutate(rng, &mut b, &mut tags);
            }
            bytes = b;
        }
        let frags = split_frags(rng, &bytes);
        if !queued.is_empty() {
            tags.push("queued-update");
        }
        let b = BlockIn { queued, frags, tags };
        if !probe_dead {
            let o = run_block(&mut probe, &b);
            if o.verdict != "Ok" {
                probe_dead = true;
            }
        }
        blocks.push(b);
        if probe_dead {
            break;
        }
    }
    (size, blocks)
}

// ------------------------------------------------------------------------------------------
// fixtures, replay, integer sweep

fn unhex(s: &str) -> Vec<u8> {
    let b = s.as_bytes();
    (0..b.len() / 2)
        .map(|i| u8::from_str_radix(std::str::from_utf8(&b[2 * i..2 * i + 2]).unwrap(), 16).unwrap())
        .collect()
}

fn run_fixtures(rng: &mut Rng, stats: &mut Stats, limit_stories: u64) {
    let root = std::path::Path::new(env!("CARGO_MANIFEST_DIR"));
    let _ = root;
    let repo = std::env::var("H2_REPO").unwrap_or_else(|_| "/repo".to_string());
    let base = std::path::Path::new(&repo).join("fixtures/hpack");
    let mut dirs: Vec<_> = std::fs::read_dir(&base).unwrap().filter_map(|e| e.ok()).map(|e| e.path()).filter(|p| p.is_dir()).collect();
    dirs.sort();
    let mut stories = Vec::new();
    for d in dirs {
        let mut files: Vec<_> = std::fs::read_dir(&d).unwrap().filter_map(|e| e.ok()).map(|e| e.path())
            .filter(|p| p.extension().map(|x| x == "json").unwrap_or(false)).collect();
        files.sort();
        stories.extend(files);
    }
    let total = stories.len() as u64;
    let mut picked = 0;
    for (idx, path) in stories.iter().enumerate() {
        if limit_stories > 0 && limit_stories < total {
            // deterministic subsample
            if (idx as u64 * limit_stories) / total == ((idx as u64 + 1) * limit_stories) / total {
                continue;
            }
        }
        picked += 1;
        let text = std::fs::read_to_string(path).unwrap();
        let v: serde_json::Value = serde_json::from_str(&text).unwrap();
        let cases = match v.get("cases").and_then(|c| c.as_array()) {
            Some(c) => c.clone(),
            None => continue,
        };
        let mut cs: Vec<(u64, Vec<u8>, Option<usize>, Vec<(Vec<u8>, Vec<u8>)>)> = Vec::new();
        if cases.iter().any(|c| c.get("wire").and_then(|x| x.as_str()).is_none()) {
            continue; // raw-data stories: headers only, nothing to decode
        }
        for c in cases {
            let seq = c.get("seqno").and_then(|x| x.as_u64()).unwrap_or(0);
            let wire = unhex(c.get("wire").and_then(|x| x.as_str()).unwrap_or(""));
            let size = c.get("header_table_size").and_then(|x| x.as_u64()).map(|x| x as usize);
            let mut expect = Vec::new();
            if let Some(hs) = c.get("headers").and_then(|h| h.as_array()) {
                for h in hs {
                    if let Some(o) = h.as_object() {
                        for (k, val) in o {
                            expect.push((k.as_bytes().to_vec(), val.as_str().unwrap_or("").as_bytes().to_vec()));
                        }
                    }
                }
            }
            cs.push((seq, wire, size, expect));
        }
        cs.sort_by_key(|c| c.0);
        let mut blocks = Vec::new();
        let mut expects = Vec::new();
        for (_, wire, size, expect) in cs {
            let frags = split_frags(rng, &wire);
            blocks.push(BlockIn { queued: size.into_iter().collect(), frags, tags: vec!["fixture"] });
            expects.push(expect);
        }
        let exp: Vec<String> = expects.iter().map(|e| json_pairs(e)).collect();
        let name = path.strip_prefix(&base).unwrap().to_string_lossy().to_string();
        let extra = format!(",\"story\":\"{}\",\"expect\":[{}]", name, exp.join(","));
        run_case(4096, &blocks, stats, &extra);
    }
    let _ = picked;
}

fn run_replay(stats: &mut Stats) {
    let stdin = std::io::stdin();
    for line in stdin.lock().lines() {
        let line = line.unwrap();
        let line = line.trim();
        if !line.starts_with('{') {
            continue;
        }
        let v: serde_json::Value = match serde_json::from_str(line) {
            Ok(v) => v,
            Err(_) => continue,
        };
        let size = v.get("size").and_then(|x| x.as_u64()).unwrap_or(4096) as usize;
        let mut blocks = Vec::new();
        if let Some(bs) = v.get("blocks").and_then(|b| b.as_array()) {
            for b in bs {
                let queued = b.get("queued").and_then(|q| q.as_array()).map(|q| q.iter().map(|x| x.as_u64().unwrap_or(0) as usize).collect()).unwrap_or_default();
                let frags = b.get("frags").and_then(|f| f.as_array()).map(|f| {
                    f.iter().map(|fr| fr.as_array().map(|a| a.iter().map(|x| x.as_u64().unwrap_or(0) as u8).collect()).unwrap_or_default()).collect()
                }).unwrap_or_else(|| vec![Vec::new()]);
                blocks.push(BlockIn { queued, frags, tags: vec!["replay"] });
            }
        }
        let extra = match v.get("note") {
            Some(n) => format!(",\"note\":{}", n),
            None => String::new(),
        };
        run_case(size, &blocks, stats, &extra);
    }
}

/// Exhaustive prefix integers: every first octet with an all-ones prefix of each representation
/// kind (and every other first octet alone), followed by all continuation sequences of up to
/// `depth` octets, as single-block histories.  The value is observable for size updates
/// (table max_size) and through the index error/hit otherwise.
fn run_ints(stats: &mut Stats, depth: u64) {
    let one = |stats: &mut Stats, bytes: Vec<u8>| {
        let b = BlockIn { queued: vec![], frags: vec![bytes], tags: vec!["int-sweep"] };
        run_case(1 << 30, &[b], stats, "");
    };
    for first in 0..=255u8 {
        one(stats, vec![first]);
    }
    for &first in &[0xffu8, 0x7f, 0x3f, 0x1f, 0x0f] {
        for a in 0..=255u8 {
            one(stats, vec![first, a]);
            // a literal with an indexed name needs a value string to complete: add an empty one
            one(stats, vec![first, a, 0x00]);
        }
    }
    if depth >= 2 {
        for &first in &[0x3fu8, 0xff] {
            for a in 0..=255u8 {
                for b in 0..=255u8 {
                    one(stats, vec![first, a, b]);
                }
            }
        }
    }
    if depth >= 3 {
        // 3 and 4 continuation octets on a lattice of octet values around the boundaries
        let vals = [0x00u8, 0x01, 0x7f, 0x80, 0x81, 0xfe, 0xff];
        for a in vals { for b in vals { for c in vals {
            one(stats, vec![0x3f, a | 0x80, b | 0x80, c]);
            for d in vals {
                one(stats, vec![0x3f, a | 0x80, b | 0x80, c | 0x80, d]);
                one(stats, vec![0x3f, a | 0x80, b | 0x80, c | 0x80, d | 0x80, 0x00]);
            }
        }}}
    }
}

fn main() {
    let a = args();
    let seed = arg_u64(&a, "seed", 1);
    let n = arg_u64(&a, "n", 100);
    let mode = a.get("mode").cloned().unwrap_or_else(|| "valid".to_string());
    // panics inside h2 are outcomes, not noise on stderr
    std::panic::set_hook(Box::new(|_| {}));
    let mut rng = Rng::new(seed ^ 0x4850_4143_4b44_4543);
    let mut stats = Stats::new();
    match mode.as_str() {
        "fixtures" => run_fixtures(&mut rng, &mut stats, n),
        "replay" => run_replay(&mut stats),
        "ints" => run_ints(&mut stats, n),
        "valid" | "mutate" | "random" => {
            for _ in 0..n {
                let (size, blocks) = gen_history(&mut rng, &mode);
                run_case(size, &blocks, &mut stats, "");
            }
        }
        other => {
            eprintln!("unknown mode {}", other);
            std::process::exit(2);
        }
    }
    let m = |m: &BTreeMap<String, u64>| -> String {
        let v: Vec<String> = m.iter().map(|(k, v)| format!("\"{}\":{}", k, v)).collect();
        format!("{{{}}}", v.join(","))
    };
    let fr: Vec<String> = stats.frags.iter().map(|(k, v)| format!("\"{}\":{}", k, v)).collect();
    println!(
        "{{\"summary\":{{\"mode\":\"{}\",\"seed\":{},\"histories\":{},\"blocks\":{},\"fields_decoded\":{},\"blocks_resumed_after_needmore_or_ok\":{},\"blocks_leaving_nonempty_table\":{},\"blocks_with_evictions\":{},\"verdicts\":{},\"features\":{},\"fragments_per_block\":{{{}}}}}}}",
        mode, seed, stats.cases, stats.blocks, stats.fields, stats.resumed, stats.nonempty_table, stats.evictions,
        m(&stats.verdicts), m(&stats.tags), fr.join(",")
    );
}
