//! Correspondence harness for the frame codec (property C12).
//!
//!   framecodec --seed S --n N --mode parse|malformed|readchunk|serialize|writechunk
//!
//! parse / malformed / readchunk: an *independent* frame writer (this file, not h2's encoders)
//! produces an octet stream, which is fed through `h2::Codec` (FramedRead side) over an in-memory
//! transport that delivers scripted chunks; the resulting `Frame` values / errors are printed
//! canonicalised.
//! serialize / writechunk: `h2::frame::*` values are built through their public constructors and
//! pushed through `h2::Codec` (`poll_ready` / `buffer` / `flush`) over an in-memory transport
//! following a partial-write script; the exact writes are printed.
//!
//! One JSON object per case on stdout, then `{"summary": {...}}`.

use bytes::{Bytes, BytesMut};
use futures::Stream;
use h2::frame::{self, Frame, StreamId};
use h2::Codec;
use h2verif_harness::{arg_u64, args, Rng};
use http::{HeaderMap, HeaderName, HeaderValue, Method, StatusCode, Uri};
use serde_json::{json, Value};
use std::collections::{BTreeMap, VecDeque};
use std::io;
use std::panic::{catch_unwind, AssertUnwindSafe};
use std::pin::Pin;
use std::task::{Context, Poll};
use tokio::io::{AsyncRead, AsyncWrite, ReadBuf};

// ------------------------------------------------------------------------------------------
// in-memory transport

#[derive(Clone, Debug)]
enum ReadItem {
    Data(Vec<u8>),
    Pending,
}

#[derive(Clone, Copy, Debug, PartialEq)]
enum TItem {
    Accept(usize),
    Pending,
    Zero,
    Error,
}

struct Mock {
    reads: VecDeque<ReadItem>,
    eof: bool,
    read_exhausted: bool,
    script: VecDeque<TItem>,
    script_exhausted: bool,
    accept_all_after_script: bool,
    vectored: bool,
    writes: Vec<Vec<u8>>,
}

impl Mock {
    fn new() -> Mock {
        Mock {
            reads: VecDeque::new(),
            eof: false,
            read_exhausted: false,
            script: VecDeque::new(),
            script_exhausted: false,
            accept_all_after_script: false,
            vectored: false,
            writes: Vec::new(),
        }
    }

    fn do_write(&mut self, offered: Vec<u8>) -> Poll<io::Result<usize>> {
        let item = match self.script.pop_front() {
            Some(i) => i,
            None => {
                if self.accept_all_after_script {
                    TItem::Accept(usize::MAX)
                } else {
                    self.script_exhausted = true;
                    return Poll::Pending;
                }
            }
        };
        match item {
            TItem::Pending => Poll::Pending,
            TItem::Zero => Poll::Ready(Ok(0)),
            TItem::Error => Poll::Ready(Err(io::Error::new(io::ErrorKind::BrokenPipe, "scripted"))),
            TItem::Accept(k) => {
                let n = k.min(offered.len());
                if n > 0 {
                    self.writes.push(offered[..n].to_vec());
                }
                Poll::Ready(Ok(n))
            }
        }
    }
}

impl AsyncRead for Mock {
    fn poll_read(mut self: Pin<&mut Self>, _cx: &mut Context<'_>, buf: &mut ReadBuf<'_>) -> Poll<io::Result<()>> {
        match self.reads.pop_front() {
            None => {
                if self.eof {
                    Poll::Ready(Ok(()))
                } else {
                    self.read_exhausted = true;
                    Poll::Pending
                }
            }
            Some(ReadItem::Pending) => Poll::Pending,
            Some(ReadItem::Data(d)) => {
                if d.is_empty() {
                    // an empty read would look like EOF to tokio; skip it
                    return self.poll_read(_cx, buf);
                }
                let n = d.len().min(buf.remaining());
                buf.put_slice(&d[..n]);
                if n < d.len() {
                    self.reads.push_front(ReadItem::Data(d[n..].to_vec()));
                }
                Poll::Ready(Ok(()))
            }
        }
    }
}

impl AsyncWrite for Mock {
    fn poll_write(mut self: Pin<&mut Self>, _cx: &mut Context<'_>, buf: &[u8]) -> Poll<io::Result<usize>> {
        self.do_write(buf.to_vec())
    }
    fn poll_write_vectored(
        mut self: Pin<&mut Self>,
        _cx: &mut Context<'_>,
        bufs: &[io::IoSlice<'_>],
    ) -> Poll<io::Result<usize>> {
        let mut all = Vec::new();
        for b in bufs {
            all.extend_from_slice(b);
        }
        self.do_write(all)
    }
    fn is_write_vectored(&self) -> bool {
        self.vectored
    }
    fn poll_flush(self: Pin<&mut Self>, _cx: &mut Context<'_>) -> Poll<io::Result<()>> {
        Poll::Ready(Ok(()))
    }
    fn poll_shutdown(self: Pin<&mut Self>, _cx: &mut Context<'_>) -> Poll<io::Result<()>> {
        Poll::Ready(Ok(()))
    }
}

// ------------------------------------------------------------------------------------------
// canonical rendering of what h2 produced

fn jb(b: &[u8]) -> Value {
    Value::Array(b.iter().map(|x| json!(*x)).collect())
}

fn dbg_num(s: &str, key: &str) -> Option<u64> {
    let i = s.find(key)? + key.len();
    let rest = &s[i..];
    let rest = rest.trim_start_matches("StreamId(").trim_start_matches("Some(");
    if let Some(hex) = rest.strip_prefix("0x") {
        let end = hex.find(|c: char| !c.is_ascii_hexdigit()).unwrap_or(hex.len());
        return u64::from_str_radix(&hex[..end], 16).ok();
    }
    let end = rest.find(|c: char| !c.is_ascii_digit()).unwrap_or(rest.len());
    rest[..end].parse().ok()
}

fn dbg_dep(s: &str) -> Value {
    match s.find("StreamDependency {") {
        None => Value::Null,
        Some(i) => {
            let t = &s[i..];
            json!({
                "id": dbg_num(t, "dependency_id: ").unwrap_or(u64::MAX),
                "w": dbg_num(t, "weight: ").unwrap_or(u64::MAX),
                "x": t.contains("is_exclusive: true"),
            })
        }
    }
}

fn fields_json(map: &HeaderMap) -> Value {
    Value::Array(
        map.iter()
            .map(|(n, v)| json!([jb(n.as_str().as_bytes()), jb(v.as_bytes())]))
            .collect(),
    )
}

fn pseudo_json(p: &frame::Pseudo) -> Value {
    let mut out = Vec::new();
    if let Some(m) = &p.method {
        out.push(json!([":method", m.as_str()]));
    }
    if let Some(v) = &p.scheme {
        out.push(json!([":scheme", &v[..]]));
    }
    if let Some(v) = &p.authority {
        out.push(json!([":authority", &v[..]]));
    }
    if let Some(v) = &p.path {
        out.push(json!([":path", &v[..]]));
    }
    if let Some(v) = &p.protocol {
        out.push(json!([":protocol", v.as_str()]));
    }
    if let Some(v) = &p.status {
        out.push(json!([":status", v.as_str()]));
    }
    Value::Array(out)
}

fn sid(id: StreamId) -> u64 {
    u32::from(id) as u64
}

fn frame_json(f: Frame) -> Value {
    let dbg = format!("{:?}", f);
    match f {
        Frame::Data(d) => {
            json!({"t": "data", "sid": sid(d.stream_id()),
                   "flags": (d.is_end_stream() as u64) + 8 * (d.is_padded() as u64),
                   "flags_dbg": dbg_num(&dbg, "flags: (").unwrap_or(0),
                   "pad": dbg_num(&dbg, "pad_len: "), "data": jb(&d.payload()[..])})
        }
        Frame::Headers(mut h) => {
            let pseudo = pseudo_json(h.pseudo_mut());
            json!({"t": "headers", "sid": sid(h.stream_id()), "flags": dbg_num(&dbg, "flags: (").unwrap_or(999),
                   "dep": dbg_dep(&dbg), "fields": fields_json(h.fields()), "pseudo": pseudo,
                   "over": h.is_over_size()})
        }
        Frame::Priority(_) => {
            json!({"t": "priority", "sid": dbg_num(&dbg, "stream_id: ").unwrap_or(u64::MAX), "dep": dbg_dep(&dbg)})
        }
        Frame::PushPromise(p) => {
            let s = sid(p.stream_id());
            let pr = sid(p.promised_id());
            let over = p.is_over_size();
            let fields = fields_json(p.fields());
            let (pseudo, _) = p.into_parts();
            json!({"t": "push_promise", "sid": s, "flags": dbg_num(&dbg, "flags: (").unwrap_or(999),
                   "promised": pr, "fields": fields, "pseudo": pseudo_json(&pseudo), "over": over})
        }
        Frame::Settings(s) => {
            json!({"t": "settings", "flags": s.is_ack() as u64,
                   "hts": s.header_table_size(), "ep": s.is_push_enabled().map(|b| b as u64),
                   "mcs": s.max_concurrent_streams(), "iws": s.initial_window_size(),
                   "mfs": s.max_frame_size(), "mhls": s.max_header_list_size(),
                   "ecp": s.is_extended_connect_protocol_enabled().map(|b| b as u64)})
        }
        Frame::Ping(p) => json!({"t": "ping", "ack": p.is_ack(), "payload": jb(&p.payload()[..])}),
        Frame::GoAway(g) => {
            json!({"t": "goaway", "last": sid(g.last_stream_id()), "code": u32::from(g.reason()),
                   "debug": jb(&g.debug_data()[..])})
        }
        Frame::WindowUpdate(w) => json!({"t": "window_update", "sid": sid(w.stream_id()), "inc": w.size_increment()}),
        Frame::Reset(r) => json!({"t": "reset", "sid": sid(r.stream_id()), "code": u32::from(r.reason())}),
    }
}

fn error_json(e: h2::proto::Error) -> Value {
    match e {
        h2::proto::Error::Reset(id, reason, _) => json!({"t": "err_reset", "sid": sid(id), "reason": u32::from(reason)}),
        h2::proto::Error::GoAway(debug, reason, _) => {
            json!({"t": "err_goaway", "reason": u32::from(reason), "debug": jb(&debug[..])})
        }
        h2::proto::Error::Io(kind, msg) => json!({"t": "err_io", "kind": format!("{:?}", kind), "msg": msg}),
    }
}

fn panic_msg(p: Box<dyn std::any::Any + Send>) -> String {
    if let Some(s) = p.downcast_ref::<&str>() {
        s.to_string()
    } else if let Some(s) = p.downcast_ref::<String>() {
        s.clone()
    } else {
        "panic".to_string()
    }
}

// ------------------------------------------------------------------------------------------
// independent frame writer (RFC 9113 section 4.1 / 6)

fn wire_frame(ty: u8, flags: u8, sid: u32, reserved: bool, payload: &[u8]) -> Vec<u8> {
    let mut v = Vec::with_capacity(9 + payload.len());
    let l = payload.len() as u32;
    v.push((l >> 16) as u8);
    v.push((l >> 8) as u8);
    v.push(l as u8);
    v.push(ty);
    v.push(flags);
    let s = (sid & 0x7fff_ffff) | if reserved { 0x8000_0000 } else { 0 };
    v.extend_from_slice(&s.to_be_bytes());
    v.extend_from_slice(payload);
    v
}

fn hpack_int(prefix_bits: u8, first: u8, n: usize, out: &mut Vec<u8>) {
    let max = (1usize << prefix_bits) - 1;
    if n < max {
        out.push(first | n as u8);
    } else {
        out.push(first | max as u8);
        let mut r = n - max;
        while r >= 128 {
            out.push((r % 128) as u8 | 0x80);
            r /= 128;
        }
        out.push(r as u8);
    }
}

/// literal header field without indexing (0x00) / never indexed (0x10), new name, no Huffman
fn hpack_literal(never: bool, name: &[u8], value: &[u8], out: &mut Vec<u8>) {
    out.push(if never { 0x10 } else { 0x00 });
    hpack_int(7, 0, name.len(), out);
    out.extend_from_slice(name);
    hpack_int(7, 0, value.len(), out);
    out.extend_from_slice(value);
}

struct Gen {
    rng: Rng,
    counter: u64,
    dist: BTreeMap<String, u64>,
}

impl Gen {
    fn tick(&mut self, k: &str) {
        *self.dist.entry(k.to_string()).or_insert(0) += 1;
    }

    fn name(&mut self) -> Vec<u8> {
        const CH: &[u8] = b"abcdefghijklmnopqrstuvwxyz0123456789-";
        let n = self.rng.range(1, 10) as usize;
        let mut v = vec![b'x'];
        for _ in 0..n {
            v.push(*self.rng.pick(CH));
        }
        self.counter += 1;
        v.extend_from_slice(format!("-{}", self.counter).as_bytes());
        v
    }

    fn value(&mut self, big: bool) -> Vec<u8> {
        let n = if big {
            self.rng.range(100, 600) as usize
        } else if self.rng.chance(1, 10) {
            self.rng.range(120, 300) as usize
        } else {
            self.rng.range(0, 40) as usize
        };
        (0..n).map(|_| self.rng.range(0x20, 0x7e) as u8).collect()
    }

    /// a header block of literal fields; returns (block, field list)
    fn block(&mut self, nfields: usize, big: bool, special: bool) -> (Vec<u8>, Vec<(Vec<u8>, Vec<u8>)>) {
        let mut out = Vec::new();
        let mut fields = Vec::new();
        for i in 0..nfields {
            let (n, v) = if special && i == nfields / 2 {
                match self.rng.below(4) {
                    0 => (b"connection".to_vec(), b"close".to_vec()),
                    1 => (b"te".to_vec(), b"gzip".to_vec()),
                    2 => (b"te".to_vec(), b"trailers".to_vec()),
                    _ => (b"upgrade".to_vec(), b"h2c".to_vec()),
                }
            } else {
                { let b = big && self.rng.chance(1, 2); (self.name(), self.value(b)) }
            };
            hpack_literal(self.rng.chance(1, 2), &n, &v, &mut out);
            fields.push((n, v));
        }
        (out, fields)
    }

    fn sid_nonzero(&mut self) -> u32 {
        match self.rng.below(10) {
            0 => 0x7fff_ffff,
            1 => self.rng.range(1, 0x7fff_ffff) as u32,
            _ => self.rng.range(1, 40) as u32,
        }
    }

    fn undefined_bits(&mut self, defined: u8) -> u8 {
        if self.rng.chance(1, 4) {
            self.rng.byte() & !defined
        } else {
            0
        }
    }

    fn payload_len(&mut self, max: usize) -> usize {
        match self.rng.below(20) {
            0 => 0,
            1 => 1,
            2 => if self.rng.chance(1, 4) { max.min(20_000) } else { 300 },
            3 => self.rng.range(500, 2500) as usize,
            _ => self.rng.range(0, 120) as usize,
        }
    }

    /// HEADERS (ty 1) or PUSH_PROMISE (ty 5) with `ncont` CONTINUATION frames; `cuts` decides where
    /// the block is split.
    #[allow(clippy::too_many_arguments)]
    fn header_frames(
        &mut self,
        ty: u8,
        sid: u32,
        block: &[u8],
        ncont: usize,
        end_stream: bool,
        padded: bool,
        priority: Option<(u32, bool, u8)>,
        promised: u32,
        max_frame: usize,
    ) -> Vec<Vec<u8>> {
        // split points
        let mut cuts: Vec<usize> = (0..ncont)
            .map(|_| {
                if self.rng.chance(1, 6) {
                    if self.rng.chance(1, 2) {
                        0
                    } else {
                        block.len()
                    }
                } else {
                    self.rng.range(0, block.len() as u64) as usize
                }
            })
            .collect();
        cuts.sort();
        let mut parts = Vec::new();
        let mut prev = 0;
        for c in &cuts {
            parts.push(&block[prev..*c]);
            prev = *c;
        }
        parts.push(&block[prev..]);
        let mut out = Vec::new();
        let mut flags = 0u8;
        let mut payload = Vec::new();
        let pad_len = if padded { self.rng.range(0, 40) as usize } else { 0 };
        if padded {
            flags |= 0x8;
            payload.push(pad_len as u8);
        }
        if ty == 1 {
            if end_stream {
                flags |= 0x1;
            }
            if let Some((dep, excl, w)) = priority {
                flags |= 0x20;
                let d = dep | if excl { 0x8000_0000 } else { 0 };
                payload.extend_from_slice(&d.to_be_bytes());
                payload.push(w);
            }
            flags |= self.undefined_bits(0x2d);
        } else {
            let r = if self.rng.chance(1, 4) { 0x8000_0000 } else { 0 };
            payload.extend_from_slice(&(promised | r).to_be_bytes());
            flags |= self.undefined_bits(0x0c);
        }
        // keep every frame within max_frame
        let first = parts[0];
        let room = max_frame.saturating_sub(payload.len() + pad_len);
        let first = &first[..first.len().min(room)];
        let mut rest_first = &parts[0][first.len()..];
        payload.extend_from_slice(first);
        for _ in 0..pad_len {
            payload.push(if self.rng.chance(1, 8) { self.rng.byte() } else { 0 });
        }
        let single = ncont == 0 && rest_first.is_empty();
        if single {
            flags |= 0x4;
        }
        let rsv = self.rng.chance(1, 5);
        out.push(wire_frame(ty, flags, sid, rsv, &payload));
        // continuation frames
        let mut tail: Vec<&[u8]> = Vec::new();
        while !rest_first.is_empty() {
            let n = rest_first.len().min(max_frame);
            tail.push(&rest_first[..n]);
            rest_first = &rest_first[n..];
        }
        for p in parts.iter().skip(1) {
            let mut p: &[u8] = p;
            if p.is_empty() {
                tail.push(p);
            }
            while !p.is_empty() {
                let n = p.len().min(max_frame);
                tail.push(&p[..n]);
                p = &p[n..];
            }
        }
        let nt = tail.len();
        for (i, p) in tail.iter().enumerate() {
            let mut fl = self.undefined_bits(0x04);
            if i + 1 == nt {
                fl |= 0x4;
            }
            let rsv = self.rng.chance(1, 5);
            out.push(wire_frame(9, fl, sid, rsv, p));
        }
        out
    }

    /// one well-formed frame (or HEADERS/PUSH_PROMISE + CONTINUATION run); returns wire frames and a tag
    fn valid_frame(&mut self, max_frame: usize) -> (Vec<Vec<u8>>, &'static str) {
        let rsv = self.rng.chance(1, 5);
        match self.rng.below(13) {
            0 | 1 => {
                // DATA
                let sid = self.sid_nonzero();
                let padded = self.rng.chance(1, 3);
                let n = self.payload_len(max_frame.saturating_sub(256));
                let data = self.rng.bytes(n);
                let mut flags = self.undefined_bits(0x09);
                if self.rng.chance(1, 3) {
                    flags |= 1;
                }
                let mut payload = Vec::new();
                if padded {
                    flags |= 8;
                    let p = match self.rng.below(4) {
                        0 => 0,
                        1 => 255,
                        _ => self.rng.range(0, 60) as usize,
                    };
                    payload.push(p as u8);
                    payload.extend_from_slice(&data);
                    for _ in 0..p {
                        payload.push(if self.rng.chance(1, 8) { self.rng.byte() } else { 0 });
                    }
                } else {
                    payload = data;
                }
                (vec![wire_frame(0, flags, sid, rsv, &payload)], "data")
            }
            2 | 3 | 4 => {
                // HEADERS (+ CONTINUATION)
                let sid = self.sid_nonzero();
                let nf = self.rng.range(0, 6) as usize;
                let big = self.rng.chance(1, 8);
                let (block, _) = self.block(nf, big, false);
                let ncont = match self.rng.below(6) {
                    0 | 1 | 2 => 0,
                    3 => 1,
                    4 => 2,
                    _ => self.rng.range(3, 5) as usize,
                };
                let prio = if self.rng.chance(1, 3) {
                    let mut dep = self.rng.range(0, 50) as u32;
                    if dep == sid {
                        dep += 1;
                    }
                    Some((dep, self.rng.chance(1, 2), self.rng.byte()))
                } else {
                    None
                };
                let es = self.rng.chance(1, 2);
                let padded = self.rng.chance(1, 3);
                let fr = self.header_frames(1, sid, &block, ncont, es, padded, prio, 0, max_frame);
                (fr, if ncont > 0 { "headers+cont" } else { "headers" })
            }
            5 => {
                // PRIORITY
                let sid = self.sid_nonzero();
                let mut dep = self.rng.range(0, 50) as u32;
                if dep == sid {
                    dep += 1;
                }
                let d = dep | if self.rng.chance(1, 2) { 0x8000_0000 } else { 0 };
                let mut p = d.to_be_bytes().to_vec();
                p.push(self.rng.byte());
                (vec![wire_frame(2, self.rng.byte(), sid, rsv, &p)], "priority")
            }
            6 => {
                let sid = self.sid_nonzero();
                let code = if self.rng.chance(1, 2) { self.rng.below(14) as u32 } else { self.rng.next_u64() as u32 };
                (vec![wire_frame(3, self.rng.byte(), sid, rsv, &code.to_be_bytes())], "rst_stream")
            }
            7 => {
                // SETTINGS
                if self.rng.chance(1, 4) {
                    let fl = 1 | self.undefined_bits(1);
                    return (vec![wire_frame(4, fl, 0, rsv, &[])], "settings_ack");
                }
                let n = self.rng.range(0, 8);
                let mut p = Vec::new();
                for _ in 0..n {
                    let id: u16 = match self.rng.below(10) {
                        0 => self.rng.range(9, 0xffff) as u16,
                        1 => 7,
                        2 => 0,
                        _ => *self.rng.pick(&[1u16, 2, 3, 4, 5, 6, 8]),
                    };
                    let v: u32 = match id {
                        2 | 8 => self.rng.below(2) as u32,
                        4 => self.rng.range(0, 0x7fff_ffff) as u32,
                        5 => self.rng.range(16384, 16_777_215) as u32,
                        _ => self.rng.next_u64() as u32,
                    };
                    p.extend_from_slice(&id.to_be_bytes());
                    p.extend_from_slice(&v.to_be_bytes());
                }
                (vec![wire_frame(4, self.undefined_bits(1), 0, rsv, &p)], "settings")
            }
            8 => {
                // PUSH_PROMISE (+ CONTINUATION)
                let sid = self.sid_nonzero();
                let nf = self.rng.range(0, 4) as usize;
                let (block, _) = self.block(nf, false, false);
                let ncont = if self.rng.chance(1, 3) { self.rng.range(1, 3) as usize } else { 0 };
                let promised = self.rng.range(0, 0x7fff_ffff) as u32;
                let padded = self.rng.chance(1, 3);
                // (an empty first fragment is legal and accepted since the `src.len() < 4` repair)
                let fr = self.header_frames(5, sid, &block, ncont, false, padded, None, promised, max_frame);
                (fr, "push_promise")
            }
            9 => {
                let p = self.rng.bytes(8);
                (vec![wire_frame(6, self.rng.byte(), 0, rsv, &p)], "ping")
            }
            10 => {
                let last = self.rng.next_u64() as u32;
                let code = self.rng.below(16) as u32;
                let mut p = last.to_be_bytes().to_vec();
                p.extend_from_slice(&code.to_be_bytes());
                let n = if self.rng.chance(1, 3) { 0 } else { self.rng.range(0, 30) as usize };
                p.extend_from_slice(&self.rng.bytes(n));
                (vec![wire_frame(7, self.rng.byte(), 0, rsv, &p)], "goaway")
            }
            11 => {
                let sid = if self.rng.chance(1, 2) { 0 } else { self.sid_nonzero() };
                let mut inc = self.rng.range(1, 0x7fff_ffff) as u32;
                if self.rng.chance(1, 3) {
                    inc |= 0x8000_0000;
                }
                (vec![wire_frame(8, self.rng.byte(), sid, rsv, &inc.to_be_bytes())], "window_update")
            }
            _ => {
                let ty = self.rng.range(10, 255) as u8;
                let n = self.rng.range(0, 50) as usize;
                let p = self.rng.bytes(n);
                let sid = self.rng.next_u64() as u32 & 0x7fff_ffff;
                (vec![wire_frame(ty, self.rng.byte(), sid, rsv, &p)], "unknown")
            }
        }
    }

    /// a deliberately broken stream; returns the octets and a tag
    fn malformed_stream(&mut self, max_frame: usize, max_hls: &mut usize) -> (Vec<u8>, String) {
        let mut out: Vec<u8> = Vec::new();
        // some valid prefix
        for _ in 0..self.rng.below(3) {
            let (fr, _) = self.valid_frame(max_frame);
            for f in fr {
                out.extend_from_slice(&f);
            }
        }
        let sid = self.rng.range(1, 30) as u32;
        let tag: String;
        match self.rng.below(30) {
            0 => {
                // oversize: only the head, or head + part of the payload
                let len = max_frame + 1 + self.rng.below(3) as usize * 1000;
                let ty = self.rng.below(12) as u8;
                let mut f = wire_frame(ty, 0, sid, false, &[]);
                f[0] = (len >> 16) as u8;
                f[1] = (len >> 8) as u8;
                f[2] = len as u8;
                let keep = match self.rng.below(4) {
                    0 => 3,
                    1 => 9,
                    2 => 5,
                    _ => 9 + self.rng.range(0, 200) as usize,
                };
                f.truncate(keep.min(9));
                if keep > 9 {
                    let n = keep - 9;
                    f.extend_from_slice(&self.rng.bytes(n));
                }
                out.extend_from_slice(&f);
                tag = "oversize".into();
            }
            1 => {
                // exactly max (accepted) then max+1 (rejected)
                let p = self.rng.bytes(max_frame.min(20000));
                if p.len() == max_frame {
                    out.extend_from_slice(&wire_frame(0, 0, sid, false, &p));
                }
                let mut f = wire_frame(0, 0, sid, false, &[]);
                let len = max_frame + 1;
                f[0] = (len >> 16) as u8;
                f[1] = (len >> 8) as u8;
                f[2] = len as u8;
                out.extend_from_slice(&f);
                tag = "max_then_max_plus_1".into();
            }
            2 => {
                let n = *self.rng.pick(&[0usize, 7, 9, 16]);
                out.extend_from_slice(&wire_frame(6, 0, 0, false, &self.rng.bytes(n)));
                tag = "ping_len".into();
            }
            3 => {
                let n = *self.rng.pick(&[0usize, 3, 5, 8]);
                out.extend_from_slice(&wire_frame(3, 0, sid, false, &self.rng.bytes(n)));
                tag = "rst_len".into();
            }
            4 => {
                let n = *self.rng.pick(&[0usize, 4, 6, 10]);
                out.extend_from_slice(&wire_frame(2, 0, sid, false, &self.rng.bytes(n)));
                tag = "priority_len".into();
            }
            5 => {
                let n = *self.rng.pick(&[0usize, 3, 5, 8]);
                out.extend_from_slice(&wire_frame(8, 0, sid, false, &self.rng.bytes(n)));
                tag = "window_update_len".into();
            }
            6 => {
                let n = *self.rng.pick(&[1usize, 5, 7, 11, 13]);
                out.extend_from_slice(&wire_frame(4, 0, 0, false, &self.rng.bytes(n)));
                tag = "settings_len".into();
            }
            7 => {
                let n = *self.rng.pick(&[1usize, 6, 12]);
                out.extend_from_slice(&wire_frame(4, 1, 0, false, &vec![0u8; n]));
                tag = "settings_ack_payload".into();
            }
            8 => {
                let n = self.rng.range(0, 7) as usize;
                out.extend_from_slice(&wire_frame(7, 0, 0, false, &self.rng.bytes(n)));
                tag = "goaway_len".into();
            }
            9 => {
                // stream id zero where a stream is required
                let ty = *self.rng.pick(&[0u8, 1, 2, 3, 5, 9]);
                let p: Vec<u8> = match ty {
                    2 => vec![0, 0, 0, 3, 7],
                    3 => vec![0, 0, 0, 8],
                    5 => vec![0, 0, 0, 2, 0, 1, b'a', 1, b'b'],
                    _ => vec![],
                };
                let fl = if ty == 1 || ty == 5 || ty == 9 { 4 } else { 0 };
                out.extend_from_slice(&wire_frame(ty, fl, 0, self.rng.chance(1, 2), &p));
                tag = format!("sid_zero_ty{}", ty);
            }
            10 => {
                // stream id non-zero where zero is required
                let ty = *self.rng.pick(&[4u8, 6, 7]);
                let p: Vec<u8> = match ty {
                    6 => vec![1; 8],
                    7 => vec![0, 0, 0, 1, 0, 0, 0, 2, b'x'],
                    _ => vec![],
                };
                out.extend_from_slice(&wire_frame(ty, 0, sid, false, &p));
                tag = format!("sid_nonzero_ty{}", ty);
            }
            11 => {
                let inc: u32 = if self.rng.chance(1, 2) { 0 } else { 0x8000_0000 };
                let s = if self.rng.chance(1, 2) { 0 } else { sid };
                out.extend_from_slice(&wire_frame(8, 0, s, false, &inc.to_be_bytes()));
                tag = "window_update_zero".into();
            }
            12 => {
                // DATA padding >= payload length
                let n = self.rng.range(0, 10) as usize;
                let mut p = vec![0u8; n];
                if n > 0 {
                    p[0] = (n as u8).wrapping_add(self.rng.below(3) as u8).wrapping_sub(1);
                    if self.rng.chance(1, 3) {
                        p[0] = 255;
                    }
                }
                out.extend_from_slice(&wire_frame(0, 8 | (self.rng.byte() & 1), sid, false, &p));
                tag = "data_padding".into();
            }
            13 => {
                // HEADERS padding / priority length problems
                let (block, _) = self.block(1, false, false);
                let mut p = Vec::new();
                let which = self.rng.below(5);
                let mut fl = 4u8;
                match which {
                    0 => {
                        fl |= 8; // padded, empty payload
                    }
                    1 => {
                        fl |= 8;
                        p.push((block.len() + 1 + self.rng.below(3) as usize) as u8);
                        p.extend_from_slice(&block);
                    }
                    2 => {
                        fl |= 0x20;
                        { let k = self.rng.range(0, 4) as usize; p.extend_from_slice(&self.rng.bytes(k)); }
                    }
                    3 => {
                        fl |= 0x28;
                        p.push(3);
                        p.extend_from_slice(&[0, 0, 0, 9, 1]);
                        p.extend_from_slice(&[0, 0]); // padding 3 > remaining 2
                    }
                    _ => {
                        fl |= 8;
                        p.push(block.len() as u8); // padding == remaining: empty fragment, legal
                        p.extend_from_slice(&block);
                    }
                }
                out.extend_from_slice(&wire_frame(1, fl, sid, false, &p));
                tag = format!("headers_padding_{}", which);
            }
            14 => {
                // self dependency
                let d = sid | if self.rng.chance(1, 2) { 0x8000_0000 } else { 0 };
                let mut p = d.to_be_bytes().to_vec();
                p.push(9);
                if self.rng.chance(1, 2) {
                    out.extend_from_slice(&wire_frame(2, 0, sid, false, &p));
                } else {
                    out.extend_from_slice(&wire_frame(1, 0x24, sid, false, &p));
                }
                let (fr, _) = self.valid_frame(max_frame);
                for f in fr {
                    out.extend_from_slice(&f);
                }
                tag = "self_dependency".into();
            }
            15 => {
                // PUSH_PROMISE with an empty fragment (regression: was refused with MalformedMessage)
                let mut p = Vec::new();
                let mut fl = 0u8;
                if self.rng.chance(1, 2) {
                    fl |= 8;
                    p.push(0);
                }
                p.extend_from_slice(&[0, 0, 0, 4]);
                if self.rng.chance(1, 2) {
                    fl |= 4;
                    out.extend_from_slice(&wire_frame(5, fl, sid, false, &p));
                } else {
                    out.extend_from_slice(&wire_frame(5, fl, sid, false, &p));
                    let (block, _) = self.block(1, false, false);
                    out.extend_from_slice(&wire_frame(9, 4, sid, false, &block));
                }
                tag = "push_promise_empty_fragment".into();
            }
            16 => {
                // PUSH_PROMISE too short / padding too long
                let n = self.rng.range(0, 3) as usize;
                let mut fl = 4;
                let mut p = self.rng.bytes(n);
                if self.rng.chance(1, 2) {
                    fl |= 8;
                    p = vec![9, 0, 0, 0, 2, b'a', b'b'];
                }
                out.extend_from_slice(&wire_frame(5, fl, sid, false, &p));
                tag = "push_promise_short".into();
            }
            17 => {
                // invalid settings values
                let (id, v): (u16, u32) = *self.rng.pick(&[
                    (2u16, 2u32),
                    (2, 0xffff_ffff),
                    (4, 0x8000_0000),
                    (4, 0xffff_ffff),
                    (5, 16383),
                    (5, 16_777_216),
                    (5, 0),
                    (8, 2),
                ]);
                let mut p = Vec::new();
                if self.rng.chance(1, 2) {
                    p.extend_from_slice(&[0, 1, 0, 0, 16, 0]);
                }
                p.extend_from_slice(&id.to_be_bytes());
                p.extend_from_slice(&v.to_be_bytes());
                out.extend_from_slice(&wire_frame(4, 0, 0, false, &p));
                tag = "settings_value".into();
            }
            18 => {
                // CONTINUATION without a preceding HEADERS
                let (block, _) = self.block(1, false, false);
                out.extend_from_slice(&wire_frame(9, self.rng.byte() & 4, sid, false, &block));
                tag = "continuation_unexpected".into();
            }
            19 => {
                // something else interleaved in a header block
                let (block, _) = self.block(2, false, false);
                let cut = self.rng.range(0, block.len() as u64) as usize;
                out.extend_from_slice(&wire_frame(1, 0, sid, false, &block[..cut]));
                let (fr, t) = self.valid_frame(max_frame);
                let mid: Vec<u8> = if self.rng.chance(1, 3) {
                    wire_frame(self.rng.range(10, 200) as u8, 0, sid, false, b"zz")
                } else {
                    fr.concat()
                };
                out.extend_from_slice(&mid);
                out.extend_from_slice(&wire_frame(9, 4, sid, false, &block[cut..]));
                tag = format!("interleaved_{}", t);
            }
            20 => {
                // CONTINUATION on another stream
                let (block, _) = self.block(2, false, false);
                let cut = self.rng.range(0, block.len() as u64) as usize;
                out.extend_from_slice(&wire_frame(1, 0, sid, false, &block[..cut]));
                out.extend_from_slice(&wire_frame(9, 4, sid + 2, false, &block[cut..]));
                out.extend_from_slice(&wire_frame(9, 4, sid, false, &block[cut..]));
                tag = "continuation_other_stream".into();
            }
            21 => {
                // too many CONTINUATION frames (limit is max(5, ..) for small header list sizes)
                *max_hls = *self.rng.pick(&[1000usize, 20_000, 70_000, 200_000]);
                let limit = {
                    let m = (*max_hls / max_frame).max(1);
                    (m + (m >> 2)).max(5)
                };
                let n = limit + self.rng.below(3) as usize; // limit-1+.., around the boundary
                let n = n - 1 + self.rng.below(2) as usize;
                let (block, _) = self.block(1, false, false);
                out.extend_from_slice(&wire_frame(1, 0, sid, false, &[]));
                for _ in 0..n {
                    out.extend_from_slice(&wire_frame(9, 0, sid, false, &[]));
                }
                out.extend_from_slice(&wire_frame(9, 4, sid, false, &block));
                tag = format!("continuation_flood_{}_of_{}", n, limit);
            }
            22 | 23 => {
                // over-size header lists: small limit, many / big fields
                *max_hls = self.rng.range(100, 1500) as usize;
                let nf = self.rng.range(2, 12) as usize;
                let big = self.rng.chance(1, 2);
                let (block, _) = self.block(nf, big, false);
                let ncont = self.rng.range(0, 4) as usize;
                let fr = self.header_frames(1, sid, &block, ncont, false, false, None, 0, max_frame);
                for f in fr {
                    out.extend_from_slice(&f);
                }
                tag = "header_list_oversize".into();
            }
            24 => {
                // truncated header block at END_HEADERS (NeedMore with END_HEADERS)
                let (block, _) = self.block(2, false, false);
                let cut = self.rng.range(1, (block.len() - 1) as u64) as usize;
                if self.rng.chance(1, 2) {
                    out.extend_from_slice(&wire_frame(1, 4, sid, false, &block[..cut]));
                } else {
                    out.extend_from_slice(&wire_frame(1, 0, sid, false, &block[..cut / 2]));
                    out.extend_from_slice(&wire_frame(9, 4, sid, false, &block[cut / 2..cut]));
                }
                tag = "header_block_truncated".into();
            }
            25 => {
                // connection-specific header fields, possibly split over CONTINUATION
                let nf = self.rng.range(1, 4) as usize;
                let (block, _) = self.block(nf, false, true);
                let ncont = self.rng.range(0, 3) as usize;
                let fr = self.header_frames(1, sid, &block, ncont, false, false, None, 0, max_frame);
                for f in fr {
                    out.extend_from_slice(&f);
                }
                let (fr, _) = self.valid_frame(max_frame);
                for f in fr {
                    out.extend_from_slice(&f);
                }
                tag = "connection_header".into();
            }
            26 => {
                // cut the stream short
                let (fr, _) = self.valid_frame(max_frame);
                let all = fr.concat();
                let cut = self.rng.range(1, (all.len() - 1) as u64) as usize;
                out.extend_from_slice(&all[..cut]);
                tag = "truncated_stream".into();
            }
            27 => {
                // header block open at end of stream
                let (block, _) = self.block(1, false, false);
                out.extend_from_slice(&wire_frame(1, 0, sid, false, &block));
                tag = "header_block_open_at_eof".into();
            }
            _ => {
                // random corruption of one octet in a frame header
                let (fr, _) = self.valid_frame(max_frame);
                let mut all = fr.concat();
                let pos = self.rng.below(9.min(all.len() as u64)) as usize;
                all[pos] ^= 1 << self.rng.below(8);
                // keep the test cheap: a huge bogus length just ends in `oversize`/eof
                out.extend_from_slice(&all);
                tag = "bitflip_head".into();
            }
        }
        (out, tag)
    }

    fn chunking(&mut self, bytes: &[u8], style: u64) -> Vec<ReadItem> {
        let mut items = Vec::new();
        match style {
            0 => items.push(ReadItem::Data(bytes.to_vec())),
            1 => {
                for b in bytes {
                    if self.rng.chance(1, 7) {
                        items.push(ReadItem::Pending);
                    }
                    items.push(ReadItem::Data(vec![*b]));
                }
            }
            _ => {
                // the model's feed costs O(buffered octets) per chunk: keep the number of chunks of a
                // long stream moderate (fine-grained cuts are exercised on the short streams)
                let fine = bytes.len() <= 1500;
                let mut i = 0;
                while i < bytes.len() {
                    let n = match self.rng.below(6) {
                        0 if fine => 1,
                        1 if fine => self.rng.range(1, 3),
                        2 if fine => self.rng.range(1, 9),
                        3 => self.rng.range(9, 64),
                        4 => self.rng.range(64, 2000),
                        _ => self.rng.range(100, 20000),
                    } as usize;
                    let n = n.min(bytes.len() - i);
                    if self.rng.chance(1, 4) {
                        items.push(ReadItem::Pending);
                    }
                    items.push(ReadItem::Data(bytes[i..i + n].to_vec()));
                    i += n;
                }
            }
        }
        items
    }
}

// ------------------------------------------------------------------------------------------
// running the read side

fn run_read(max_frame: usize, max_hls: usize, items: &[ReadItem]) -> (Vec<Value>, bool) {
    let mut mock = Mock::new();
    mock.reads = items.iter().cloned().collect();
    let mut codec: Codec<Mock, Bytes> = Codec::with_max_recv_frame_size(mock, max_frame);
    codec.set_max_recv_header_list_size(max_hls);
    let waker = futures::task::noop_waker();
    let mut cx = Context::from_waker(&waker);
    let mut events = Vec::new();
    let mut dead = false;
    let mut eof_io = false;
    let mut guard = 0u64;
    loop {
        guard += 1;
        if guard > 10_000_000 {
            events.push(json!({"t": "harness_guard"}));
            break;
        }
        let r = catch_unwind(AssertUnwindSafe(|| Pin::new(&mut codec).poll_next(&mut cx)));
        match r {
            Err(p) => {
                events.push(json!({"t": "panic", "msg": panic_msg(p)}));
                dead = true;
                break;
            }
            Ok(Poll::Pending) => {
                if codec.get_ref().read_exhausted && codec.get_ref().reads.is_empty() {
                    break;
                }
            }
            Ok(Poll::Ready(None)) => {
                dead = true;
                break;
            }
            Ok(Poll::Ready(Some(Ok(f)))) => events.push(frame_json(f)),
            Ok(Poll::Ready(Some(Err(e)))) => events.push(error_json(e)),
        }
    }
    if !dead {
        codec.get_mut().eof = true;
        let r = catch_unwind(AssertUnwindSafe(|| Pin::new(&mut codec).poll_next(&mut cx)));
        match r {
            Ok(Poll::Ready(None)) => {}
            Ok(Poll::Ready(Some(Err(h2::proto::Error::Io(_, _))))) => eof_io = true,
            Ok(Poll::Ready(Some(Err(e)))) => events.push(json!({"t": "eof_unexpected", "e": error_json(e)})),
            Ok(Poll::Ready(Some(Ok(f)))) => events.push(json!({"t": "eof_unexpected_frame", "f": frame_json(f)})),
            Ok(Poll::Pending) => events.push(json!({"t": "eof_pending"})),
            Err(p) => events.push(json!({"t": "panic", "msg": panic_msg(p)})),
        }
    }
    (events, eof_io)
}

fn chunks_json(items: &[ReadItem]) -> Value {
    Value::Array(
        items
            .iter()
            .filter_map(|i| match i {
                ReadItem::Data(d) => Some(json!(d.len())),
                ReadItem::Pending => None,
            })
            .collect(),
    )
}

// ------------------------------------------------------------------------------------------
// the write side

#[derive(Clone, Debug)]
enum WFrame {
    Data { sid: u32, es: bool, data: Vec<u8> },
    Headers { sid: u32, es: bool, request: bool, fields: Vec<(String, Vec<u8>)>, trailers: bool },
    PushPromise { sid: u32, promised: u32, fields: Vec<(String, Vec<u8>)> },
    Settings { ack: bool, vals: [Option<u32>; 7] },
    Ping { ack: bool, payload: [u8; 8] },
    GoAway { last: u32, code: u32, debug: Vec<u8> },
    WindowUpdate { sid: u32, inc: u32 },
    Reset { sid: u32, code: u32 },
}

fn header_map(fields: &[(String, Vec<u8>)]) -> HeaderMap {
    let mut m = HeaderMap::new();
    for (n, v) in fields {
        m.append(HeaderName::from_bytes(n.as_bytes()).unwrap(), HeaderValue::from_bytes(v).unwrap());
    }
    m
}

fn build(w: &WFrame) -> Frame<Bytes> {
    match w {
        WFrame::Data { sid, es, data } => {
            let mut d = frame::Data::new(StreamId::from(*sid), Bytes::from(data.clone()));
            d.set_end_stream(*es);
            d.into()
        }
        WFrame::Headers { sid, es, request, fields, trailers } => {
            let map = header_map(fields);
            let mut h = if *trailers {
                frame::Headers::trailers(StreamId::from(*sid), map)
            } else if *request {
                let uri: Uri = "https://example.com/some/path?q=1".parse().unwrap();
                frame::Headers::new(StreamId::from(*sid), frame::Pseudo::request(Method::GET, uri, None), map)
            } else {
                frame::Headers::new(StreamId::from(*sid), frame::Pseudo::response(StatusCode::OK), map)
            };
            if *es {
                h.set_end_stream();
            }
            h.into()
        }
        WFrame::PushPromise { sid, promised, fields } => {
            let uri: Uri = "https://example.com/pushed".parse().unwrap();
            frame::PushPromise::new(
                StreamId::from(*sid),
                StreamId::from(*promised),
                frame::Pseudo::request(Method::GET, uri, None),
                header_map(fields),
            )
            .into()
        }
        WFrame::Settings { ack, vals } => {
            if *ack {
                return frame::Settings::ack().into();
            }
            let mut s = frame::Settings::default();
            s.set_header_table_size(vals[0]);
            if let Some(v) = vals[1] {
                s.set_enable_push(v != 0);
            }
            s.set_max_concurrent_streams(vals[2]);
            s.set_initial_window_size(vals[3]);
            s.set_max_frame_size(vals[4]);
            s.set_max_header_list_size(vals[5]);
            s.set_enable_connect_protocol(vals[6]);
            s.into()
        }
        WFrame::Ping { ack, payload } => {
            if *ack {
                frame::Ping::pong(*payload).into()
            } else {
                frame::Ping::new(*payload).into()
            }
        }
        WFrame::GoAway { last, code, debug } => {
            frame::GoAway::with_debug_data(StreamId::from(*last), (*code).into(), Bytes::from(debug.clone())).into()
        }
        WFrame::WindowUpdate { sid, inc } => frame::WindowUpdate::new(StreamId::from(*sid), *inc).into(),
        WFrame::Reset { sid, code } => frame::Reset::new(StreamId::from(*sid), (*code).into()).into(),
    }
}

fn opt(v: Option<u32>) -> Value {
    match v {
        Some(x) => json!(x),
        None => Value::Null,
    }
}

/// JSON of a frame to be sent; `block` is filled in for header frames (HPACK octets h2 produced)
fn wframe_json(w: &WFrame, block: Option<&Vec<u8>>) -> Value {
    match w {
        WFrame::Data { sid, es, data } => json!({"t": "data", "sid": sid, "flags": *es as u64, "data": jb(data)}),
        WFrame::Headers { sid, es, trailers, .. } => {
            // Headers::trailers() always sets END_STREAM
            json!({"t": "headers", "sid": sid, "flags": 4 + ((*es || *trailers) as u64), "block": block.map(|b| jb(b))})
        }
        WFrame::PushPromise { sid, promised, .. } => {
            json!({"t": "push_promise", "sid": sid, "flags": 4, "promised": promised, "block": block.map(|b| jb(b))})
        }
        WFrame::Settings { ack, vals } => json!({"t": "settings", "flags": *ack as u64,
            "hts": opt(vals[0]), "ep": opt(vals[1]), "mcs": opt(vals[2]), "iws": opt(vals[3]),
            "mfs": opt(vals[4]), "mhls": opt(vals[5]), "ecp": opt(vals[6])}),
        WFrame::Ping { ack, payload } => json!({"t": "ping", "ack": ack, "payload": jb(payload)}),
        WFrame::GoAway { last, code, debug } => json!({"t": "goaway", "last": last, "code": code, "debug": jb(debug)}),
        WFrame::WindowUpdate { sid, inc } => json!({"t": "window_update", "sid": sid, "inc": inc}),
        WFrame::Reset { sid, code } => json!({"t": "reset", "sid": sid, "code": code}),
    }
}

fn fields_raw(fields: &[(String, Vec<u8>)]) -> Value {
    Value::Array(fields.iter().map(|(n, v)| json!([n, jb(v)])).collect())
}

/// full description of a frame to be sent (enough to rebuild it: replay mode)
fn wframe_raw(w: &WFrame) -> Value {
    match w {
        WFrame::Data { sid, es, data } => json!({"t": "data", "sid": sid, "es": es, "data": jb(data)}),
        WFrame::Headers { sid, es, request, fields, trailers } => json!({"t": "headers", "sid": sid, "es": es,
            "request": request, "trailers": trailers, "fields": fields_raw(fields)}),
        WFrame::PushPromise { sid, promised, fields } => {
            json!({"t": "push_promise", "sid": sid, "promised": promised, "fields": fields_raw(fields)})
        }
        WFrame::Settings { ack, vals } => json!({"t": "settings", "ack": ack, "vals": vals.iter().map(|v| opt(*v)).collect::<Vec<_>>()}),
        WFrame::Ping { ack, payload } => json!({"t": "ping", "ack": ack, "payload": jb(payload)}),
        WFrame::GoAway { last, code, debug } => json!({"t": "goaway", "last": last, "code": code, "debug": jb(debug)}),
        WFrame::WindowUpdate { sid, inc } => json!({"t": "window_update", "sid": sid, "inc": inc}),
        WFrame::Reset { sid, code } => json!({"t": "reset", "sid": sid, "code": code}),
    }
}

fn vbytes(v: &Value) -> Vec<u8> {
    v.as_array().map(|a| a.iter().map(|x| x.as_u64().unwrap_or(0) as u8).collect()).unwrap_or_default()
}

fn vfields(v: &Value) -> Vec<(String, Vec<u8>)> {
    v.as_array()
        .map(|a| a.iter().map(|p| (p[0].as_str().unwrap_or("x").to_string(), vbytes(&p[1]))).collect())
        .unwrap_or_default()
}

fn wframe_from(v: &Value) -> WFrame {
    let u = |k: &str| v[k].as_u64().unwrap_or(0) as u32;
    let b = |k: &str| v[k].as_bool().unwrap_or(false);
    match v["t"].as_str().unwrap_or("") {
        "data" => WFrame::Data { sid: u("sid"), es: b("es"), data: vbytes(&v["data"]) },
        "headers" => WFrame::Headers { sid: u("sid"), es: b("es"), request: b("request"), trailers: b("trailers"),
                                       fields: vfields(&v["fields"]) },
        "push_promise" => WFrame::PushPromise { sid: u("sid"), promised: u("promised"), fields: vfields(&v["fields"]) },
        "settings" => {
            let mut vals = [None; 7];
            if let Some(a) = v["vals"].as_array() {
                for (i, x) in a.iter().enumerate().take(7) {
                    vals[i] = x.as_u64().map(|n| n as u32);
                }
            }
            WFrame::Settings { ack: b("ack"), vals }
        }
        "ping" => {
            let p = vbytes(&v["payload"]);
            let mut a = [0u8; 8];
            for (i, x) in p.iter().enumerate().take(8) {
                a[i] = *x;
            }
            WFrame::Ping { ack: b("ack"), payload: a }
        }
        "goaway" => WFrame::GoAway { last: u("last"), code: u("code"), debug: vbytes(&v["debug"]) },
        "window_update" => WFrame::WindowUpdate { sid: u("sid"), inc: u("inc") },
        _ => WFrame::Reset { sid: u("sid"), code: u("code") },
    }
}

fn titem_from(v: &Value) -> TItem {
    match v.as_str() {
        Some("p") => TItem::Pending,
        Some("z") => TItem::Zero,
        Some("e") => TItem::Error,
        _ => TItem::Accept(v["a"].as_u64().unwrap_or(0) as usize),
    }
}

/// run a fixed list of operations (replay / shrinking): stops like the model's `run`
fn run_fixed(vectored: bool, max: usize, frames: &[WFrame], ops: &[Value], script: &[TItem]) -> Value {
    let refs = reference_run(vectored, max, frames);
    let mut mock = Mock::new();
    mock.vectored = vectored;
    mock.script = script.iter().cloned().collect();
    let mut codec: Codec<Mock, Bytes> = Codec::new(mock);
    codec.set_max_send_frame_size(max);
    let waker = futures::task::noop_waker();
    let mut cx = Context::from_waker(&waker);
    let mut obs: Vec<u64> = Vec::new();
    let mut done_ops: Vec<Value> = Vec::new();
    for op in ops {
        done_ops.push(op.clone());
        if let Some(i) = op.get("buffer").and_then(|x| x.as_u64()) {
            let fr = build(&frames[i as usize]);
            match catch_unwind(AssertUnwindSafe(|| codec.buffer(fr))) {
                Ok(Ok(())) => obs.push(20),
                Ok(Err(_)) => obs.push(21),
                Err(_) => {
                    obs.push(22);
                    break;
                }
            }
            continue;
        }
        let is_flush = op.as_str() == Some("flush");
        let base = if is_flush { 10 } else { 0 };
        let r = catch_unwind(AssertUnwindSafe(|| if is_flush { codec.flush(&mut cx) } else { codec.poll_ready(&mut cx) }));
        let c = match r {
            Err(_) => base + 6,
            Ok(Poll::Ready(Ok(()))) => base,
            Ok(Poll::Pending) => base + if codec.get_ref().script_exhausted { 4 } else { 1 },
            Ok(Poll::Ready(Err(e))) => base + io_code(&e),
        };
        obs.push(c);
        if c % 10 != 0 && c % 10 != 1 {
            break;
        }
    }
    let writes: Vec<Value> = codec.get_ref().writes.iter().map(|w| jb(w)).collect();
    let frames_json: Vec<Value> = frames
        .iter()
        .enumerate()
        .map(|(i, w)| {
            let block = refs[i].as_ref().map(|b| block_of(b));
            let is_hdr = matches!(w, WFrame::Headers { .. } | WFrame::PushPromise { .. });
            wframe_json(w, if is_hdr { block.as_ref() } else { None })
        })
        .collect();
    json!({"mode": "replay_write", "vectored": vectored, "max": max, "frames": frames_json,
           "wframes": frames.iter().map(wframe_raw).collect::<Vec<_>>(), "ops": done_ops,
           "script": script.iter().map(titem_json).collect::<Vec<_>>(), "obs": obs, "writes": writes})
}

fn expected_header_list(w: &WFrame) -> Vec<(String, Vec<u8>)> {
    let mut out = Vec::new();
    match w {
        WFrame::Headers { request, fields, trailers, .. } => {
            if !*trailers {
                if *request {
                    out.push((":method".to_string(), b"GET".to_vec()));
                    out.push((":scheme".to_string(), b"https".to_vec()));
                    out.push((":authority".to_string(), b"example.com".to_vec()));
                    out.push((":path".to_string(), b"/some/path?q=1".to_vec()));
                } else {
                    out.push((":status".to_string(), b"200".to_vec()));
                }
            }
            out.extend(fields.iter().cloned());
        }
        WFrame::PushPromise { fields, .. } => {
            out.push((":method".to_string(), b"GET".to_vec()));
            out.push((":scheme".to_string(), b"https".to_vec()));
            out.push((":authority".to_string(), b"example.com".to_vec()));
            out.push((":path".to_string(), b"/pushed".to_vec()));
            out.extend(fields.iter().cloned());
        }
        _ => {}
    }
    out
}

impl Gen {
    fn wfields(&mut self, large: bool) -> Vec<(String, Vec<u8>)> {
        let n = if large { self.rng.range(3, 12) } else { self.rng.range(0, 5) } as usize;
        (0..n)
            .map(|_| {
                let name = String::from_utf8(self.name()).unwrap();
                let big = large && self.rng.chance(1, 2);
                (name, self.value(big))
            })
            .collect()
    }

    fn wframe(&mut self, max: usize, chain: usize) -> WFrame {
        let sid = self.rng.range(1, 0x7fff_ffff) as u32;
        match self.rng.below(14) {
            0..=3 => {
                let n = match self.rng.below(12) {
                    0 => 0,
                    1 => chain - 1,
                    2 => chain,
                    3 => chain + 1,
                    4 => max,
                    5 => max + 1,
                    6 => chain.saturating_sub(9),
                    7 => if max > chain { self.rng.range(chain as u64, max as u64) as usize } else { max / 2 },
                    8 => self.rng.range(0, 20) as usize,
                    _ => self.rng.range(0, (2 * chain) as u64) as usize,
                };
                let n = if n > 2500 && !self.rng.chance(1, 6) { n % 2500 } else { n.min(30_000) };
                WFrame::Data { sid, es: self.rng.chance(1, 3), data: self.rng.bytes(n) }
            }
            4..=6 => {
                let large = self.rng.chance(1, 3);
                let trailers = self.rng.chance(1, 6);
                WFrame::Headers {
                    sid,
                    es: self.rng.chance(1, 2),
                    request: self.rng.chance(1, 2),
                    fields: self.wfields(large),
                    trailers,
                }
            }
            7 => WFrame::PushPromise {
                sid,
                promised: self.rng.range(2, 0x7fff_fffe) as u32,
                fields: { let l = self.rng.chance(1, 3); self.wfields(l) },
            },
            8 => {
                let mut vals = [None; 7];
                for (i, v) in vals.iter_mut().enumerate() {
                    if self.rng.chance(1, 2) {
                        *v = Some(match i {
                            1 | 6 => self.rng.below(2) as u32,
                            3 => self.rng.range(0, 0x7fff_ffff) as u32,
                            4 => self.rng.range(16384, 16_777_215) as u32,
                            _ => self.rng.next_u64() as u32,
                        });
                    }
                }
                let ack = self.rng.chance(1, 4);
                if ack {
                    vals = [None; 7]; // Settings::ack() carries no parameters
                }
                WFrame::Settings { ack, vals }
            }
            9 => {
                let mut p = [0u8; 8];
                for b in p.iter_mut() {
                    *b = self.rng.byte();
                }
                WFrame::Ping { ack: self.rng.chance(1, 2), payload: p }
            }
            10 => {
                // nobody checks a GOAWAY against the peer's limit (debug data are short static strings in
                // h2): stay within the encoder's precondition 8 + debug <= max
                let n = match self.rng.below(6) {
                    0 => 0,
                    1 => self.rng.range(1000, 3000) as usize,
                    _ => self.rng.range(0, 40) as usize,
                };
                let n = n.min(max.saturating_sub(8));
                WFrame::GoAway {
                    last: self.rng.range(0, 0x7fff_ffff) as u32,
                    code: self.rng.below(14) as u32,
                    debug: self.rng.bytes(n),
                }
            }
            11 => WFrame::WindowUpdate {
                sid: if self.rng.chance(1, 2) { 0 } else { sid },
                inc: self.rng.range(1, 0x7fff_ffff) as u32,
            },
            _ => WFrame::Reset {
                sid,
                code: if self.rng.chance(1, 2) { self.rng.below(14) as u32 } else { self.rng.next_u64() as u32 },
            },
        }
    }
}

/// my own frame splitter: (type, flags, sid, payload) of every complete frame
fn split_frames(bytes: &[u8]) -> Vec<(u8, u8, u32, Vec<u8>)> {
    let mut out = Vec::new();
    let mut i = 0;
    while i + 9 <= bytes.len() {
        let len = ((bytes[i] as usize) << 16) | ((bytes[i + 1] as usize) << 8) | bytes[i + 2] as usize;
        if i + 9 + len > bytes.len() {
            break;
        }
        let sid = u32::from_be_bytes([bytes[i + 5], bytes[i + 6], bytes[i + 7], bytes[i + 8]]) & 0x7fff_ffff;
        out.push((bytes[i + 3], bytes[i + 4], sid, bytes[i + 9..i + 9 + len].to_vec()));
        i += 9 + len;
    }
    out
}

/// reference run: every frame through a fresh codec over an accept-everything transport, flushed
/// one by one; returns per frame the octets written (None when buffer refused / panicked)
fn reference_run(vectored: bool, max: usize, frames: &[WFrame]) -> Vec<Option<Vec<u8>>> {
    let mut mock = Mock::new();
    mock.vectored = vectored;
    mock.accept_all_after_script = true;
    let mut codec: Codec<Mock, Bytes> = Codec::new(mock);
    codec.set_max_send_frame_size(max);
    let waker = futures::task::noop_waker();
    let mut cx = Context::from_waker(&waker);
    let mut out = Vec::new();
    for w in frames {
        let before = codec.get_ref().writes.len();
        let r = catch_unwind(AssertUnwindSafe(|| {
            let _ = codec.poll_ready(&mut cx);
            let r = codec.buffer(build(w));
            let _ = codec.flush(&mut cx);
            r.is_ok()
        }));
        match r {
            Ok(true) => {
                let bytes: Vec<u8> = codec.get_ref().writes[before..].concat();
                out.push(Some(bytes));
            }
            Ok(false) => out.push(None),
            Err(_) => {
                out.push(None);
                break;
            }
        }
    }
    while out.len() < frames.len() {
        out.push(None);
    }
    out
}

fn block_of(bytes: &[u8]) -> Vec<u8> {
    let mut block = Vec::new();
    for (ty, _, _, p) in split_frames(bytes) {
        match ty {
            1 | 9 => block.extend_from_slice(&p),
            5 => block.extend_from_slice(&p[4.min(p.len())..]),
            _ => {}
        }
    }
    block
}

fn decode_block(dec: &mut h2::verif::hpack::Decoder, block: &[u8]) -> Result<Vec<(String, Vec<u8>)>, String> {
    use h2::verif::hpack::Header;
    let mut buf = BytesMut::from(block);
    let mut out = Vec::new();
    let mut cur = io::Cursor::new(&mut buf);
    let r = dec.decode(&mut cur, |h| {
        match h {
            Header::Field { name, value } => out.push((name.as_str().to_string(), value.as_bytes().to_vec())),
            Header::Authority(v) => out.push((":authority".into(), v[..].as_bytes().to_vec())),
            Header::Method(v) => out.push((":method".into(), v.as_str().as_bytes().to_vec())),
            Header::Scheme(v) => out.push((":scheme".into(), v[..].as_bytes().to_vec())),
            Header::Path(v) => out.push((":path".into(), v[..].as_bytes().to_vec())),
            Header::Protocol(v) => out.push((":protocol".into(), v.as_str().as_bytes().to_vec())),
            Header::Status(v) => out.push((":status".into(), v.as_str().as_bytes().to_vec())),
        }
        std::ops::ControlFlow::Continue(())
    });
    match r {
        Ok(()) => Ok(out),
        Err(e) => Err(format!("{:?}", e)),
    }
}

fn io_code(e: &io::Error) -> u64 {
    if e.kind() == io::ErrorKind::WriteZero {
        2
    } else {
        3
    }
}

fn titem_json(t: &TItem) -> Value {
    match t {
        TItem::Accept(k) => json!({"a": *k as u64}),
        TItem::Pending => json!("p"),
        TItem::Zero => json!("z"),
        TItem::Error => json!("e"),
    }
}

// ------------------------------------------------------------------------------------------

fn main() {
    let a = args();
    let seed = arg_u64(&a, "seed", 1);
    let n = arg_u64(&a, "n", 100);
    let mode = a.get("mode").cloned().unwrap_or_else(|| "parse".to_string());
    if std::env::var("FC_PANIC_TRACE").is_err() { std::panic::set_hook(Box::new(|_| {})); }
    let mode_salt = mode.bytes().fold(0u64, |h, b| h.wrapping_mul(131).wrapping_add(b as u64));
    let mut g = Gen { rng: Rng::new(seed ^ mode_salt.wrapping_mul(0x9E37)), counter: 0, dist: BTreeMap::new() };
    let mut cases = 0u64;

    match mode.as_str() {
        "parse" | "malformed" | "readchunk" => {
            for _ in 0..n {
                let max_frame: usize = match g.rng.below(8) {
                    0 => 16_777_215,
                    1 => 20_000,
                    2 => 65_536,
                    _ => 16_384,
                };
                let mut max_hls: usize = match g.rng.below(6) {
                    0 => g.rng.range(200, 3000) as usize,
                    1 => 65_536,
                    _ => 16 << 20,
                };
                let (bytes, tag) = if mode == "malformed" {
                    let (b, t) = g.malformed_stream(max_frame, &mut max_hls);
                    (b, t)
                } else {
                    let nfr = g.rng.range(1, 6);
                    let mut all = Vec::new();
                    let mut tags = Vec::new();
                    for _ in 0..nfr {
                        let (fr, t) = g.valid_frame(max_frame);
                        for f in fr {
                            all.extend_from_slice(&f);
                        }
                        tags.push(t);
                    }
                    for t in &tags {
                        g.tick(t);
                    }
                    (all, tags.join(","))
                };
                if mode == "malformed" {
                    let short = tag.split('_').take(2).collect::<Vec<_>>().join("_");
                    g.tick(&short);
                }
                let styles: Vec<u64> = if mode == "readchunk" { vec![0, 1, 2] } else { vec![g.rng.below(3)] };
                let group = cases;
                for st in styles {
                    // byte-at-a-time over a huge stream is slow in the Coq evaluation; keep it bounded
                    let st = if st == 1 && bytes.len() > 1500 { 2 } else { st };
                    let items = g.chunking(&bytes, st);
                    let (events, eof_io) = run_read(max_frame, max_hls, &items);
                    g.tick(&format!("chunking_{}", st));
                    println!(
                        "{}",
                        json!({"mode": mode, "group": group, "tag": tag, "max_frame": max_frame, "max_hls": max_hls,
                               "bytes": jb(&bytes), "lens": chunks_json(&items), "events": events, "eof_io": eof_io})
                    );
                    cases += 1;
                }
            }
        }
        "serialize" => {
            for _ in 0..n {
                let vectored = g.rng.chance(1, 2);
                let chain = if vectored { 256 } else { 1024 };
                let max: usize = match g.rng.below(6) {
                    0 => 64,
                    1 => 100,
                    2 => 1000,
                    3 => 20_000,
                    _ => 16_384,
                };
                let w = g.wframe(max, chain);
                let outs = reference_run(vectored, max, std::slice::from_ref(&w));
                let bytes = outs[0].clone();
                let block = bytes.as_ref().map(|b| block_of(b));
                let is_hdr = matches!(w, WFrame::Headers { .. } | WFrame::PushPromise { .. });
                let mut hpack_ok = Value::Null;
                if is_hdr {
                    if let Some(b) = &block {
                        let mut dec = h2::verif::hpack::Decoder::new(4096);
                        hpack_ok = json!(decode_block(&mut dec, b) == Ok(expected_header_list(&w)));
                    }
                }
                g.tick(match &w {
                    WFrame::Data { .. } => "data",
                    WFrame::Headers { .. } => "headers",
                    WFrame::PushPromise { .. } => "push_promise",
                    WFrame::Settings { .. } => "settings",
                    WFrame::Ping { .. } => "ping",
                    WFrame::GoAway { .. } => "goaway",
                    WFrame::WindowUpdate { .. } => "window_update",
                    WFrame::Reset { .. } => "reset",
                });
                if let Some(b) = &bytes {
                    if split_frames(b).len() > 1 {
                        g.tick("with_continuation");
                    }
                }
                println!(
                    "{}",
                    json!({"mode": mode, "vectored": vectored, "max": max,
                           "frame": wframe_json(&w, if is_hdr { block.as_ref() } else { None }),
                           "bytes": bytes.as_ref().map(|b| jb(b)), "hpack_ok": hpack_ok})
                );
                cases += 1;
            }
        }
        "writechunk" => {
            for _ in 0..n {
                let vectored = g.rng.chance(1, 2);
                let chain = if vectored { 256 } else { 1024 };
                let max: usize = match g.rng.below(6) {
                    0 => 64,
                    1 => 300,
                    2 => 2000,
                    3 => 20_000,
                    _ => 16_384,
                };
                let nfr = g.rng.range(1, 8) as usize;
                let frames: Vec<WFrame> = (0..nfr).map(|_| g.wframe(max, chain)).collect();
                let refs = reference_run(vectored, max, &frames);
                // the script
                let mut script = Vec::new();
                let style = g.rng.below(5);
                let slen = g.rng.range(0, 60);
                for _ in 0..slen {
                    let it = match g.rng.below(40) {
                        0 if style == 4 => TItem::Zero,
                        1 if style == 4 => TItem::Error,
                        2 if style == 4 => TItem::Accept(0),
                        3..=10 => TItem::Pending,
                        _ => TItem::Accept(match style {
                            0 => 1,
                            1 => g.rng.range(1, 16) as usize,
                            2 => g.rng.range(1, 1500) as usize,
                            _ => g.rng.range(1, 40_000) as usize,
                        }),
                    };
                    script.push(it);
                }
                if g.rng.chance(4, 5) {
                    for _ in 0..(40 + 8 * nfr) {
                        script.push(TItem::Accept(1 << 30));
                    }
                }
                let mut mock = Mock::new();
                mock.vectored = vectored;
                mock.script = script.iter().cloned().collect();
                let mut codec: Codec<Mock, Bytes> = Codec::new(mock);
                codec.set_max_send_frame_size(max);
                let waker = futures::task::noop_waker();
                let mut cx = Context::from_waker(&waker);
                let mut ops: Vec<Value> = Vec::new();
                let mut obs: Vec<u64> = Vec::new();
                let mut stopped = false;
                let mut buffered: Vec<usize> = Vec::new();

                // one poll_ready / flush call; returns the observation code
                let mut call = |codec: &mut Codec<Mock, Bytes>, is_flush: bool| -> u64 {
                    let r = catch_unwind(AssertUnwindSafe(|| {
                        if is_flush {
                            codec.flush(&mut cx)
                        } else {
                            codec.poll_ready(&mut cx)
                        }
                    }));
                    let base = if is_flush { 10 } else { 0 };
                    match r {
                        Err(_) => base + 6,
                        Ok(Poll::Ready(Ok(()))) => base,
                        Ok(Poll::Pending) => {
                            if codec.get_ref().script_exhausted {
                                base + 4
                            } else {
                                base + 1
                            }
                        }
                        Ok(Poll::Ready(Err(e))) => base + io_code(&e),
                    }
                };

                'frames: for (i, w) in frames.iter().enumerate() {
                    // sometimes buffer without asking (may trip assert!(has_capacity()))
                    let careless = g.rng.chance(1, 25);
                    if !careless {
                        let mut tries = 0;
                        loop {
                            let c = call(&mut codec, false);
                            ops.push(json!("poll_ready"));
                            obs.push(c);
                            if c == 0 {
                                break;
                            }
                            tries += 1;
                            if c != 1 || tries > 500 {
                                stopped = true;
                                break 'frames;
                            }
                        }
                    }
                    let fr = build(w);
                    let r = catch_unwind(AssertUnwindSafe(|| codec.buffer(fr)));
                    ops.push(json!({"buffer": i}));
                    match r {
                        Ok(Ok(())) => {
                            obs.push(20);
                            buffered.push(i);
                        }
                        Ok(Err(_)) => obs.push(21),
                        Err(_) => {
                            obs.push(22);
                            stopped = true;
                            break 'frames;
                        }
                    }
                    if g.rng.chance(1, 3) {
                        let c = call(&mut codec, true);
                        ops.push(json!("flush"));
                        obs.push(c);
                        if c != 10 && c != 11 {
                            stopped = true;
                            break 'frames;
                        }
                    }
                }
                if !stopped {
                    let mut tries = 0;
                    loop {
                        let c = call(&mut codec, true);
                        ops.push(json!("flush"));
                        obs.push(c);
                        tries += 1;
                        if c != 11 || tries > 500 {
                            break;
                        }
                    }
                }
                let writes: Vec<Value> = codec.get_ref().writes.iter().map(|w| jb(w)).collect();
                let frames_json: Vec<Value> = frames
                    .iter()
                    .enumerate()
                    .map(|(i, w)| {
                        let block = refs[i].as_ref().map(|b| block_of(b));
                        let is_hdr = matches!(w, WFrame::Headers { .. } | WFrame::PushPromise { .. });
                        wframe_json(w, if is_hdr { block.as_ref() } else { None })
                    })
                    .collect();
                let last = *obs.last().unwrap_or(&10);
                g.tick(&format!("end_{}", last));
                g.tick(&format!("script_style_{}", style));
                if frames.iter().any(|w| matches!(w, WFrame::Data{data, ..} if data.len() >= chain && data.len() <= max)) {
                    g.tick("has_chained_data");
                }
                if refs.iter().flatten().any(|b| split_frames(b).iter().any(|f| f.0 == 9)) {
                    g.tick("has_continuation");
                }
                println!(
                    "{}",
                    json!({"mode": mode, "vectored": vectored, "max": max, "frames": frames_json,
                           "wframes": frames.iter().map(wframe_raw).collect::<Vec<_>>(), "ops": ops,
                           "script": script.iter().map(titem_json).collect::<Vec<_>>(),
                           "obs": obs, "writes": writes, "buffered": buffered})
                );
                cases += 1;
            }
        }
        "replay" => {
            use std::io::BufRead;
            let stdin = std::io::stdin();
            for line in stdin.lock().lines() {
                let line = line.unwrap_or_default();
                let v: Value = match serde_json::from_str(&line) {
                    Ok(v) => v,
                    Err(_) => continue,
                };
                if v["kind"].as_str() == Some("read") {
                    let bytes = vbytes(&v["bytes"]);
                    let max_frame = v["max_frame"].as_u64().unwrap_or(16384) as usize;
                    let max_hls = v["max_hls"].as_u64().unwrap_or(16 << 20) as usize;
                    let mut items = Vec::new();
                    let mut i = 0usize;
                    if let Some(lens) = v["lens"].as_array() {
                        for l in lens {
                            let n = (l.as_u64().unwrap_or(0) as usize).min(bytes.len() - i);
                            items.push(ReadItem::Data(bytes[i..i + n].to_vec()));
                            i += n;
                        }
                    }
                    if i < bytes.len() {
                        items.push(ReadItem::Data(bytes[i..].to_vec()));
                    }
                    let (events, eof_io) = run_read(max_frame, max_hls, &items);
                    println!(
                        "{}",
                        json!({"mode": "replay_read", "group": 0, "tag": "replay", "max_frame": max_frame, "max_hls": max_hls,
                               "bytes": jb(&bytes), "lens": chunks_json(&items), "events": events, "eof_io": eof_io})
                    );
                } else {
                    let frames: Vec<WFrame> = v["wframes"].as_array().map(|a| a.iter().map(wframe_from).collect()).unwrap_or_default();
                    let ops: Vec<Value> = v["ops"].as_array().cloned().unwrap_or_default();
                    let script: Vec<TItem> = v["script"].as_array().map(|a| a.iter().map(titem_from).collect()).unwrap_or_default();
                    let out = run_fixed(v["vectored"].as_bool().unwrap_or(false), v["max"].as_u64().unwrap_or(16384) as usize,
                                        &frames, &ops, &script);
                    println!("{}", out);
                }
                cases += 1;
            }
        }
        other => {
            eprintln!("unknown mode {}", other);
            std::process::exit(2);
        }
    }
    println!("{}", json!({"summary": {"mode": mode, "cases": cases, "seed": seed, "distribution": g.dist}}));
}
