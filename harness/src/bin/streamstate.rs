//! Correspondence harness for the per-stream state machine (`/repo/src/proto/streams/state.rs`)
//! through the façade `h2::verif::state::VerifState`.
//!
//!   streamstate --mode enum [--depth D]          exhaustive breadth-first enumeration
//!   streamstate --mode random --seed S --n N [--len L]
//!
//! enum: starting from `new()`, applies every method with every flag combination and a small set of
//! representative payloads (reasons 0, 8, 0xdeadbeef; stream ids 1, 3; initiators User/Library/
//! Remote; error kinds Reset/GoAway/Io; debug data empty/non-empty) to every state found, until no
//! new state (distinct `Debug` string) appears or the depth cap D (default 6) is hit.
//! random: N method sequences of length <= L with random 32-bit reasons, 31-bit stream ids, random
//! debug data.
//!
//! One JSON object per line:
//!   {"kind":"trans","path":[op..],"op":op,"from":"<Debug of state before>",
//!    "state":"<Debug of state after>","res":"<Debug of the result>" | "()" | "panic"}
//!   {"kind":"queries","path":[op..],"state":"<Debug>","q":{"is_closed":"true",..}}
//! where `path` is the op sequence that builds the pre-state from `new()` (ops that panicked are
//! part of the path; they leave the state unchanged).  An op is
//!   {"m":"send_open","eos":b} {"m":"recv_open","eos":b,"info":b} {"m":"reserve_remote"}
//!   {"m":"reserve_local"} {"m":"recv_close"} {"m":"recv_reset","sid":n,"reason":n,"queued":b}
//!   {"m":"handle_error","kind":"Reset","sid":n,"reason":n,"init":"User|Library|Remote"}
//!   {"m":"handle_error","kind":"GoAway","debug":[bytes],"reason":n,"init":..}
//!   {"m":"handle_error","kind":"Io","io":"BrokenPipe|..","msg":null|"text"}
//!   {"m":"recv_eof"} {"m":"send_close"} {"m":"set_reset","sid":n,"reason":n,"init":..}
//!   {"m":"set_scheduled_reset","reason":n}
//! Final line: {"summary":{"states":..,"transitions":..,"closed_under_ops":true|false,..}}.
use h2::proto::Initiator;
use h2::verif::state::{VerifError, VerifState};
use h2verif_harness::{arg_u64, args, json_bytes, Rng};
use std::collections::{BTreeMap, BTreeSet, VecDeque};
use std::io::ErrorKind;
use std::panic::{catch_unwind, AssertUnwindSafe};

#[derive(Clone, Debug)]
enum Op {
    SendOpen(bool),
    RecvOpen(bool, bool),
    ReserveRemote,
    ReserveLocal,
    RecvClose,
    RecvReset(u32, u32, bool),
    HandleError(VerifError),
    RecvEof,
    SendClose,
    SetReset(u32, u32, Initiator),
    SetScheduledReset(u32),
}

fn init_name(i: Initiator) -> &'static str {
    match i {
        Initiator::User => "User",
        Initiator::Library => "Library",
        Initiator::Remote => "Remote",
    }
}

const IO_KINDS: [(ErrorKind, &str); 4] = [
    (ErrorKind::BrokenPipe, "BrokenPipe"),
    (ErrorKind::UnexpectedEof, "UnexpectedEof"),
    (ErrorKind::ConnectionReset, "ConnectionReset"),
    (ErrorKind::Other, "Other"),
];

fn io_name(k: ErrorKind) -> &'static str {
    IO_KINDS.iter().find(|(x, _)| *x == k).map(|(_, n)| *n).unwrap_or("?")
}

fn json_str(s: &str) -> String {
    serde_json::to_string(s).unwrap()
}

impl Op {
    fn name(&self) -> &'static str {
        match self {
            Op::SendOpen(..) => "send_open",
            Op::RecvOpen(..) => "recv_open",
            Op::ReserveRemote => "reserve_remote",
            Op::ReserveLocal => "reserve_local",
            Op::RecvClose => "recv_close",
            Op::RecvReset(..) => "recv_reset",
            Op::HandleError(..) => "handle_error",
            Op::RecvEof => "recv_eof",
            Op::SendClose => "send_close",
            Op::SetReset(..) => "set_reset",
            Op::SetScheduledReset(..) => "set_scheduled_reset",
        }
    }

    fn json(&self) -> String {
        match self {
            Op::SendOpen(eos) => format!("{{\"m\":\"send_open\",\"eos\":{}}}", eos),
            Op::RecvOpen(eos, info) => {
                format!("{{\"m\":\"recv_open\",\"eos\":{},\"info\":{}}}", eos, info)
            }
            Op::ReserveRemote => "{\"m\":\"reserve_remote\"}".to_string(),
            Op::ReserveLocal => "{\"m\":\"reserve_local\"}".to_string(),
            Op::RecvClose => "{\"m\":\"recv_close\"}".to_string(),
            Op::RecvReset(sid, r, q) => format!(
                "{{\"m\":\"recv_reset\",\"sid\":{},\"reason\":{},\"queued\":{}}}",
                sid, r, q
            ),
            Op::HandleError(VerifError::Reset { stream_id, reason, initiator }) => format!(
                "{{\"m\":\"handle_error\",\"kind\":\"Reset\",\"sid\":{},\"reason\":{},\"init\":\"{}\"}}",
                stream_id,
                reason,
                init_name(*initiator)
            ),
            Op::HandleError(VerifError::GoAway { debug, reason, initiator }) => format!(
                "{{\"m\":\"handle_error\",\"kind\":\"GoAway\",\"debug\":{},\"reason\":{},\"init\":\"{}\"}}",
                json_bytes(debug),
                reason,
                init_name(*initiator)
            ),
            Op::HandleError(VerifError::Io { kind, msg }) => format!(
                "{{\"m\":\"handle_error\",\"kind\":\"Io\",\"io\":\"{}\",\"msg\":{}}}",
                io_name(*kind),
                match msg {
                    Some(m) => json_str(m),
                    None => "null".to_string(),
                }
            ),
            Op::RecvEof => "{\"m\":\"recv_eof\"}".to_string(),
            Op::SendClose => "{\"m\":\"send_close\"}".to_string(),
            Op::SetReset(sid, r, i) => format!(
                "{{\"m\":\"set_reset\",\"sid\":{},\"reason\":{},\"init\":\"{}\"}}",
                sid,
                r,
                init_name(*i)
            ),
            Op::SetScheduledReset(r) => format!("{{\"m\":\"set_scheduled_reset\",\"reason\":{}}}", r),
        }
    }

    /// Applies the op; the result rendered, or "panic".
    fn apply(&self, st: &mut VerifState) -> String {
        let r = catch_unwind(AssertUnwindSafe(|| match self {
            Op::SendOpen(eos) => st.send_open(*eos),
            Op::RecvOpen(eos, info) => st.recv_open(*eos, *info),
            Op::ReserveRemote => st.reserve_remote(),
            Op::ReserveLocal => st.reserve_local(),
            Op::RecvClose => st.recv_close(),
            Op::RecvReset(sid, r, q) => {
                st.recv_reset(*sid, *r, *q);
                "()".to_string()
            }
            Op::HandleError(e) => {
                st.handle_error(e);
                "()".to_string()
            }
            Op::RecvEof => {
                st.recv_eof();
                "()".to_string()
            }
            Op::SendClose => {
                st.send_close();
                "()".to_string()
            }
            Op::SetReset(sid, r, i) => {
                st.set_reset(*sid, *r, *i);
                "()".to_string()
            }
            Op::SetScheduledReset(r) => {
                st.set_scheduled_reset(*r);
                "()".to_string()
            }
        }));
        r.unwrap_or_else(|_| "panic".to_string())
    }
}

const REASONS: [u32; 3] = [0, 8, 0xdead_beef];
const SIDS: [u32; 2] = [1, 3];
const INITS: [Initiator; 3] = [Initiator::User, Initiator::Library, Initiator::Remote];

fn all_ops() -> Vec<Op> {
    let mut v = Vec::new();
    for eos in [false, true] {
        v.push(Op::SendOpen(eos));
    }
    for eos in [false, true] {
        for info in [false, true] {
            v.push(Op::RecvOpen(eos, info));
        }
    }
    v.push(Op::ReserveRemote);
    v.push(Op::ReserveLocal);
    v.push(Op::RecvClose);
    for sid in SIDS {
        for r in REASONS {
            for q in [false, true] {
                v.push(Op::RecvReset(sid, r, q));
            }
        }
    }
    for r in REASONS {
        for i in INITS {
            v.push(Op::HandleError(VerifError::Reset { stream_id: 1, reason: r, initiator: i }));
            for debug in [Vec::new(), vec![100u8, 98, 103, 0, 255, 34]] {
                v.push(Op::HandleError(VerifError::GoAway { debug, reason: r, initiator: i }));
            }
        }
    }
    v.push(Op::HandleError(VerifError::Io { kind: ErrorKind::BrokenPipe, msg: None }));
    v.push(Op::HandleError(VerifError::Io {
        kind: ErrorKind::UnexpectedEof,
        msg: Some("eof \"x\"".to_string()),
    }));
    v.push(Op::RecvEof);
    v.push(Op::SendClose);
    for r in REASONS {
        for i in INITS {
            v.push(Op::SetReset(1, r, i));
        }
    }
    for r in REASONS {
        v.push(Op::SetScheduledReset(r));
    }
    v
}

fn path_json(path: &[Op]) -> String {
    let mut s = String::from("[");
    for (i, o) in path.iter().enumerate() {
        if i > 0 {
            s.push(',');
        }
        s.push_str(&o.json());
    }
    s.push(']');
    s
}

fn emit_queries(path: &[Op], st: &VerifState) {
    let q: Vec<(&str, String)> = vec![
        ("get_scheduled_reset", st.get_scheduled_reset()),
        ("is_scheduled_reset", st.is_scheduled_reset().to_string()),
        ("is_local_error", st.is_local_error().to_string()),
        ("is_remote_reset", st.is_remote_reset().to_string()),
        ("is_reset", st.is_reset().to_string()),
        ("is_send_streaming", st.is_send_streaming().to_string()),
        ("is_recv_headers", st.is_recv_headers().to_string()),
        ("is_recv_streaming", st.is_recv_streaming().to_string()),
        ("is_recv_end_stream", st.is_recv_end_stream().to_string()),
        ("is_closed", st.is_closed().to_string()),
        ("is_send_closed", st.is_send_closed().to_string()),
        ("is_idle", st.is_idle().to_string()),
        ("ensure_recv_open", st.ensure_recv_open()),
        ("ensure_reason_streaming", st.ensure_reason(true)),
        ("ensure_reason_awaiting", st.ensure_reason(false)),
    ];
    let mut s = String::from("{");
    for (i, (k, v)) in q.iter().enumerate() {
        if i > 0 {
            s.push(',');
        }
        s.push_str(&format!("{}:{}", json_str(k), json_str(v)));
    }
    s.push('}');
    println!(
        "{{\"kind\":\"queries\",\"path\":{},\"state\":{},\"q\":{}}}",
        path_json(path),
        json_str(&st.state()),
        s
    );
}

struct Stats {
    transitions: u64,
    by_method: BTreeMap<String, u64>,
    by_result: BTreeMap<String, u64>,
}

fn emit_trans(stats: &mut Stats, path: &[Op], op: &Op, st: &VerifState) -> VerifState {
    let mut next = st.clone();
    let res = op.apply(&mut next);
    println!(
        "{{\"kind\":\"trans\",\"path\":{},\"op\":{},\"from\":{},\"state\":{},\"res\":{}}}",
        path_json(path),
        op.json(),
        json_str(&st.state()),
        json_str(&next.state()),
        json_str(&res)
    );
    stats.transitions += 1;
    *stats.by_method.entry(op.name().to_string()).or_insert(0) += 1;
    let class = if res == "panic" {
        "panic"
    } else if res.starts_with("Err") {
        "err"
    } else {
        "ok"
    };
    *stats.by_result.entry(class.to_string()).or_insert(0) += 1;
    next
}

fn map_json(m: &BTreeMap<String, u64>) -> String {
    let mut s = String::from("{");
    for (i, (k, v)) in m.iter().enumerate() {
        if i > 0 {
            s.push(',');
        }
        s.push_str(&format!("{}:{}", json_str(k), v));
    }
    s.push('}');
    s
}

fn run_enum(depth_cap: u64) {
    let ops = all_ops();
    let mut stats = Stats { transitions: 0, by_method: BTreeMap::new(), by_result: BTreeMap::new() };
    let mut seen: BTreeSet<String> = BTreeSet::new();
    let mut queue: VecDeque<(VerifState, Vec<Op>)> = VecDeque::new();
    let start = VerifState::new();
    seen.insert(start.state());
    queue.push_back((start, Vec::new()));
    let mut unexpanded = 0u64;
    let mut max_depth = 0usize;
    while let Some((st, path)) = queue.pop_front() {
        max_depth = max_depth.max(path.len());
        emit_queries(&path, &st);
        for op in &ops {
            let next = emit_trans(&mut stats, &path, op, &st);
            let key = next.state();
            if !seen.contains(&key) {
                if (path.len() as u64) < depth_cap {
                    seen.insert(key);
                    let mut p = path.clone();
                    p.push(op.clone());
                    queue.push_back((next, p));
                } else {
                    unexpanded += 1;
                }
            }
        }
    }
    println!(
        "{{\"summary\":{{\"mode\":\"enum\",\"states\":{},\"transitions\":{},\"ops_per_state\":{},\"max_depth\":{},\"depth_cap\":{},\"closed_under_ops\":{},\"by_method\":{},\"by_result\":{}}}}}",
        seen.len(),
        stats.transitions,
        ops.len(),
        max_depth,
        depth_cap,
        unexpanded == 0,
        map_json(&stats.by_method),
        map_json(&stats.by_result)
    );
}

fn random_init(rng: &mut Rng) -> Initiator {
    *rng.pick(&INITS)
}

fn random_reason(rng: &mut Rng) -> u32 {
    match rng.below(4) {
        0 => rng.below(14) as u32,
        1 => *rng.pick(&[0u32, 1, 8, 13, 14, 0x7fff_ffff, 0x8000_0000, 0xffff_ffff]),
        _ => rng.next_u64() as u32,
    }
}

fn random_sid(rng: &mut Rng) -> u32 {
    match rng.below(3) {
        0 => rng.range(1, 9) as u32,
        1 => 0x7fff_ffff,
        _ => (rng.next_u64() as u32) & 0x7fff_ffff,
    }
}

fn random_op(rng: &mut Rng) -> Op {
    match rng.below(14) {
        0 | 1 => Op::SendOpen(rng.chance(1, 2)),
        2 | 3 => Op::RecvOpen(rng.chance(1, 2), rng.chance(1, 3)),
        4 => Op::ReserveRemote,
        5 => Op::ReserveLocal,
        6 => Op::RecvClose,
        7 | 8 => Op::RecvReset(random_sid(rng), random_reason(rng), rng.chance(1, 2)),
        9 => match rng.below(3) {
            0 => Op::HandleError(VerifError::Reset {
                stream_id: random_sid(rng),
                reason: random_reason(rng),
                initiator: random_init(rng),
            }),
            1 => {
                let n = rng.below(9) as usize;
                Op::HandleError(VerifError::GoAway {
                    debug: rng.bytes(n),
                    reason: random_reason(rng),
                    initiator: random_init(rng),
                })
            }
            _ => {
                let kind = rng.pick(&IO_KINDS).0;
                let msg = if rng.chance(1, 2) {
                    None
                } else {
                    let n = rng.below(6) as usize;
                    Some((0..n).map(|_| (b' ' + rng.below(95) as u8) as char).collect())
                };
                Op::HandleError(VerifError::Io { kind, msg })
            }
        },
        10 => Op::RecvEof,
        11 => Op::SendClose,
        12 => Op::SetReset(random_sid(rng), random_reason(rng), random_init(rng)),
        _ => Op::SetScheduledReset(random_reason(rng)),
    }
}

fn run_random(seed: u64, n: u64, len: u64) {
    let mut rng = Rng::new(seed);
    let mut stats = Stats { transitions: 0, by_method: BTreeMap::new(), by_result: BTreeMap::new() };
    let mut seen: BTreeSet<String> = BTreeSet::new();
    for _ in 0..n {
        let mut st = VerifState::new();
        let mut path: Vec<Op> = Vec::new();
        let l = rng.range(1, len);
        for _ in 0..l {
            let op = random_op(&mut rng);
            st = emit_trans(&mut stats, &path, &op, &st);
            seen.insert(st.state());
            path.push(op);
        }
        emit_queries(&path, &st);
    }
    println!(
        "{{\"summary\":{{\"mode\":\"random\",\"seed\":{},\"sequences\":{},\"states\":{},\"transitions\":{},\"closed_under_ops\":false,\"by_method\":{},\"by_result\":{}}}}}",
        seed,
        n,
        seen.len(),
        stats.transitions,
        map_json(&stats.by_method),
        map_json(&stats.by_result)
    );
}

fn main() {
    std::panic::set_hook(Box::new(|_| {}));
    let a = args();
    let mode = a.get("mode").cloned().unwrap_or_else(|| "enum".to_string());
    match mode.as_str() {
        "enum" => run_enum(arg_u64(&a, "depth", 6)),
        "random" => run_random(arg_u64(&a, "seed", 1), arg_u64(&a, "n", 200), arg_u64(&a, "len", 8).max(1)),
        other => {
            eprintln!("unknown mode {}", other);
            std::process::exit(2);
        }
    }
}
