//! coop: waker-only executor with a cooperative closure (the implementation side of property C06).
//!
//!   coop --seed S --n N --steps K --profile P --role client|server|both [--first I] [--budget B] [--trace 1]
//!   coop --replay file.json        (re-run: phase-1 op list of the file, then the closure with the recorded closure seed)
//!
//! Phase 1: a generated scenario prefix (any generator profile: windows lowered / raised mid-connection, tiny windows,
//!          concurrency limits, blocked writes, resets, ...), polls are issued freely (spurious polls are legal).
//! Phase 2: *cooperative closure*.  The transport accepts and delivers everything; the scripted peer acknowledges
//!          SETTINGS / PING, grants WINDOW_UPDATE for every DATA byte it received (and keeps the endpoint's send windows
//!          positive), answers every request and finishes every message it owes, strictly within the windows and limits
//!          the endpoint advertised (a ledger rebuilt from the wire only); the local application reads every body and
//!          releases what it reads, submits what it still has to send through reserve_capacity / poll_capacity /
//!          send_data, answers every accepted request.  A TASK IS POLLED ONLY IF ITS WAKER FIRED SINCE ITS LAST POLL
//!          (one free first poll per application task at the start of the closure; none for the connection task unless
//!          its owner called a connection-level API).  Random fair order, until quiescence or a step budget.
//! Oracle at quiescence: no application operation still Pending, no bytes in flight, no owed credit withheld from the
//!          peer, no work left in the queues of the statistics snapshot, every submitted body written, every received
//!          body delivered.  Budget exhausted while the connection task keeps waking itself without consuming input or
//!          producing output: livelock.
//!
//! Output: one JSON object per scenario {"seed","i","profile","cfg","closure_seed","phase1":[ops],"closure":[ops],
//!          "verdict":{...},"violations":[...]} (+ "trace" with --trace 1), then {"summary":{...}}.

use h2verif_harness::driver::{self, Config, Driver, Endpoint, K_CAP, K_DATA, K_PUSH, K_RESP, K_TRAILERS, T_PONG, T_READY};
use h2verif_harness::{arg_u64, args, gen, wire, Rng};
use serde_json::{json, Value};
use std::collections::BTreeMap;
use std::sync::atomic::Ordering;

const MAXW: i64 = 0x7fff_ffff;

#[derive(Clone, Debug, Default)]
struct LStream {
    sid: u32,
    by_peer: bool,
    peer_head_sent: bool,
    peer_open: bool,
    ep_open: bool,
    ep_head_seen: bool,
    reset: bool,
    /// credit the peer has for sending DATA to the endpoint on this stream
    peer_win: i64,
    peer_sent: u64,
    /// DATA frame payload octets received from the endpoint
    ep_recv: u64,
    /// WINDOW_UPDATE increments the peer sent for this stream
    ep_granted: i64,
    ungranted: u64,
    body_left: Option<u64>,
    /// content-length the peer declared for its message on this stream
    cl: Option<u64>,
}

struct Ledger {
    client: bool,
    streams: BTreeMap<u32, LStream>,
    peer_conn_win: i64,
    /// endpoint's SETTINGS_INITIAL_WINDOW_SIZE in force at the endpoint (acknowledged)
    ep_iw_applied: i64,
    /// values of SETTINGS frames the endpoint wrote and the peer has not acknowledged yet
    pending_ep_settings: Vec<Option<i64>>,
    /// SETTINGS_INITIAL_WINDOW_SIZE / MAX_CONCURRENT_STREAMS the peer announced last
    peer_iw: i64,
    peer_mcs: Option<u32>,
    ep_conn_recv: u64,
    ep_conn_granted: i64,
    conn_ungranted: u64,
    settings_to_ack: u32,
    pings_to_ack: Vec<[u8; 8]>,
    ep_goaway: Option<u32>,
    peer_goaway: Option<u32>,
    /// the scripted peer itself violated the protocol in phase 1 (chaos frames): the closure keeps the transport and the
    /// acknowledgements cooperative but sends nothing else
    tainted: bool,
    target_window: i64,
    conn_api_since_poll: bool,
    ping_outstanding: bool,
    seen: usize,
}

impl Ledger {
    fn new(cfg: &Config) -> Ledger {
        let mut l = Ledger {
            client: cfg.role_client,
            streams: BTreeMap::new(),
            peer_conn_win: 65535,
            ep_iw_applied: 65535,
            pending_ep_settings: vec![],
            peer_iw: 65535,
            peer_mcs: None,
            ep_conn_recv: 0,
            ep_conn_granted: 0,
            conn_ungranted: 0,
            settings_to_ack: 0,
            pings_to_ack: vec![],
            ep_goaway: None,
            peer_goaway: None,
            tainted: false,
            target_window: cfg.initial_connection_window_size.map(|v| v as i64).unwrap_or(65535),
            conn_api_since_poll: false,
            ping_outstanding: false,
            seen: 0,
        };
        for (id, v) in &cfg.peer_settings {
            if *id == 4 {
                l.peer_iw = *v as i64;
            }
            if *id == 3 {
                l.peer_mcs = Some(*v);
            }
        }
        l
    }

    fn local_init(&self, sid: u32) -> bool {
        if self.client {
            sid % 2 == 1
        } else {
            sid % 2 == 0
        }
    }

    fn on_peer_what(&mut self, w: &Value) {
        if w.get("chaos").is_some() {
            self.tainted = true;
            return;
        }
        let sid = w["sid"].as_u64().unwrap_or(0) as u32;
        match w["t"].as_str().unwrap_or("") {
            "SETTINGS" => {
                if w["ack"].as_bool() == Some(true) {
                    if self.pending_ep_settings.is_empty() {
                        self.tainted = true; // stray acknowledgement
                    } else {
                        let v = self.pending_ep_settings.remove(0);
                        self.settings_to_ack = self.settings_to_ack.saturating_sub(1);
                        if let Some(iw) = v {
                            let delta = iw - self.ep_iw_applied;
                            self.ep_iw_applied = iw;
                            for s in self.streams.values_mut() {
                                s.peer_win += delta;
                            }
                        }
                    }
                } else if let Some(ps) = w["params"].as_array() {
                    for p in ps {
                        let id = p[0].as_u64().unwrap_or(0);
                        let v = p[1].as_u64().unwrap_or(0);
                        if id == 4 {
                            if v as i64 > MAXW {
                                self.tainted = true;
                            }
                            self.peer_iw = v as i64;
                        }
                        if id == 3 {
                            self.peer_mcs = Some(v as u32);
                        }
                        if id == 2 && v > 1 {
                            self.tainted = true;
                        }
                        if id == 5 && !(16384..=16777215).contains(&v) {
                            self.tainted = true;
                        }
                    }
                }
            }
            "PING" => {
                if w["ack"].as_bool() == Some(true) {
                    if !self.pings_to_ack.is_empty() {
                        self.pings_to_ack.remove(0);
                    }
                }
            }
            "HEADERS" => {
                let eos = w["eos"].as_bool() == Some(true);
                let info = w["info"].as_bool() == Some(true);
                if !self.streams.contains_key(&sid) {
                    if !self.local_init(sid) {
                        // a request opened by the peer (server role)
                        let iw = self.ep_iw_applied;
                        self.streams.insert(sid, LStream { sid, by_peer: true, peer_head_sent: true, peer_open: !eos, ep_open: true, peer_win: iw, cl: w["cl"].as_u64(), ..Default::default() });
                    } else {
                        self.tainted = true;
                    }
                    return;
                }
                let s = self.streams.get_mut(&sid).unwrap();
                if info {
                    return;
                }
                if !s.peer_head_sent {
                    s.peer_head_sent = true;
                }
                if eos {
                    s.peer_open = false;
                }
            }
            "PUSH_PROMISE" => {
                let promised = w["promised"].as_u64().unwrap_or(0) as u32;
                let iw = self.ep_iw_applied;
                self.streams.insert(promised, LStream { sid: promised, by_peer: true, peer_head_sent: false, peer_open: true, ep_open: false, peer_win: iw, ..Default::default() });
            }
            "DATA" => {
                let len = w["len"].as_u64().unwrap_or(0);
                let pad = w["pad"].as_u64().map(|p| p + 1).unwrap_or(0);
                let eos = w["eos"].as_bool() == Some(true);
                let cost = (len + pad) as i64;
                self.peer_conn_win -= cost;
                if let Some(s) = self.streams.get_mut(&sid) {
                    s.peer_win -= cost;
                    s.peer_sent += len;
                    if eos {
                        s.peer_open = false;
                    }
                    if s.peer_win < 0 {
                        self.tainted = true;
                    }
                }
                if self.peer_conn_win < 0 {
                    self.tainted = true;
                }
            }
            "WINDOW_UPDATE" => {
                let inc = w["inc"].as_i64().unwrap_or(0);
                if sid == 0 {
                    self.ep_conn_granted += inc;
                } else if let Some(s) = self.streams.get_mut(&sid) {
                    s.ep_granted += inc;
                }
            }
            "RST_STREAM" => {
                if let Some(s) = self.streams.get_mut(&sid) {
                    s.reset = true;
                    s.peer_open = false;
                }
            }
            "GOAWAY" => {
                let last = w["last"].as_u64().unwrap_or(0) as u32;
                self.peer_goaway = Some(last);
                let client = self.client;
                for s in self.streams.values_mut() {
                    let li = if client { s.sid % 2 == 1 } else { s.sid % 2 == 0 };
                    if li && s.sid > last {
                        s.reset = true;
                    }
                }
            }
            _ => {}
        }
    }

    fn on_out(&mut self, f: &Value) {
        let sid = f["sid"].as_u64().unwrap_or(0) as u32;
        match f["t"].as_str().unwrap_or("") {
            "SETTINGS" => {
                if f["ack"].as_bool() != Some(true) {
                    self.settings_to_ack += 1;
                    let mut iw = None;
                    if let Some(ps) = f["params"].as_array() {
                        for p in ps {
                            if p[0].as_u64() == Some(4) {
                                iw = p[1].as_i64();
                            }
                        }
                    }
                    self.pending_ep_settings.push(iw);
                }
            }
            "PING" => {
                if f["ack"].as_bool() != Some(true) {
                    let mut a = [0u8; 8];
                    if let Some(p) = f["payload"].as_array() {
                        for (i, b) in p.iter().take(8).enumerate() {
                            a[i] = b.as_u64().unwrap_or(0) as u8;
                        }
                    }
                    self.pings_to_ack.push(a);
                }
            }
            "WINDOW_UPDATE" => {
                let inc = f["inc"].as_i64().unwrap_or(0);
                if sid == 0 {
                    self.peer_conn_win += inc;
                } else if let Some(s) = self.streams.get_mut(&sid) {
                    s.peer_win += inc;
                }
            }
            "HEADERS" => {
                let eos = f["eos"].as_bool() == Some(true);
                let interim = f["fields"].as_array().map(|a| a.iter().any(|p| p[0].as_str() == Some(":status") && p[1].as_str().map(|s| s.starts_with('1')).unwrap_or(false))).unwrap_or(false);
                let li = self.local_init(sid);
                let iw = self.ep_iw_applied;
                match self.streams.get_mut(&sid) {
                    Some(s) => {
                        if !interim {
                            s.ep_head_seen = true;
                        }
                        if eos {
                            s.ep_open = false;
                        }
                    }
                    None => {
                        if li {
                            self.streams.insert(sid, LStream { sid, by_peer: false, peer_head_sent: false, peer_open: true, ep_open: !eos, ep_head_seen: true, peer_win: iw, ..Default::default() });
                        }
                    }
                }
            }
            "PUSH_PROMISE" => {
                let promised = f["promised"].as_u64().unwrap_or(0) as u32;
                self.streams.insert(promised, LStream { sid: promised, by_peer: false, peer_head_sent: true, peer_open: false, ep_open: true, ep_head_seen: false, peer_win: 0, ..Default::default() });
            }
            "DATA" => {
                let n = f["flen"].as_u64().unwrap_or(0);
                self.ep_conn_recv += n;
                self.conn_ungranted += n;
                if let Some(s) = self.streams.get_mut(&sid) {
                    s.ep_recv += n;
                    s.ungranted += n;
                    if f["eos"].as_bool() == Some(true) {
                        s.ep_open = false;
                    }
                }
            }
            "RST_STREAM" => {
                if let Some(s) = self.streams.get_mut(&sid) {
                    s.reset = true;
                    s.ep_open = false;
                    s.peer_open = false;
                }
            }
            "GOAWAY" => {
                let last = f["last"].as_i64().unwrap_or(0).max(0) as u32;
                self.ep_goaway = Some(last);
                for s in self.streams.values_mut() {
                    if s.by_peer && s.sid > last {
                        s.reset = true;
                    }
                }
            }
            _ => {}
        }
    }

    fn observe(&mut self, d: &Driver) {
        while self.seen < d.trace.len() {
            let st = &d.trace[self.seen];
            self.seen += 1;
            let op = &st["op"];
            match op["op"].as_str().unwrap_or("") {
                "peer" => {
                    let w = op["what"].clone();
                    self.on_peer_what(&w);
                }
                "set_target_window" => {
                    self.target_window = op["n"].as_i64().unwrap_or(65535);
                    self.conn_api_since_poll = true;
                }
                "set_initial_window" | "graceful_shutdown" | "abrupt_shutdown" => self.conn_api_since_poll = true,
                "conn_poll" | "poll_accept" => self.conn_api_since_poll = false,
                "send_ping" => {
                    if st["res"].as_str() == Some("ok") {
                        self.ping_outstanding = true;
                    }
                }
                "poll_pong" => {
                    if st["res"].as_str() != Some("Pending") {
                        self.ping_outstanding = false;
                    }
                }
                "drop_ping_pong" => self.ping_outstanding = false,
                _ => {}
            }
            if let Some(out) = st["out"].as_array() {
                let out = out.clone();
                for f in &out {
                    self.on_out(f);
                }
            }
        }
    }

    fn ep_stream_credit(&self, s: &LStream) -> i64 {
        self.peer_iw + s.ep_granted - s.ep_recv as i64
    }
    fn ep_conn_credit(&self) -> i64 {
        65535 + self.ep_conn_granted - self.ep_conn_recv as i64
    }
}

#[derive(Clone, Debug, PartialEq)]
enum Kind {
    Resp,
    PushedResp,
    Body,
    Trailers,
    Send,
    Ready(usize),
    Push,
    Pong,
}

#[derive(Clone, Debug)]
struct ATask {
    id: u32,
    h: usize,
    kind: Kind,
    done: bool,
    last: Value,
    remaining: u64,
    polls: u32,
}

#[derive(Clone, Debug)]
enum PeerAct {
    AckSettings,
    AckPing,
    RaiseMcs,
    GrantConn(u32),
    GrantStream(u32, u32),
    Head(u32),
    Data(u32),
}

struct Closure<'a> {
    d: &'a mut Driver,
    rng: Rng,
    led: Ledger,
    tasks: Vec<ATask>,
    ops: Vec<Value>,
    violations: Vec<Value>,
    raised_mcs: bool,
    lowered_window: bool,
    conn_wake_reported: bool,
    steps: usize,
    abandoned: u32,
}

fn conn_alive(d: &Driver) -> bool {
    let has = match &d.ep {
        Endpoint::Client { conn, .. } => conn.is_some(),
        Endpoint::Server { conn } => conn.is_some(),
    };
    has && d.conn_done.is_none() && !d.poisoned
}

impl<'a> Closure<'a> {
    fn exec(&mut self, op: Value) -> Value {
        self.ops.push(op.clone());
        self.steps += 1;
        let r = self.d.exec(&op);
        self.led.observe(self.d);
        self.check_conn_woken(&op);
        r
    }

    /// "the connection task is woken whenever a handle gives it work": after every step of the closure, if the connection
    /// task is parked (its waker is still stored in Actions.task, nobody took it), its waker has not fired, the transport
    /// is not blocking, and the statistics snapshot shows work only the connection task can do, the wake was lost.
    fn check_conn_woken(&mut self, op: &Value) {
        if self.conn_wake_reported || !conn_alive(self.d) || self.d.conn_woken() || self.led.tainted {
            return;
        }
        {
            let p = self.d.pipe.0.borrow();
            if p.write_waker.is_some() || p.eof || p.read_fail || p.shutdown || !p.inbound.is_empty() {
                return;
            }
        }
        let s = match self.d.snapshot() {
            Some(s) => s,
            None => return,
        };
        let sj = driver::snap_json(&s);
        if sj["conn"]["conn_task"].as_i64() != Some(1) || sj["conn"]["conn_error"].as_i64() == Some(1) {
            return;
        }
        let by_id: BTreeMap<u64, Value> = sj["streams"].as_array().map(|a| a.iter().filter(|x| x["linked"].as_i64() == Some(1)).map(|x| (x["id"].as_u64().unwrap_or(0), x.clone())).collect()).unwrap_or_default();
        let q = &sj["queues"];
        let ids = |name: &str| -> Vec<u64> { q[name].as_array().map(|a| a.iter().filter_map(|x| x.as_u64()).collect()).unwrap_or_default() };
        let sendable: Vec<u64> = ids("pending_send").into_iter().filter(|id| by_id.get(id).map(|x| {
            x["pending_send_len"].as_i64().unwrap_or(0) > 0 && x["is_pending_open"].as_i64() == Some(0) && x["is_pending_push"].as_i64() == Some(0) &&
                (x["buffered_send_data"].as_i64() == Some(0) || x["send_available"].as_i64().unwrap_or(0) > 0)
        }).unwrap_or(false)).collect();
        let wu = ids("pending_window_updates");
        let num = sj["conn"]["num_send_streams"].as_i64().unwrap_or(0);
        let max = sj["conn"]["max_send_streams"].as_i64().unwrap_or(i64::MAX);
        let po: Vec<u64> = if num < max { ids("pending_open") } else { vec![] };
        if sendable.is_empty() && wu.is_empty() && po.is_empty() {
            return;
        }
        self.conn_wake_reported = true;
        let mut o = op.clone();
        if let Some(m) = o.as_object_mut() {
            m.remove("bytes");
        }
        self.violations.push(json!({"kind":"connection-not-woken","after_op":o,"closure_step":self.steps,"pending_send_sendable":sendable,
            "pending_window_updates":wu,"pending_open_with_free_slot":po,
            "why":"a handle queued work for the connection task while that task was parked (Actions.task still holds its waker) and did not wake it"}));
    }

    fn add_task(&mut self, h: usize, kind: Kind) {
        let id = match &kind {
            Kind::Resp | Kind::PushedResp => 100 + 8 * h as u32 + K_RESP,
            Kind::Body => 100 + 8 * h as u32 + K_DATA,
            Kind::Trailers => 100 + 8 * h as u32 + K_TRAILERS,
            Kind::Send => 100 + 8 * h as u32 + K_CAP,
            Kind::Push => 100 + 8 * h as u32 + K_PUSH,
            Kind::Ready(i) => T_READY + 1000 * *i as u32,
            Kind::Pong => T_PONG,
        };
        if self.tasks.iter().any(|t| t.id == id && t.kind == kind && !t.done) {
            return;
        }
        let remaining = if kind == Kind::Send {
            match self.rng.below(6) {
                0 => 0,
                1 | 2 => self.rng.range(1, 40),
                3 | 4 => self.rng.range(1, 1500),
                _ => self.rng.range(1000, 40000),
            }
        } else {
            0
        };
        // one free first poll: the application (re)starts the task
        let t = self.d.task(id);
        t.flag.woken.store(true, Ordering::SeqCst);
        self.tasks.push(ATask { id, h, kind, done: false, last: json!(null), remaining, polls: 0 });
    }

    fn init_tasks(&mut self) {
        let nh = self.d.handles.len();
        for h in 0..nh {
            let (resp, pushed_resp, recv, recv_done, send, send_done, respond, pushed_respond, pushes) = {
                let x = &self.d.handles[h];
                (x.resp.is_some(), x.pushed_resp.is_some(), x.recv.is_some(), x.recv_done, x.send.is_some(), x.send_done, x.respond.is_some(), x.pushed_respond.is_some(), x.pushes.is_some())
            };
            if resp {
                self.add_task(h, Kind::Resp);
            }
            if pushed_resp {
                self.add_task(h, Kind::PushedResp);
            }
            if recv && !recv_done {
                self.add_task(h, Kind::Body);
            }
            if send || respond || pushed_respond {
                self.add_task(h, Kind::Send);
                if send_done {
                    if let Some(t) = self.tasks.last_mut() {
                        t.remaining = 0;
                    }
                }
            }
            if pushes {
                self.add_task(h, Kind::Push);
            }
        }
        let srs: Vec<usize> = if let Endpoint::Client { sr, .. } = &self.d.ep { sr.iter().enumerate().filter(|(_, s)| s.is_some()).map(|(i, _)| i).collect() } else { vec![] };
        for i in srs {
            self.add_task(0, Kind::Ready(i));
        }
        if self.d.ping_pong.is_some() && self.led.ping_outstanding {
            self.add_task(0, Kind::Pong);
        }
        // a cooperating application does not sit on handles it is done with
        for h in 0..nh {
            let (recv_done, has_recv, has_fc, unreleased) = { let x = &self.d.handles[h]; (x.recv_done, x.recv.is_some(), x.recv_fc.is_some(), x.unreleased) };
            if (has_recv && recv_done) || (!has_recv && has_fc) {
                if unreleased > 0 {
                    self.exec(json!({"op":"release","h":h,"n":unreleased}));
                }
                self.exec(json!({"op":"drop_recv","h":h}));
                self.exec(json!({"op":"drop_fc","h":h}));
            }
        }
        // the application gives back reservations it does not need right now (a bare reserve_capacity, nothing else)
        for h in 0..nh {
            let open = { let x = &self.d.handles[h]; x.send.is_some() && !x.send_done };
            if open && self.rng.chance(1, 3) {
                let n = *self.rng.pick(&[0u64, 0, 1, 10, 100]);
                self.exec(json!({"op":"reserve","h":h,"n":n}));
            }
        }
        // peer bodies still owed
        let tiny = self.led.ep_iw_applied < 300;
        let sids: Vec<u32> = self.led.streams.keys().copied().collect();
        for sid in sids {
            let n = if tiny || self.rng.chance(1, 3) { self.rng.range(0, 40) } else { self.rng.range(0, 5000) };
            let cap = 40 * (self.led.ep_iw_applied.max(1) as u64);
            let (cl, sent) = { let s = &self.led.streams[&sid]; (s.cl, s.peer_sent) };
            let left = match cl {
                // a declared content-length is honoured exactly
                Some(c) if c >= sent => c - sent,
                Some(_) => {
                    self.led.tainted = true;
                    0
                }
                None => n.min(cap),
            };
            self.led.streams.get_mut(&sid).unwrap().body_left = Some(left);
        }
    }

    fn runnable_tasks(&mut self) -> Vec<usize> {
        let mut v = vec![];
        for i in 0..self.tasks.len() {
            if self.tasks[i].done {
                continue;
            }
            let id = self.tasks[i].id;
            if self.d.task(id).is_woken() {
                v.push(i);
            }
        }
        v
    }

    fn conn_runnable(&self) -> bool {
        conn_alive(self.d) && (self.d.conn_woken() || self.led.conn_api_since_poll)
    }

    fn peer_actions(&mut self) -> Vec<PeerAct> {
        let mut v = vec![];
        let l = &self.led;
        if l.settings_to_ack > 0 && !l.pending_ep_settings.is_empty() {
            v.push(PeerAct::AckSettings);
        }
        if !l.pings_to_ack.is_empty() {
            v.push(PeerAct::AckPing);
        }
        if l.tainted {
            return v;
        }
        if !conn_alive(self.d) || l.ep_goaway.is_some() && l.streams.values().all(|s| s.reset || (!s.peer_open && !s.ep_open)) {
            return v;
        }
        let io_dead = {
            let p = self.d.pipe.0.borrow();
            p.eof || p.read_fail || p.shutdown
        };
        if io_dead {
            return v;
        }
        if l.peer_mcs == Some(0) && !self.raised_mcs {
            v.push(PeerAct::RaiseMcs);
        }
        let any_ep_open = l.streams.values().any(|s| s.ep_open && !s.reset);
        let cc = l.ep_conn_credit();
        if l.conn_ungranted > 0 && cc + (l.conn_ungranted as i64) <= MAXW {
            let extra: i64 = if cc + (l.conn_ungranted as i64) < 1000 { 16384 } else { 0 };
            v.push(PeerAct::GrantConn((l.conn_ungranted as i64 + extra) as u32));
        } else if cc <= 0 && any_ep_open {
            v.push(PeerAct::GrantConn((16384 - cc).min(MAXW) as u32));
        }
        for s in l.streams.values() {
            if s.reset {
                continue;
            }
            if s.ep_open {
                let c = l.ep_stream_credit(s);
                if s.ungranted > 0 && c + (s.ungranted as i64) <= MAXW {
                    // every received byte is re-granted; a small window is topped up as well so that large bodies finish
                    let extra: i64 = if c + (s.ungranted as i64) < 1000 { 16384 } else { 0 };
                    v.push(PeerAct::GrantStream(s.sid, (s.ungranted as i64 + extra) as u32));
                } else if c <= 0 {
                    v.push(PeerAct::GrantStream(s.sid, (1000 - c).min(MAXW) as u32));
                }
            }
            if l.client && s.peer_open && !s.peer_head_sent && (s.ep_head_seen || s.by_peer) {
                v.push(PeerAct::Head(s.sid));
            }
            if s.peer_open && s.peer_head_sent {
                let left = s.body_left.unwrap_or(0);
                if left == 0 || (s.peer_win > 0 && l.peer_conn_win > 0) {
                    v.push(PeerAct::Data(s.sid));
                }
            }
        }
        v
    }

    fn do_peer(&mut self, a: PeerAct) {
        match a {
            PeerAct::AckSettings => {
                self.exec(json!({"op":"peer","what":{"t":"SETTINGS","ack":true},"bytes":wire::settings_ack()}));
            }
            PeerAct::AckPing => {
                let p = self.led.pings_to_ack[0];
                self.exec(json!({"op":"peer","what":{"t":"PING","ack":true},"bytes":wire::ping(true, p)}));
            }
            PeerAct::RaiseMcs => {
                self.raised_mcs = true;
                self.exec(json!({"op":"peer","what":{"t":"SETTINGS","params":[[3, 2]]},"bytes":wire::settings(&[(3, 2)])}));
            }
            PeerAct::GrantConn(inc) => {
                self.led.conn_ungranted = 0;
                self.exec(json!({"op":"peer","what":{"t":"WINDOW_UPDATE","sid":0,"inc":inc},"bytes":wire::window_update(0, inc)}));
            }
            PeerAct::GrantStream(sid, inc) => {
                if let Some(s) = self.led.streams.get_mut(&sid) {
                    s.ungranted = 0;
                }
                self.exec(json!({"op":"peer","what":{"t":"WINDOW_UPDATE","sid":sid,"inc":inc},"bytes":wire::window_update(sid, inc)}));
            }
            PeerAct::Head(sid) => {
                let left = self.led.streams[&sid].body_left.unwrap_or(0);
                let eos = left == 0 && self.rng.chance(1, 2);
                let block = wire::hpack_literal(&[(b":status".to_vec(), b"200".to_vec())]);
                self.exec(json!({"op":"peer","what":{"t":"HEADERS","sid":sid,"eos":eos},"bytes":wire::headers(sid, &block, eos, 0)}));
            }
            PeerAct::Data(sid) => {
                let (left, win, off) = {
                    let s = &self.led.streams[&sid];
                    (s.body_left.unwrap_or(0), s.peer_win.min(self.led.peer_conn_win).max(0) as u64, s.peer_sent)
                };
                if left == 0 {
                    if self.rng.chance(1, 4) {
                        let block = wire::hpack_literal(&[(b"x-trailer".to_vec(), b"v".to_vec())]);
                        self.exec(json!({"op":"peer","what":{"t":"HEADERS","sid":sid,"eos":true,"trailers":true},"bytes":wire::headers(sid, &block, true, 0)}));
                    } else {
                        self.exec(json!({"op":"peer","what":{"t":"DATA","sid":sid,"len":0,"eos":true,"pad":null},"bytes":wire::data(sid, &[], true, None)}));
                    }
                    return;
                }
                let chunk = left.min(win).min(self.rng.range(1, 3000)).min(16000);
                let eos = chunk == left && self.rng.chance(1, 2);
                let body: Vec<u8> = (0..chunk).map(|k| driver::pattern(sid, 1, off + k)).collect();
                self.led.streams.get_mut(&sid).unwrap().body_left = Some(left - chunk);
                self.exec(json!({"op":"peer","what":{"t":"DATA","sid":sid,"len":chunk,"eos":eos,"pad":null},"bytes":wire::data(sid, &body, eos, None)}));
            }
        }
    }

    fn self_wake(&mut self, id: u32) {
        self.d.task(id).flag.woken.store(true, Ordering::SeqCst);
    }

    fn is_err(v: &Value) -> bool {
        v.as_str().map(|s| s.starts_with("E(") || s == "no-handle").unwrap_or(false) || v.get("panic").is_some()
    }

    fn run_task(&mut self, ti: usize) {
        self.run_task_inner(ti);
        // a finished task drops the handle it owned (a cooperating application does not sit on finished streams)
        if self.tasks[ti].done {
            let h = self.tasks[ti].h;
            match self.tasks[ti].kind {
                Kind::Trailers => {
                    self.exec(json!({"op":"drop_recv","h":h}));
                    self.exec(json!({"op":"drop_fc","h":h}));
                }
                Kind::Body => {
                    if self.tasks[ti].last.as_str() != Some("None") {
                        self.exec(json!({"op":"drop_recv","h":h}));
                        self.exec(json!({"op":"drop_fc","h":h}));
                    }
                }
                Kind::Send => {
                    self.exec(json!({"op":"drop_send","h":h}));
                    self.exec(json!({"op":"drop_respond","h":h}));
                }
                Kind::Push => {
                    self.exec(json!({"op":"drop_pushes","h":h}));
                }
                _ => {}
            }
        }
    }

    fn run_task_inner(&mut self, ti: usize) {
        let (h, kind, id) = (self.tasks[ti].h, self.tasks[ti].kind.clone(), self.tasks[ti].id);
        self.tasks[ti].polls += 1;
        match kind {
            Kind::Resp | Kind::PushedResp => {
                let name = if kind == Kind::Resp { "poll_response" } else { "poll_pushed_response" };
                let r = self.exec(json!({"op":name,"h":h}));
                self.tasks[ti].last = r.clone();
                if r.as_str() != Some("Pending") {
                    self.tasks[ti].done = true;
                    if self.d.handles[h].recv.is_some() {
                        self.add_task(h, Kind::Body);
                    }
                }
            }
            Kind::Body => {
                for _ in 0..32 {
                    let r = self.exec(json!({"op":"poll_data","h":h}));
                    self.tasks[ti].last = r.clone();
                    if r.as_str() == Some("Pending") {
                        return;
                    }
                    if r.as_str() == Some("None") {
                        self.tasks[ti].done = true;
                        self.add_task(h, Kind::Trailers);
                        return;
                    }
                    if Self::is_err(&r) {
                        self.tasks[ti].done = true;
                        return;
                    }
                    let n = self.d.handles[h].unreleased;
                    if n > 0 {
                        self.exec(json!({"op":"release","h":h,"n":n}));
                    }
                }
                self.self_wake(id);
            }
            Kind::Trailers => {
                let r = self.exec(json!({"op":"poll_trailers","h":h}));
                self.tasks[ti].last = r.clone();
                if r.as_str() != Some("Pending") {
                    self.tasks[ti].done = true;
                }
            }
            Kind::Send => {
                let (has_send, respond, pushed) = {
                    let x = &self.d.handles[h];
                    (x.send.is_some(), x.respond.is_some(), x.pushed_respond.is_some())
                };
                if !has_send {
                    let eos = self.tasks[ti].remaining == 0;
                    let name = if pushed && !respond { "send_pushed_response" } else { "send_response" };
                    let r = self.exec(json!({"op":name,"h":h,"eos":eos,"status":200}));
                    self.tasks[ti].last = r.clone();
                    if r.as_str() != Some("ok") || eos {
                        self.tasks[ti].done = true;
                        return;
                    }
                }
                for _ in 0..32 {
                    let rem = self.tasks[ti].remaining;
                    if rem == 0 {
                        let r = self.exec(json!({"op":"send_data","h":h,"len":0,"eos":true}));
                        self.tasks[ti].last = r;
                        self.tasks[ti].done = true;
                        return;
                    }
                    let r = self.exec(json!({"op":"reserve","h":h,"n":rem.min(20000)}));
                    if Self::is_err(&r) {
                        self.tasks[ti].last = r;
                        self.tasks[ti].done = true;
                        return;
                    }
                    let c = r["capacity"].as_u64().unwrap_or(0);
                    if c > 0 {
                        // mostly the whole grant; sometimes only part of it, followed by a capacity wait while the rest of
                        // the grant is still unused (a legal program: poll_capacity then parks until capacity GROWS)
                        // (only while the reservation is not yet fully served: otherwise no growth is owed and the program
                        // would be waiting for nothing)
                        let partial = c > 1 && rem > 1 && c < rem.min(20000) && self.rng.chance(1, 2);
                        let n = if partial { 1 + self.rng.below(c.min(rem) - 1) } else { c.min(rem) };
                        let eos = n == rem;
                        let r = self.exec(json!({"op":"send_data","h":h,"len":n,"eos":eos}));
                        self.tasks[ti].last = r.clone();
                        if r.as_str() != Some("ok") {
                            self.tasks[ti].done = true;
                            return;
                        }
                        self.tasks[ti].remaining = rem - n;
                        if eos {
                            self.tasks[ti].done = true;
                            return;
                        }
                        if partial && self.rng.chance(1, 2) {
                            let r = self.exec(json!({"op":"poll_capacity","h":h}));
                            self.tasks[ti].last = r.clone();
                            if r.as_str() == Some("Pending") {
                                return;
                            }
                            if r.as_str() == Some("None") || Self::is_err(&r) {
                                self.tasks[ti].done = true;
                                return;
                            }
                        }
                        continue;
                    }
                    let r = self.exec(json!({"op":"poll_capacity","h":h}));
                    self.tasks[ti].last = r.clone();
                    if r.as_str() == Some("Pending") {
                        return;
                    }
                    if r.as_str() == Some("None") || Self::is_err(&r) {
                        self.tasks[ti].done = true;
                        return;
                    }
                }
                self.self_wake(id);
            }
            Kind::Ready(i) => {
                let r = self.exec(json!({"op":"poll_ready","sr":i}));
                self.tasks[ti].last = r.clone();
                if r.as_str() != Some("Pending") {
                    self.tasks[ti].done = true;
                }
            }
            Kind::Push => {
                let r = self.exec(json!({"op":"poll_push","h":h}));
                self.tasks[ti].last = r.clone();
                if r.as_str() == Some("Pending") {
                    return;
                }
                if let Some(nh) = r["h"].as_u64() {
                    self.add_task(nh as usize, Kind::PushedResp);
                    self.self_wake(id);
                } else {
                    self.tasks[ti].done = true;
                }
            }
            Kind::Pong => {
                let r = self.exec(json!({"op":"poll_pong"}));
                self.tasks[ti].last = r.clone();
                if r.as_str() != Some("Pending") {
                    self.tasks[ti].done = true;
                }
            }
        }
    }

    fn run_conn(&mut self) {
        if self.led.client {
            self.exec(json!({"op":"conn_poll"}));
        } else {
            let r = self.exec(json!({"op":"poll_accept"}));
            if let Some(nh) = r["h"].as_u64() {
                let nh = nh as usize;
                self.add_task(nh, Kind::Send);
                self.add_task(nh, Kind::Body);
                // accept loop: poll again
                self.d.conn_task.flag.woken.store(true, Ordering::SeqCst);
            }
        }
    }

    /// nothing is runnable: is the peer blocked on credit?  returns true when the closure may continue
    fn resolve_blocked(&mut self) -> bool {
        if self.led.tainted || !conn_alive(self.d) {
            return false;
        }
        let mut progressed = false;
        let conn_blocked = self.led.peer_conn_win <= 0;
        let sids: Vec<u32> = self.led.streams.keys().copied().collect();
        let snap = self.d.snapshot();
        let conn_in_flight = snap.as_ref().and_then(|s| s.conn.iter().find(|(k, _)| *k == "recv_in_flight_data").map(|(_, v)| *v)).unwrap_or(-1);
        for sid in sids {
            let s = self.led.streams[&sid].clone();
            if s.reset || !s.peer_open || !s.peer_head_sent || s.body_left.unwrap_or(0) == 0 {
                continue;
            }
            if s.peer_win > 0 && !conn_blocked {
                continue;
            }
            // blocked: legitimate or owed?
            let hd = self.d.handles.iter().find(|x| x.sid == sid);
            let all_delivered = hd.map(|x| x.recv.is_some() && !x.recv_done && x.recv_off == s.peer_sent && x.unreleased == 0).unwrap_or(false);
            if s.peer_win <= 0 && all_delivered && self.led.ep_iw_applied >= 1 && self.led.pending_ep_settings.is_empty() {
                self.violations.push(json!({"kind":"owed-stream-window","sid":sid,"peer_window":s.peer_win,"delivered":s.peer_sent,
                    "initial_window_in_force":self.led.ep_iw_applied,
                    "why":"the application consumed and released every byte of this stream, the endpoint's initial window is positive, yet the peer has no stream credit left and no WINDOW_UPDATE is coming"}));
            } else if s.peer_win > 0 && conn_blocked && conn_in_flight == 0 && self.led.target_window >= 2 {
                self.violations.push(json!({"kind":"owed-connection-window","peer_conn_window":self.led.peer_conn_win,"target_window":self.led.target_window,
                    "why":"no received data is in flight at the endpoint (all released), the target connection window is positive, yet the peer has no connection credit left and no WINDOW_UPDATE is coming"}));
            }
            // give up the rest of this body and end the message
            self.led.streams.get_mut(&sid).unwrap().body_left = Some(0);
            self.abandoned += 1;
            progressed = true;
        }
        progressed
    }

    /// nothing is runnable: a push wait whose parent stream can no longer receive a PUSH_PROMISE is over; if its task was
    /// not told, that is a violation of its own class; the handle is dropped so that the closure can go on
    fn resolve_push_waits(&mut self) -> bool {
        let mut progressed = false;
        for ti in 0..self.tasks.len() {
            if self.tasks[ti].done || self.tasks[ti].kind != Kind::Push {
                continue;
            }
            let h = self.tasks[ti].h;
            let sid = self.d.handles[h].sid;
            let over = !conn_alive(self.d) || self.led.streams.get(&sid).map(|s| !s.peer_open || s.reset).unwrap_or(false);
            if !over {
                continue;
            }
            // the application dropped the receive half of the parent early: h2 then ignores the rest of the peer's message on that
            // stream, END_STREAM included (the `!is_recv` exit of Recv::recv_data, see KF-C03-1), so the stream layer never learns
            // that no PUSH_PROMISE can come any more; not counted, the handle is simply dropped
            let early_drop = { let x = &self.d.handles[h]; x.recv.is_none() && x.resp.is_none() && conn_alive(self.d) };
            if early_drop {
                self.tasks[ti].done = true;
                self.exec(json!({"op":"drop_pushes","h":h}));
                progressed = true;
                continue;
            }
            self.violations.push(json!({"kind":"push-wait-not-woken","h":h,"sid":sid,"task_id":self.tasks[ti].id,"conn_alive":conn_alive(self.d),
                "why":"the parent stream can no longer carry a PUSH_PROMISE (receive side ended / reset / connection gone) and the task parked in poll_push_promise was not woken"}));
            self.tasks[ti].done = true;
            self.exec(json!({"op":"drop_pushes","h":h}));
            progressed = true;
        }
        progressed
    }

    fn run(&mut self, budget: usize) -> Value {
        self.exec(json!({"op":"write_mode","mode":"all"}));
        self.exec(json!({"op":"write_chunk","n":0}));
        self.exec(json!({"op":"read_chunk","n":0}));
        self.init_tasks();
        let mut quiescent = false;
        let mut idle_conn_polls = 0usize;
        let mut max_idle_run = 0usize;
        while self.steps < budget {
            // once per closure, in a third of the runs: the connection's owner lowers SETTINGS_INITIAL_WINDOW_SIZE while bodies are
            // being received and released (the configuration of the repaired window stall F1)
            if !self.lowered_window && self.steps > 25 {
                self.lowered_window = true;
                if self.rng.chance(1, 3) && conn_alive(self.d) && self.led.pending_ep_settings.is_empty() && self.led.ep_iw_applied >= 16 {
                    let n = (self.led.ep_iw_applied / 16).max(1);
                    self.exec(json!({"op":"set_initial_window","n":n}));
                }
            }
            let tasks = self.runnable_tasks();
            let conn = self.conn_runnable();
            let acts = self.peer_actions();
            let n = tasks.len() + acts.len() + if conn { 1 } else { 0 };
            if n == 0 {
                if self.resolve_blocked() || self.resolve_push_waits() {
                    continue;
                }
                quiescent = true;
                break;
            }
            let k = self.rng.below(n as u64) as usize;
            if k < tasks.len() {
                self.run_task(tasks[k]);
                idle_conn_polls = 0;
            } else if k < tasks.len() + acts.len() {
                let a = acts[k - tasks.len()].clone();
                self.do_peer(a);
                idle_conn_polls = 0;
            } else {
                let inbound_before = self.d.pipe.0.borrow().inbound.len();
                self.run_conn();
                let st = self.d.trace.last().cloned().unwrap_or(json!({}));
                let produced = st["out"].as_array().map(|a| !a.is_empty()).unwrap_or(false);
                let consumed = self.d.pipe.0.borrow().inbound.len() != inbound_before;
                let woke_others = st["wakes"].as_array().map(|a| a.iter().any(|w| w.as_u64() != Some(driver::T_CONN as u64))).unwrap_or(false);
                if produced || consumed || woke_others || n > 1 {
                    idle_conn_polls = 0;
                } else {
                    idle_conn_polls += 1;
                    max_idle_run = max_idle_run.max(idle_conn_polls);
                }
            }
        }
        let alive = conn_alive(self.d);
        if !quiescent {
            if max_idle_run >= 50 || idle_conn_polls >= 50 {
                self.violations.push(json!({"kind":"livelock","idle_connection_polls_in_a_row":max_idle_run.max(idle_conn_polls),
                    "why":"the connection task keeps waking itself without consuming input, producing output or waking anyone"}));
            }
        } else {
            self.check_quiescent(alive);
        }
        json!({"quiescent": quiescent, "steps": self.steps, "conn_alive": alive, "tainted": self.led.tainted, "abandoned_bodies": self.abandoned,
               "tasks": self.tasks.len(), "tasks_done": self.tasks.iter().filter(|t| t.done).count(),
               "conn_done": self.d.conn_done.clone()})
    }

    fn check_quiescent(&mut self, alive: bool) {
        // V1: outstanding operations
        let tasks = self.tasks.clone();
        for t in &tasks {
            if t.done {
                continue;
            }
            let sid = self.d.handles.get(t.h).map(|x| x.sid).unwrap_or(0);
            let ls = self.led.streams.get(&sid).cloned();
            let kind = format!("{:?}", t.kind);
            // excuses that do not depend on hooks
            let mut excuse: Option<&str> = None;
            if self.led.tainted && alive {
                excuse = Some("the scripted peer violated the protocol in phase 1; it serves nothing in the closure");
            }
            if alive && self.led.peer_goaway.is_some() {
                if let Kind::Ready(_) = t.kind {
                } else if ls.as_ref().map(|s| !s.peer_head_sent && !s.ep_head_seen).unwrap_or(true) {
                    excuse = Some("peer sent GOAWAY");
                }
            }
            if alive && self.led.ep_goaway.is_some() && ls.as_ref().map(|s| s.by_peer && s.sid > self.led.ep_goaway.unwrap()).unwrap_or(false) {
                excuse = Some("stream above the endpoint's GOAWAY");
            }
            if excuse.is_some() {
                continue;
            }
            self.violations.push(json!({"kind":"operation-pending","task":kind,"task_id":t.id,"h":t.h,"sid":sid,"last":t.last,"polls":t.polls,
                "conn_alive":alive,"ledger": ls.map(|s| json!({"peer_open":s.peer_open,"ep_open":s.ep_open,"reset":s.reset,"peer_head_sent":s.peer_head_sent,
                    "ep_head_seen":s.ep_head_seen,"peer_win":s.peer_win,"ep_credit":self.led.ep_stream_credit(&s)})),
                "ep_conn_credit": self.led.ep_conn_credit(),
                "why":"at quiescence of the cooperative closure this application operation is still Pending: nothing will ever wake its task"}));
        }
        if !alive {
            return;
        }
        // bytes in flight
        let inbound = self.d.pipe.0.borrow().inbound.len();
        if inbound > 0 {
            self.violations.push(json!({"kind":"bytes-in-flight","inbound":inbound,"why":"delivered bytes are waiting in the transport and the connection task is not woken"}));
        }
        if self.led.tainted {
            return;
        }
        // V2: queues of the statistics snapshot
        if let Some(s) = self.d.snapshot() {
            let sj = driver::snap_json(&s);
            let conn_err = sj["conn"]["conn_error"].as_i64() == Some(1);
            if !conn_err {
                let by_id: BTreeMap<u64, Value> = sj["streams"].as_array().map(|a| a.iter().filter(|x| x["linked"].as_i64() == Some(1)).map(|x| (x["id"].as_u64().unwrap_or(0), x.clone())).collect()).unwrap_or_default();
                let q = &sj["queues"];
                let ids = |name: &str| -> Vec<u64> { q[name].as_array().map(|a| a.iter().filter_map(|x| x.as_u64()).collect()).unwrap_or_default() };
                let wu = ids("pending_window_updates");
                if !wu.is_empty() {
                    self.violations.push(json!({"kind":"queue-not-drained","queue":"pending_window_updates","streams":wu}));
                }
                let sendable: Vec<u64> = ids("pending_send").into_iter().filter(|id| by_id.get(id).map(|x| {
                    x["pending_send_len"].as_i64().unwrap_or(0) > 0 && x["is_pending_open"].as_i64() == Some(0) &&
                        (x["buffered_send_data"].as_i64() == Some(0) || x["send_available"].as_i64().unwrap_or(0) > 0)
                }).unwrap_or(false)).collect();
                if !sendable.is_empty() {
                    self.violations.push(json!({"kind":"queue-not-drained","queue":"pending_send","streams":sendable,
                        "why":"streams with sendable frames are queued and the connection task is not woken"}));
                }
                let po = ids("pending_open");
                let num = sj["conn"]["num_send_streams"].as_i64().unwrap_or(0);
                let max = sj["conn"]["max_send_streams"].as_i64().unwrap_or(i64::MAX);
                if !po.is_empty() && num < max {
                    self.violations.push(json!({"kind":"queue-not-drained","queue":"pending_open","streams":po,"num_send_streams":num,"max_send_streams":max}));
                }
                let ca = sj["conn"]["send_flow_available"].as_i64().unwrap_or(0);
                if ca > 0 {
                    let starving: Vec<u64> = ids("pending_capacity").into_iter().filter(|id| by_id.get(id).map(|x| {
                        x["requested_send_capacity"].as_i64().unwrap_or(0) > x["send_available"].as_i64().unwrap_or(0)
                            && x["send_window"].as_i64().unwrap_or(0) > x["send_available"].as_i64().unwrap_or(0)
                            && x["is_pending_open"].as_i64() == Some(0)
                    }).unwrap_or(false)).collect();
                    if !starving.is_empty() {
                        self.violations.push(json!({"kind":"queue-not-drained","queue":"pending_capacity","streams":starving,"conn_available":ca}));
                    }
                }
            }
        }
        // V3: bodies
        for (h, x) in self.d.handles.iter().enumerate() {
            let ls = match self.led.streams.get(&x.sid) {
                Some(s) => s,
                None => continue,
            };
            if ls.reset {
                continue;
            }
            let send_task_done = tasks.iter().any(|t| t.h == h && t.kind == Kind::Send && t.done && t.last.as_str() == Some("ok"));
            if send_task_done && x.sent_off != ls.ep_recv {
                self.violations.push(json!({"kind":"body-not-written","h":h,"sid":x.sid,"submitted":x.sent_off,"on_the_wire":ls.ep_recv}));
            }
            let body_done = tasks.iter().any(|t| t.h == h && t.kind == Kind::Body && t.done && t.last.as_str() == Some("None"));
            if body_done && x.recv.is_some() && x.recv_off != ls.peer_sent {
                self.violations.push(json!({"kind":"body-not-delivered","h":h,"sid":x.sid,"sent_by_peer":ls.peer_sent,"delivered":x.recv_off}));
            }
        }
    }
}

fn run_closure(d: &mut Driver, closure_seed: u64, budget: usize) -> (Value, Vec<Value>, Vec<Value>) {
    let mut led = Ledger::new(&d.cfg);
    led.observe(d);
    let mut c = Closure { d, rng: Rng::new(closure_seed), led, tasks: vec![], ops: vec![], violations: vec![], raised_mcs: false, lowered_window: false, conn_wake_reported: false, steps: 0, abandoned: 0 };
    let verdict = c.run(budget);
    (verdict, c.violations, c.ops)
}

fn ops_of(trace: &[Value]) -> Vec<Value> {
    trace.iter().filter(|st| st["op"]["op"].as_str() != Some("handshake")).map(|st| st["op"].clone()).collect()
}

fn main() {
    let a = args();
    if std::env::var("VERIF_PANIC_VERBOSE").is_err() {
        std::panic::set_hook(Box::new(|_| {}));
    }
    let budget = arg_u64(&a, "budget", 6000) as usize;
    let want_trace = arg_u64(&a, "trace", 0) == 1;
    if let Some(path) = a.get("replay") {
        let text = std::fs::read_to_string(path).expect("read replay");
        let v: Value = serde_json::from_str(&text).expect("json");
        let sc = if v.get("scenario").is_some() { &v["scenario"] } else { &v };
        let cfg = Config::from_json(&sc["cfg"]);
        let mut d = Driver::new(cfg, true).expect("handshake");
        if let Some(ops) = sc["phase1"].as_array() {
            for op in ops {
                d.exec(op);
            }
        }
        let p1 = d.trace.len();
        let (verdict, violations, closure_ops) = if let (Some(ops), true) = (sc["closure"].as_array(), a.get("exact").is_some()) {
            // exact re-execution of the recorded closure op list (no oracle)
            for op in ops {
                d.exec(op);
            }
            (json!({"exact": true}), vec![], ops.clone())
        } else {
            run_closure(&mut d, sc["closure_seed"].as_u64().unwrap_or(1), budget)
        };
        let mut o = json!({"cfg": d.cfg.to_json(), "closure_seed": sc["closure_seed"], "phase1_len": p1, "verdict": verdict, "violations": violations, "closure": closure_ops});
        if want_trace {
            o["trace"] = json!(d.trace);
        }
        println!("{}", o);
        std::mem::forget(d);
        return;
    }
    let seed = arg_u64(&a, "seed", 1);
    let n = arg_u64(&a, "n", 10);
    let steps = arg_u64(&a, "steps", 60) as usize;
    let prof_name = a.get("profile").cloned().unwrap_or_else(|| "mixed".into());
    let role = a.get("role").cloned().unwrap_or_else(|| "both".into());
    let first = arg_u64(&a, "first", 0);
    let mut n_viol = 0u64;
    let mut n_quiet = 0u64;
    let mut n_alive = 0u64;
    let mut kinds: BTreeMap<String, u64> = BTreeMap::new();
    let mut total_steps = 0u64;
    for i in first..n {
        let mut rng = Rng::new(seed.wrapping_mul(1_000_003).wrapping_add(i));
        let client = match role.as_str() {
            "client" => true,
            "server" => false,
            _ => rng.chance(1, 2),
        };
        let p = gen::profile(&prof_name);
        let cfg = gen::gen_config(&mut rng, client, &p);
        let mut d = match Driver::new(cfg.clone(), true) {
            Ok(d) => d,
            Err(e) => {
                println!("{}", json!({"seed": seed, "i": i, "cfg": cfg.to_json(), "error": e}));
                continue;
            }
        };
        let k = rng.range((steps / 4) as u64, steps as u64) as usize;
        gen::run_random(&mut d, &mut rng, &p, k);
        let phase1 = ops_of(&d.trace);
        let p1 = d.trace.len();
        let closure_seed = rng.next_u64() >> 1;
        let (verdict, violations, closure_ops) = run_closure(&mut d, closure_seed, budget);
        if !violations.is_empty() {
            n_viol += 1;
            for v in &violations {
                *kinds.entry(v["kind"].as_str().unwrap_or("?").to_string()).or_default() += 1;
            }
        }
        if verdict["quiescent"].as_bool() == Some(true) {
            n_quiet += 1;
        }
        if verdict["conn_alive"].as_bool() == Some(true) {
            n_alive += 1;
        }
        total_steps += verdict["steps"].as_u64().unwrap_or(0);
        let mut o = json!({"seed": seed, "i": i, "profile": p.name, "cfg": d.cfg.to_json(), "closure_seed": closure_seed, "phase1_len": p1,
                           "verdict": verdict, "violations": violations});
        if want_trace || !o["violations"].as_array().map(|a| a.is_empty()).unwrap_or(true) {
            o["phase1"] = json!(phase1);
            o["closure"] = json!(closure_ops);
        }
        if want_trace {
            o["trace"] = json!(std::mem::take(&mut d.trace));
        }
        println!("{}", o);
        std::mem::forget(d);
        h2::verif::stop();
    }
    println!("{}", json!({"summary": {"scenarios": n - first, "with_violations": n_viol, "quiescent": n_quiet, "conn_alive_at_end": n_alive,
                                       "violation_kinds": kinds, "closure_steps": total_steps}}));
}
