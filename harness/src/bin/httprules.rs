//! C13 (malformed HTTP messages): drive the REAL crate with generated header blocks.
//!
//!   httprules --seed S --n N [--mode recv|send|corpus|all]
//!   httprules --replay file.json     (re-run receive cases: array of {role, head_req, ext, hls, frames})
//!
//! recv mode: one real endpoint (client or server, `h2verif_harness::driver::Driver`) against the scripted raw
//! peer.  The peer sends, on one stream, a list of frames built from a generated case:
//!   H  = HEADERS whose block is `wire::hpack_literal(fields)` (table-free, no Huffman: every field goes
//!        through `Header::new`), with or without END_STREAM;
//!   D  = DATA with `len` payload octets, with or without END_STREAM;
//!   PP = PUSH_PROMISE (client role) promising stream 2, 4, ...
//! For the client role the application first sends a GET or HEAD request.  After every frame the
//! connection is polled until quiet; at the end the application polls what it can see, in a fixed order
//! (server: accept, data*, trailers; client: pushes*, informational*, response, data*, trailers) and
//! the record says what it was handed (byte-exact) and what the endpoint wrote back (RST_STREAM /
//! GOAWAY codes, status of a response written by the library itself).
//!
//! send mode: the application calls send_request / send_response / send_informational / send_trailers /
//! push_request with header maps from a catalogue (connection-specific fields, TE, URI shapes) and the
//! record says what the API returned and which field lists went on the wire.
//!
//! One JSON object per case, then {"summary":{...}}.
use bytes::Bytes;
use h2::{client, server, RecvStream};
use h2verif_harness::driver::{err_str, Config, Driver, Endpoint, Handle};
use h2verif_harness::exec::{Task, WakeLog};
use h2verif_harness::pipe::Pipe;
use h2verif_harness::{arg_u64, args, gen, wire, Rng};
use serde_json::{json, Value};
use std::collections::BTreeMap;
use std::future::Future;
use std::pin::Pin;
use std::sync::{Arc, Mutex};
use std::task::{Context, Poll};

type Field = (Vec<u8>, Vec<u8>);

#[derive(Clone, Debug)]
enum Fr {
    H { fields: Vec<Field>, eos: bool },
    D { len: usize, eos: bool },
    PP { fields: Vec<Field> },
}

#[derive(Clone, Debug)]
struct Case {
    client: bool,
    head_req: bool,
    ext: bool,
    hls: Option<u32>,
    frames: Vec<Fr>,
    cat: Vec<String>,
}

fn f(n: &str, v: &str) -> Field {
    (n.as_bytes().to_vec(), v.as_bytes().to_vec())
}

fn jb(b: &[u8]) -> Value {
    Value::Array(b.iter().map(|x| json!(*x)).collect())
}

fn jfields(fs: &[Field]) -> Value {
    Value::Array(fs.iter().map(|(n, v)| json!([jb(n), jb(v)])).collect())
}

fn jmap(m: &http::HeaderMap) -> Value {
    Value::Array(m.iter().map(|(k, v)| json!([jb(k.as_str().as_bytes()), jb(v.as_bytes())])).collect())
}

/// verdicts of the `http` crate validators that server::Peer::convert_poll_message delegates to, on the
/// first :authority / :scheme / :path of the block (true when the field is absent)
fn http_verdicts(fields: &[Field]) -> Value {
    let first = |name: &[u8]| fields.iter().find(|(n, _)| n == name).map(|(_, v)| v.clone());
    let a = first(b":authority").map(|v| http::uri::Authority::from_maybe_shared(Bytes::from(v)).is_ok()).unwrap_or(true);
    let s = first(b":scheme")
        .map(|v| match std::str::from_utf8(&v) {
            Ok(s) => s.parse::<http::uri::Scheme>().is_ok(),
            Err(_) => false,
        })
        .unwrap_or(true);
    let p = first(b":path").map(|v| http::uri::PathAndQuery::from_maybe_shared(Bytes::from(v)).is_ok()).unwrap_or(true);
    json!([a, s, p])
}

fn frames_json(frames: &[Fr]) -> Value {
    Value::Array(
        frames
            .iter()
            .map(|fr| match fr {
                Fr::H { fields, eos } => json!({"t":"H","fields":jfields(fields),"eos":eos,"v":http_verdicts(fields)}),
                Fr::D { len, eos } => json!({"t":"D","len":len,"eos":eos}),
                Fr::PP { fields } => json!({"t":"PP","fields":jfields(fields),"v":http_verdicts(fields)}),
            })
            .collect(),
    )
}

// ------------------------------------------------------------------------------------------------
// driver construction (Driver::new, plus a server with the extended CONNECT protocol enabled)

fn noop_poll<F: Future + Unpin>(fut: &mut F, n: usize) -> Option<F::Output> {
    let log: WakeLog = Arc::new(Mutex::new(Vec::new()));
    let t = Task::new(0, &log);
    let w = t.waker();
    let mut cx = Context::from_waker(&w);
    for _ in 0..n {
        if let Poll::Ready(v) = Pin::new(&mut *fut).poll(&mut cx) {
            return Some(v);
        }
    }
    None
}

fn new_driver(cfg: Config, ext: bool) -> Result<Driver, String> {
    if cfg.role_client || !ext {
        return Driver::new(cfg, false);
    }
    // Driver::new has no switch for the extended CONNECT protocol: start from a plain driver and
    // replace its endpoint and transport by a server built with enable_connect_protocol()
    let mut d = Driver::new(cfg.clone(), false)?;
    let pipe = Pipe::new();
    let mut b = server::Builder::new();
    if let Some(v) = cfg.max_header_list_size {
        b.max_header_list_size(v);
    }
    b.enable_connect_protocol();
    pipe.feed(wire::PREFACE);
    let mut fut = b.handshake::<_, Bytes>(pipe.clone());
    let conn = noop_poll(&mut fut, 8).ok_or_else(|| "server handshake did not complete".to_string())?.map_err(|e| format!("server handshake error {}", e))?;
    pipe.feed(&wire::settings(&cfg.peer_settings));
    d.ep = Endpoint::Server { conn: Some(conn) };
    d.pipe = pipe;
    d.handles.clear();
    d.out_buf.clear();
    d.out_frames.clear();
    d.trace.clear();
    d.conn_done = None;
    d.preface_skipped = false;
    d.pending_block = None;
    d.decoder = h2::verif::hpack::Decoder::new(4096);
    let _ = h2::verif::drain();
    d.finish_step(json!({"op":"handshake"}), json!("ok"));
    Ok(d)
}

fn settle(d: &mut Driver) {
    d.exec(&json!({"op":"conn_poll"}));
    gen::settle(d, 50);
}

fn feed(d: &mut Driver, bytes: &[u8]) {
    d.exec(&json!({"op":"peer","bytes": bytes.iter().map(|b| json!(*b)).collect::<Vec<_>>()}));
    settle(d);
}

fn body(sid: u32, off: u64, len: usize) -> Vec<u8> {
    (0..len as u64).map(|i| h2verif_harness::driver::pattern(sid, 1, off + i)).collect()
}

// ------------------------------------------------------------------------------------------------
// what the application sees: after every frame the application polls everything it holds ("drain")
// and the record lists, per frame, what it was handed.  Event forms (JSON arrays):
//   ["accept", req] ["accept_end", res]            (server)
//   ["push", req] ["push_end", res]                (client, when a PUSH_PROMISE is part of the case)
//   ["info", resp] ["resp", resp] ["resp_err", res]
//   ["data", len] ["data_end", res] ["trailers", fields] ["trailers_end", res]
// res = "None" | "E(kind,code,origin)".  `Pending` results are not recorded; an API that has given
// its final answer is not polled again.

struct App {
    accept_done: bool,
    resp_done: bool,
    push_done: bool,
    body: Option<RecvStream>,
    body_done: bool,
    keep: Vec<Box<dyn std::any::Any>>,
}

fn req_json(parts: &http::request::Parts) -> Value {
    json!({
        "method": jb(parts.method.as_str().as_bytes()),
        "uri": parts.uri.to_string(),
        "authority": parts.uri.authority().map(|a| jb(a.as_str().as_bytes())),
        "scheme": parts.uri.scheme_str().map(|s| s.to_string()),
        "path": parts.uri.path_and_query().map(|p| jb(p.as_str().as_bytes())),
        "protocol": parts.extensions.get::<h2::ext::Protocol>().map(|p| jb(p.as_str().as_bytes())),
        "fields": jmap(&parts.headers),
    })
}

fn drain_body(app: &mut App, cx: &mut Context<'_>, ev: &mut Vec<Value>) {
    if app.body_done {
        return;
    }
    let rs = match app.body.as_mut() {
        Some(r) => r,
        None => return,
    };
    let mut n = 0;
    loop {
        match rs.poll_data(cx) {
            Poll::Pending => return,
            Poll::Ready(Some(Ok(b))) => {
                let _ = rs.flow_control().release_capacity(b.len());
                ev.push(json!(["data", b.len()]));
                n += 1;
                if n > 1000 {
                    ev.push(json!(["data_end", "runaway"]));
                    app.body_done = true;
                    return;
                }
            }
            Poll::Ready(None) => {
                ev.push(json!(["data_end", "None"]));
                break;
            }
            Poll::Ready(Some(Err(e))) => {
                ev.push(json!(["data_end", err_str(&e)]));
                app.body_done = true;
                return;
            }
        }
    }
    // poll_data said None: the next event is the trailer section or the stream has ended
    match rs.poll_trailers(cx) {
        Poll::Pending => ev.push(json!(["trailers_end", "Pending"])),
        Poll::Ready(Ok(None)) => ev.push(json!(["trailers_end", "None"])),
        Poll::Ready(Ok(Some(m))) => ev.push(json!(["trailers", jmap(&m)])),
        Poll::Ready(Err(e)) => ev.push(json!(["trailers_end", err_str(&e)])),
    }
    app.body_done = true;
}

fn drain(d: &mut Driver, app: &mut App, client: bool) -> Value {
    let w = d.conn_task.waker();
    let mut cx = Context::from_waker(&w);
    let mut ev: Vec<Value> = Vec::new();
    if !client {
        if !app.accept_done {
            // the driver drops the connection object once its future has completed (as an executor
            // would); the accept loop of the application ends with that result
            let gone = matches!(&d.ep, Endpoint::Server { conn: None });
            if gone {
                if let Some(done) = d.conn_done.clone() {
                    ev.push(json!(["accept_end", if done == "Ok" || done == "accept:None" { "None".to_string() } else { done }]));
                    app.accept_done = true;
                }
            }
            let acc = match &mut d.ep {
                Endpoint::Server { conn: Some(conn) } => conn.poll_accept(&mut cx),
                _ => Poll::Pending,
            };
            match acc {
                Poll::Pending => {}
                Poll::Ready(None) => {
                    ev.push(json!(["accept_end", "None"]));
                    app.accept_done = true;
                }
                Poll::Ready(Some(Err(e))) => {
                    ev.push(json!(["accept_end", err_str(&e)]));
                    app.accept_done = true;
                }
                Poll::Ready(Some(Ok((req, respond)))) => {
                    let (parts, rs) = req.into_parts();
                    ev.push(json!(["accept", req_json(&parts)]));
                    app.accept_done = true;
                    app.body = Some(rs);
                    app.keep.push(Box::new(respond));
                }
            }
        }
    } else {
        if !app.push_done && d.handles[0].pushes.is_some() {
            let mut n = 0;
            loop {
                let r = d.handles[0].pushes.as_mut().unwrap().poll_push_promise(&mut cx);
                match r {
                    Poll::Pending => break,
                    Poll::Ready(None) => {
                        ev.push(json!(["push_end", "None"]));
                        app.push_done = true;
                        break;
                    }
                    Poll::Ready(Some(Err(e))) => {
                        ev.push(json!(["push_end", err_str(&e)]));
                        app.push_done = true;
                        break;
                    }
                    Poll::Ready(Some(Ok(pp))) => {
                        let (req, fut) = pp.into_parts();
                        let (parts, _) = req.into_parts();
                        ev.push(json!(["push", req_json(&parts)]));
                        app.keep.push(Box::new(fut));
                        n += 1;
                        if n > 50 {
                            ev.push(json!(["push_end", "runaway"]));
                            app.push_done = true;
                            break;
                        }
                    }
                }
            }
        }
        if !app.resp_done {
            let mut n = 0;
            loop {
                let r = d.handles[0].resp.as_mut().unwrap().poll_informational(&mut cx);
                match r {
                    Poll::Ready(Some(Ok(resp))) => {
                        ev.push(json!(["info", {"status": resp.status().as_u16(), "fields": jmap(resp.headers())}]));
                        n += 1;
                        if n > 50 {
                            break;
                        }
                    }
                    _ => break,
                }
            }
            let r = Pin::new(d.handles[0].resp.as_mut().unwrap()).poll(&mut cx);
            match r {
                Poll::Pending => {}
                Poll::Ready(Err(e)) => {
                    ev.push(json!(["resp_err", err_str(&e)]));
                    app.resp_done = true;
                }
                Poll::Ready(Ok(resp)) => {
                    let (parts, rs) = resp.into_parts();
                    ev.push(json!(["resp", {"status": parts.status.as_u16(), "fields": jmap(&parts.headers)}]));
                    app.resp_done = true;
                    app.body = Some(rs);
                }
            }
        }
    }
    drain_body(app, &mut cx, &mut ev);
    Value::Array(ev)
}

fn wire_obs(d: &Driver, from: usize) -> Value {
    let mut rst = Vec::new();
    let mut goaway = Value::Null;
    let mut written = Vec::new();
    for fr in &d.out_frames[from..] {
        match fr["t"].as_str() {
            Some("RST_STREAM") => rst.push(json!([fr["sid"], fr["code"]])),
            Some("GOAWAY") => {
                if goaway.is_null() {
                    goaway = fr["code"].clone();
                }
            }
            Some("HEADERS") => written.push(json!({"sid": fr["sid"], "eos": fr["eos"], "fields": fr["fields"]})),
            _ => {}
        }
    }
    json!({"rst": rst, "goaway": goaway, "headers_written": written})
}

fn run_recv(c: &Case) -> Value {
    let mut cfg = Config::default_client();
    cfg.role_client = c.client;
    cfg.max_header_list_size = c.hls;
    let mut d = match new_driver(cfg, c.ext) {
        Ok(d) => d,
        Err(e) => return json!({"error": e}),
    };
    settle(&mut d);
    // the peer acknowledges the endpoint's SETTINGS so that local settings are in force
    feed(&mut d, &wire::settings_ack());
    if c.client {
        let r = d.exec(&json!({"op":"send_request","method": if c.head_req {"HEAD"} else {"GET"},"uri":"https://example.com/","eos":true}));
        if r.get("h").is_none() {
            return json!({"error": format!("send_request failed: {}", r)});
        }
        settle(&mut d);
        if c.frames.iter().any(|x| matches!(x, Fr::PP { .. })) {
            d.exec(&json!({"op":"push_promises","h":0}));
        }
    }
    let from = d.out_frames.len();
    let sid = 1u32;
    let mut promised = 2u32;
    let mut off = 0u64;
    let mut app = App { accept_done: false, resp_done: false, push_done: false, body: None, body_done: false, keep: Vec::new() };
    let mut per_frame = Vec::new();
    for fr in &c.frames {
        match fr {
            Fr::H { fields, eos } => feed(&mut d, &wire::headers(sid, &wire::hpack_literal(fields), *eos, 0)),
            Fr::D { len, eos } => {
                feed(&mut d, &wire::data(sid, &body(sid, off, *len), *eos, None));
                off += *len as u64;
            }
            Fr::PP { fields } => {
                feed(&mut d, &wire::push_promise(sid, promised, &wire::hpack_literal(fields)));
                promised += 2;
            }
        }
        per_frame.push(drain(&mut d, &mut app, c.client));
        settle(&mut d);
    }
    let conn_res = d.exec(&json!({"op":"conn_poll"}));
    let mut obs = serde_json::Map::new();
    obs.insert("conn".into(), conn_res);
    obs.insert("events".into(), Value::Array(per_frame));
    obs.insert("wire".into(), wire_obs(&d, from));
    let dropped = std::panic::catch_unwind(std::panic::AssertUnwindSafe(move || {
        drop(app);
        drop(d);
    }));
    obs.insert("drop_panic".into(), json!(dropped.is_err()));
    Value::Object(obs)
}


// ------------------------------------------------------------------------------------------------
// generators (recv)

const CONN_SPECIFIC: &[&str] = &["connection", "keep-alive", "proxy-connection", "transfer-encoding", "upgrade"];
const REG_NAMES: &[&str] = &["accept", "x-a", "x-b", "user-agent", "cookie", "content-type", "te", "trailer", "x-long-name-for-size", "a"];
const REG_VALUES: &[&str] = &["", "v", "trailers", "gzip", "text/html", "1", "abc def", "\u{e9}", "x=y; z"];

fn base_request(rng: &mut Rng) -> Vec<Field> {
    let m = *rng.pick(&["GET", "GET", "POST", "HEAD", "PUT", "OPTIONS", "DELETE"]);
    let mut v = vec![f(":method", m), f(":scheme", *rng.pick(&["https", "http"])), f(":path", *rng.pick(&["/", "/x", "/a/b?c=d", "*"]))];
    if rng.chance(4, 5) {
        v.push(f(":authority", *rng.pick(&["example.com", "example.com:8443", "h"])));
    }
    // a valid order permutation of the pseudo fields
    for _ in 0..rng.below(3) {
        let n = v.len() as u64;
        let (i, j) = (rng.below(n) as usize, rng.below(n) as usize);
        v.swap(i, j);
    }
    regs(rng, &mut v);
    v
}

fn regs(rng: &mut Rng, v: &mut Vec<Field>) {
    for _ in 0..rng.below(4) {
        let n = *rng.pick(REG_NAMES);
        if n == "te" {
            v.push(f("te", "trailers"));
        } else {
            v.push(f(n, *rng.pick(&["v", "text/html", "1", "abc def", ""])));
        }
    }
}

fn base_response(rng: &mut Rng) -> Vec<Field> {
    let mut v = vec![f(":status", *rng.pick(&["200", "200", "404", "500", "204", "304", "201"]))];
    regs(rng, &mut v);
    v
}

fn base_info(rng: &mut Rng) -> Vec<Field> {
    let mut v = vec![f(":status", *rng.pick(&["100", "103", "102", "199"]))];
    regs(rng, &mut v);
    v
}

fn base_trailers(rng: &mut Rng) -> Vec<Field> {
    let mut v = vec![f("x-trailer", "t")];
    regs(rng, &mut v);
    v
}

fn first_regular(v: &[Field]) -> usize {
    v.iter().position(|(n, _)| n.first() != Some(&b':')).unwrap_or(v.len())
}

/// header-level defects; returns the label
fn inject(rng: &mut Rng, v: &mut Vec<Field>, is_request: bool) -> String {
    let nreg0 = first_regular(v);
    let k = rng.below(if is_request { 24 } else { 20 });
    match k {
        0 => {
            let pos = nreg0 + rng.below((v.len() - nreg0 + 1) as u64) as usize;
            v.insert(pos, f(*rng.pick(&["X-Upper", "aBc", "Content-Type", "Z"]), "v"));
            "uppercase-name".into()
        }
        1 | 2 => {
            let pos = nreg0 + rng.below((v.len() - nreg0 + 1) as u64) as usize;
            let n = *rng.pick(CONN_SPECIFIC);
            v.insert(pos, f(n, *rng.pick(&["close", "keep-alive", "chunked", "h2c", "x"])));
            format!("conn-specific:{}", n)
        }
        3 => {
            let pos = nreg0 + rng.below((v.len() - nreg0 + 1) as u64) as usize;
            let val = *rng.pick(&["gzip", "trailers, deflate", "Trailers", "", "deflate", " trailers"]);
            v.insert(pos, f("te", val));
            "te-not-trailers".into()
        }
        4 => {
            let pos = nreg0 + rng.below((v.len() - nreg0 + 1) as u64) as usize;
            v.insert(pos, f("te", "trailers"));
            "te-trailers(valid)".into()
        }
        5 => {
            let pos = rng.below((nreg0 + 1) as u64) as usize;
            v.insert(pos, f(*rng.pick(&[":foo", ":", ":Method", ":statu", ":paths"]), "x"));
            "unknown-pseudo".into()
        }
        6 | 7 => {
            // duplicate one of the pseudo fields present (same or different value), at the head
            if nreg0 == 0 {
                v.insert(0, f(":status", "200"));
                v.insert(0, f(":status", "200"));
            } else {
                let i = rng.below(nreg0 as u64) as usize;
                let mut dup = v[i].clone();
                if rng.chance(1, 2) {
                    dup.1 = match dup.0.as_slice() {
                        b":method" => b"POST".to_vec(),
                        b":status" => b"404".to_vec(),
                        _ => b"/other".to_vec(),
                    };
                }
                let pos = rng.below((nreg0 + 1) as u64) as usize;
                v.insert(pos, dup);
            }
            "duplicated-pseudo".into()
        }
        8 | 9 => {
            // pseudo after a regular field
            if nreg0 == v.len() {
                v.push(f("x-first", "1"));
            }
            let extra = if rng.chance(1, 2) && nreg0 > 0 {
                let i = rng.below(nreg0 as u64) as usize;
                v.remove(i)
            } else if is_request {
                f(*rng.pick(&[":authority", ":method", ":path", ":scheme"]), "x")
            } else {
                f(":status", "200")
            };
            v.push(extra);
            "pseudo-after-regular".into()
        }
        10 => {
            if is_request {
                v.insert(rng.below((nreg0 + 1) as u64) as usize, f(":status", *rng.pick(&["200", "100", "404"])));
                ":status-in-request".into()
            } else {
                let n = *rng.pick(&[":method", ":path", ":scheme", ":authority", ":protocol"]);
                v.insert(rng.below((nreg0 + 1) as u64) as usize, f(n, *rng.pick(&["GET", "/", "https", "x"])));
                format!("request-pseudo-in-response:{}", n)
            }
        }
        11 | 12 => {
            // drop a mandatory pseudo field
            let names: &[&[u8]] = if is_request { &[b":method", b":scheme", b":path", b":authority"] } else { &[b":status"] };
            let n = *rng.pick(names);
            v.retain(|(k, _)| k.as_slice() != n);
            format!("missing{}", String::from_utf8_lossy(n))
        }
        13 => {
            let pos = nreg0 + rng.below((v.len() - nreg0 + 1) as u64) as usize;
            let (n, val): (&[u8], &[u8]) = *rng.pick(&[
                (&b"x-nul"[..], &b"a\0b"[..]),
                (&b"x-lf"[..], &b"a\nb"[..]),
                (&b"x-cr"[..], &b"a\rb"[..]),
                (&b"x-del"[..], &b"\x7f"[..]),
                (&b"x y"[..], &b"v"[..]),
                (&b"a:b"[..], &b"v"[..]),
                (&b""[..], &b"v"[..]),
                (&b"x\x80"[..], &b"v"[..]),
                (&b"x@"[..], &b"v"[..]),
            ]);
            v.insert(pos, (n.to_vec(), val.to_vec()));
            "invalid-name-or-value-octets".into()
        }
        14 => {
            // invalid pseudo value for Header::new
            if is_request {
                for (k, val) in v.iter_mut() {
                    if k.as_slice() == b":method" {
                        *val = rng.pick(&[&b"GE T"[..], &b""[..], &b"G\0T"[..], &b"G(T"[..]]).to_vec();
                    }
                }
                "invalid-:method-octets".into()
            } else {
                for (k, val) in v.iter_mut() {
                    if k.as_slice() == b":status" {
                        *val = rng.pick(&[&b"20"[..], &b"abc"[..], &b"099"[..], &b"2000"[..], &b""[..], &b"2 0"[..]]).to_vec();
                    }
                }
                "invalid-:status-octets".into()
            }
        }
        15 => {
            let pos = nreg0 + rng.below((v.len() - nreg0 + 1) as u64) as usize;
            v.insert(pos, f("x-ws", *rng.pick(&[" lead", "trail ", "\tlead", " "])));
            "value-leading-trailing-whitespace".into()
        }
        16 => {
            let pos = nreg0 + rng.below((v.len() - nreg0 + 1) as u64) as usize;
            v.insert(pos, (b"x-obs".to_vec(), vec![0x80, 0xff, b'a']));
            "value-obs-text(valid)".into()
        }
        17 => {
            // repeated regular names (HeaderMap grouping)
            v.push(f("x-a", "1"));
            v.push(f("x-b", "2"));
            v.push(f("x-a", "3"));
            "repeated-regular(valid)".into()
        }
        18 | 19 => "none".into(),
        // request only
        20 => {
            for (k, val) in v.iter_mut() {
                if k.as_slice() == b":path" {
                    *val = Vec::new();
                }
            }
            "empty-:path".into()
        }
        21 => {
            // http crate syntax of :authority / :scheme / :path
            let which = rng.below(3);
            for (k, val) in v.iter_mut() {
                match (which, k.as_slice()) {
                    (0, b":authority") => *val = rng.pick(&[&b"exa mple"[..], &b""[..], &b"a@b@c"[..], &b"[::1"[..], &b"h:1:2"[..], &b"user@host"[..]]).to_vec(),
                    (1, b":scheme") => *val = rng.pick(&[&b"ht!tp"[..], &b""[..], &b"1x"[..], &b"HTTP"[..], &b"ftp"[..], &b"a b"[..]]).to_vec(),
                    (2, b":path") => *val = rng.pick(&[&b"/a b"[..], &b"x"[..], &b"/a#frag"[..], &b"/\xc3\xa9"[..], &b"?q"[..], &b"/a\x7f"[..]]).to_vec(),
                    _ => {}
                }
            }
            "uri-syntax".into()
        }
        22 => {
            v.retain(|(k, _)| k.as_slice() != b":path" && k.as_slice() != b":scheme");
            "missing:scheme+:path".into()
        }
        _ => {
            v.insert(rng.below((nreg0 + 1) as u64) as usize, f(":protocol", "websocket"));
            ":protocol-on-non-CONNECT".into()
        }
    }
}

fn connect_request(rng: &mut Rng) -> (Vec<Field>, String, bool) {
    let mut v = vec![f(":method", "CONNECT")];
    let with_auth = rng.chance(3, 4);
    let with_scheme = rng.chance(1, 2);
    let with_path = rng.chance(1, 2);
    let with_proto = rng.chance(1, 2);
    let ext = rng.chance(2, 3);
    if with_proto {
        v.push(f(":protocol", *rng.pick(&["websocket", "connect-udp"])));
    }
    if with_scheme {
        v.push(f(":scheme", "https"));
    }
    if with_path {
        v.push(f(":path", *rng.pick(&["/chat", "/", ""])));
    }
    if with_auth {
        v.push(f(":authority", "example.com:443"));
    }
    let n = v.len() as u64;
    let (i, j) = (rng.below(n) as usize, rng.below(n) as usize);
    v.swap(i, j);
    regs(rng, &mut v);
    let lbl = format!(
        "connect:{}{}{}{}{}",
        if with_proto { "P" } else { "p" },
        if with_scheme { "S" } else { "s" },
        if with_path { "T" } else { "t" },
        if with_auth { "A" } else { "a" },
        if ext { "+ext" } else { "-ext" }
    );
    (v, lbl, ext)
}

/// content-length field(s) + the DATA sequence relative to it; returns (fields to add, data frames, eos on head, label)
fn body_plan(rng: &mut Rng) -> (Vec<Field>, Vec<(usize, bool)>, bool, String) {
    // small values often: the boundaries of the accounting are at 0 and 1
    let n = if rng.chance(1, 2) { *rng.pick(&[0usize, 1, 1, 2, 3]) } else { rng.below(60) as usize };
    let split = |rng: &mut Rng, total: usize, end: bool| -> Vec<(usize, bool)> {
        let mut out = Vec::new();
        let mut left = total;
        let k = 1 + rng.below(3) as usize;
        for i in 0..k {
            let last = i + 1 == k;
            let l = if last { left } else { rng.below(left as u64 + 1) as usize };
            left -= l;
            out.push((l, last && end));
        }
        out
    };
    match rng.below(16) {
        0 => (vec![], vec![], true, "no-cl,eos-on-head".into()),
        1 => {
            let t = rng.below(80) as usize;
            (vec![], split(rng, t, true), false, "no-cl,data".into())
        }
        2 | 3 => (vec![f("content-length", &n.to_string())], split(rng, n, true), false, "cl-exact".into()),
        4 => {
            let short = if n == 0 { 0 } else { rng.below(n as u64) as usize };
            (vec![f("content-length", &n.to_string())], split(rng, short, true), false, if n == 0 { "cl-exact".into() } else { "cl-too-few".into() })
        }
        5 => {
            let extra = 1 + rng.below(5) as usize;
            (vec![f("content-length", &n.to_string())], split(rng, n + extra, true), false, "cl-too-many".into())
        }
        6 => (vec![f("content-length", &n.to_string())], vec![], true, if n == 0 { "cl-0,eos-on-head".into() } else { "cl>0,eos-on-head".into() }),
        7 => {
            let val = *rng.pick(&["abc", "-1", "+5", "5 ", " 5", "5,5", "0x10", "1e3", "99999999999999999999", "18446744073709551616", "1.0"]);
            let t = rng.below(10) as usize;
            (vec![f("content-length", val)], split(rng, t, true), false, "cl-non-numeric".into())
        }
        8 => {
            let t = rng.below(10) as usize;
            (vec![f("content-length", "")], split(rng, t, true), false, "cl-empty-value".into())
        }
        9 => {
            let other = n + 1 + rng.below(5) as usize;
            let (a, b) = if rng.chance(1, 2) { (n, other) } else { (other, n) };
            // the DATA matches the first value
            (vec![f("content-length", &a.to_string()), f("x-mid", "m"), f("content-length", &b.to_string())], split(rng, a, true), false, "cl-duplicated-differing".into())
        }
        10 => (vec![f("content-length", &n.to_string()), f("content-length", &n.to_string())], split(rng, n, true), false, "cl-duplicated-same".into()),
        11 => {
            // leading zeros, 19 digits
            let val = format!("{:019}", n);
            (vec![f("content-length", &val)], split(rng, n, true), false, "cl-leading-zeros".into())
        }
        12 => (vec![f("content-length", &n.to_string())], split(rng, n, false), false, "cl-exact,no-eos".into()),
        13 => {
            // exact, END_STREAM carried by an empty DATA frame
            let mut d = split(rng, n, false);
            d.push((0, true));
            (vec![f("content-length", &n.to_string())], d, false, "cl-exact,empty-eos-frame".into())
        }
        14 => {
            // too many in the very frame that crosses the limit, no END_STREAM at all
            (vec![f("content-length", &n.to_string())], vec![(n + 1, false)], false, "cl-overflow-frame".into())
        }
        _ => {
            let mut d = split(rng, n, false);
            d.insert(0, (0, false));
            d.push((0, true));
            (vec![f("content-length", &n.to_string())], d, false, "cl-exact,empty-frames".into())
        }
    }
}

fn trailers_plan(rng: &mut Rng, frames: &mut Vec<Fr>, cat: &mut Vec<String>) {
    // replace the END_STREAM of the last DATA frame (if any) by a trailers block
    if let Some(Fr::D { eos, .. }) = frames.last_mut() {
        *eos = false;
    } else if let Some(Fr::H { eos, .. }) = frames.last_mut() {
        *eos = false;
    }
    let mut t = base_trailers(rng);
    let mut eos = true;
    match rng.below(12) {
        0 | 1 => cat.push("trailers(valid)".into()),
        2 | 3 => {
            let p = *rng.pick(&[(":status", "404"), (":method", "GET"), (":path", "/"), (":authority", "a"), (":scheme", "https"), (":protocol", "x")]);
            t.insert(0, f(p.0, p.1));
            if rng.chance(1, 3) {
                t.insert(0, f(":status", "200"));
            }
            cat.push("trailers:pseudo-at-head".into());
        }
        4 => {
            t.push(f(":status", "404"));
            cat.push("trailers:pseudo-after-regular".into());
        }
        5 => {
            eos = false;
            cat.push("trailers:no-END_STREAM".into());
        }
        6 => {
            t.push(f(*rng.pick(CONN_SPECIFIC), "x"));
            cat.push("trailers:conn-specific".into());
        }
        7 => {
            t.push(f("te", *rng.pick(&["gzip", "trailers"])));
            cat.push("trailers:te".into());
        }
        8 => {
            t.push(f("X-Upper", "v"));
            cat.push("trailers:uppercase".into());
        }
        9 => {
            t = vec![f(":status", "200")];
            cat.push("trailers:only-pseudo".into());
        }
        10 => {
            t.insert(0, f(":foo", "x"));
            cat.push("trailers:unknown-pseudo".into());
        }
        _ => {
            t = vec![];
            cat.push("trailers:empty-block".into());
        }
    }
    frames.push(Fr::H { fields: t, eos });
    if !eos && rng.chance(1, 2) {
        frames.push(Fr::D { len: 1, eos: true });
    }
}

fn random_fields(rng: &mut Rng) -> Vec<Field> {
    let names: &[&str] = &[
        ":method", ":scheme", ":path", ":authority", ":status", ":protocol", ":foo", "te", "connection", "content-length", "x-a", "x-b", "accept", "upgrade", "X-U", "keep-alive", "trailer",
        "proxy-connection", "transfer-encoding", "host",
    ];
    let k = rng.below(8) as usize;
    let mut v = Vec::new();
    for _ in 0..k {
        let n = *rng.pick(names);
        let val: &str = match n {
            ":method" => *rng.pick(&["GET", "POST", "CONNECT", "HEAD", "OPTIONS"]),
            ":scheme" => *rng.pick(&["https", "http"]),
            ":path" => *rng.pick(&["/", "/x", "", "*"]),
            ":authority" => *rng.pick(&["example.com", "h:1"]),
            ":status" => *rng.pick(&["200", "100", "204", "304", "404", "103"]),
            ":protocol" => "websocket",
            "te" => *rng.pick(&["trailers", "gzip"]),
            "content-length" => *rng.pick(&["0", "3", "5", "x", ""]),
            _ => *rng.pick(REG_VALUES),
        };
        v.push(f(n, val));
    }
    v
}

fn add_body(rng: &mut Rng, head: &mut Vec<Field>, frames: &mut Vec<Fr>, cat: &mut Vec<String>) {
    let (cl, data, eos_head, lbl) = body_plan(rng);
    let pos = first_regular(head) + rng.below((head.len() - first_regular(head) + 1) as u64) as usize;
    for (i, x) in cl.into_iter().enumerate() {
        head.insert((pos + i).min(head.len()), x);
    }
    cat.push(lbl);
    frames.push(Fr::H { fields: head.clone(), eos: eos_head });
    for (len, eos) in data {
        frames.push(Fr::D { len, eos });
    }
}

fn gen_case(rng: &mut Rng) -> Case {
    let mut c = Case { client: false, head_req: false, ext: false, hls: None, frames: vec![], cat: vec![] };
    let shape = rng.below(100);
    if shape < 30 {
        // server: request with 0..2 defects, body plan, maybe trailers
        c.cat.push("request".into());
        let mut head = base_request(rng);
        let nd = *rng.pick(&[0u64, 1, 1, 1, 2]);
        for _ in 0..nd {
            let l = inject(rng, &mut head, true);
            c.cat.push(l);
        }
        add_body(rng, &mut head, &mut c.frames, &mut c.cat);
        if rng.chance(1, 4) {
            trailers_plan(rng, &mut c.frames, &mut c.cat);
        }
    } else if shape < 38 {
        c.cat.push("request".into());
        let (mut head, lbl, ext) = connect_request(rng);
        c.ext = ext;
        c.cat.push(lbl);
        if rng.chance(1, 4) {
            let l = inject(rng, &mut head, true);
            c.cat.push(l);
        }
        c.frames.push(Fr::H { fields: head, eos: false });
        if rng.chance(1, 2) {
            c.frames.push(Fr::D { len: rng.below(20) as usize, eos: rng.chance(1, 2) });
        }
    } else if shape < 68 {
        // client: response (maybe after interim responses), body, trailers
        c.client = true;
        c.head_req = rng.chance(1, 5);
        c.cat.push(if c.head_req { "response-to-HEAD".into() } else { "response".into() });
        for _ in 0..*rng.pick(&[0u64, 0, 0, 1, 1, 2]) {
            let mut info = base_info(rng);
            let mut eos = false;
            match rng.below(8) {
                0 => {
                    let l = inject(rng, &mut info, false);
                    c.cat.push(format!("interim:{}", l));
                }
                1 => {
                    eos = true;
                    c.cat.push("interim:END_STREAM".into());
                }
                2 => {
                    info.push(f("content-length", *rng.pick(&["0", "5", "x"])));
                    c.cat.push("interim:content-length".into());
                }
                _ => c.cat.push("interim(valid)".into()),
            }
            c.frames.push(Fr::H { fields: info, eos });
        }
        let mut head = base_response(rng);
        let nd = *rng.pick(&[0u64, 1, 1, 1, 2]);
        for _ in 0..nd {
            let l = inject(rng, &mut head, false);
            c.cat.push(l);
        }
        if let Some((_, st)) = head.iter().find(|(n, _)| n == b":status") {
            if st == b"204" || st == b"304" {
                c.cat.push(format!("status-{}", String::from_utf8_lossy(st)));
            }
        }
        add_body(rng, &mut head, &mut c.frames, &mut c.cat);
        if rng.chance(1, 3) {
            trailers_plan(rng, &mut c.frames, &mut c.cat);
        }
    } else if shape < 78 {
        // client: PUSH_PROMISE
        c.client = true;
        c.cat.push("push".into());
        let mut head = base_request(rng);
        match rng.below(8) {
            0 | 1 | 2 => {
                for (k, v) in head.iter_mut() {
                    if k.as_slice() == b":method" {
                        *v = rng.pick(&[&b"GET"[..], &b"HEAD"[..]]).to_vec();
                    }
                }
                c.cat.push("push:safe-method".into());
            }
            3 => {
                for (k, v) in head.iter_mut() {
                    if k.as_slice() == b":method" {
                        *v = rng.pick(&[&b"POST"[..], &b"OPTIONS"[..], &b"PUT"[..], &b"CONNECT"[..]]).to_vec();
                    }
                }
                c.cat.push("push:unsafe-method".into());
            }
            4 => {
                head.push(f("content-length", *rng.pick(&["0", "5", "x", "", "00"])));
                c.cat.push("push:content-length".into());
            }
            _ => {
                let l = inject(rng, &mut head, true);
                c.cat.push(l);
            }
        }
        c.frames.push(Fr::PP { fields: head });
        if rng.chance(1, 2) {
            let mut resp = base_response(rng);
            add_body(rng, &mut resp, &mut c.frames, &mut c.cat);
        }
    } else if shape < 86 {
        // header-list size limits
        c.client = rng.chance(1, 2);
        c.hls = Some(*rng.pick(&[60u32, 100, 150, 200, 300]));
        c.cat.push("max-header-list-size".into());
        let mut head = if c.client { base_response(rng) } else { base_request(rng) };
        for _ in 0..rng.below(6) {
            head.push(f("x-fill", *rng.pick(&["aaaaaaaaaaaaaaaaaaaaaaaaaaaaaaaaaaaaaaaa", "b", "cccccccccccccccccccc"])));
        }
        if rng.chance(1, 3) {
            let l = inject(rng, &mut head, !c.client);
            c.cat.push(l);
        }
        c.frames.push(Fr::H { fields: head, eos: rng.chance(1, 2) });
    } else {
        // fully random field lists
        c.client = rng.chance(1, 2);
        c.head_req = c.client && rng.chance(1, 6);
        c.ext = rng.chance(1, 3);
        c.cat.push("random".into());
        let push = rng.chance(1, 5);
        let head = random_fields(rng);
        if push {
            c.frames.push(Fr::PP { fields: head });
        } else {
            c.frames.push(Fr::H { fields: head, eos: rng.chance(1, 3) });
        }
        for _ in 0..rng.below(3) {
            if rng.chance(1, 2) {
                c.frames.push(Fr::D { len: rng.below(6) as usize, eos: rng.chance(1, 2) });
            } else {
                c.frames.push(Fr::H { fields: random_fields(rng), eos: rng.chance(2, 3) });
            }
        }
    }
    c
}

fn bytes_of(v: &Value) -> Vec<u8> {
    v.as_array().map(|a| a.iter().map(|x| x.as_u64().unwrap_or(0) as u8).collect()).unwrap_or_default()
}

fn fields_of(v: &Value) -> Vec<Field> {
    v.as_array().map(|a| a.iter().map(|f| (bytes_of(&f[0]), bytes_of(&f[1]))).collect()).unwrap_or_default()
}

fn case_from_json(v: &Value) -> Case {
    let mut frames = Vec::new();
    if let Some(a) = v["frames"].as_array() {
        for fr in a {
            match fr["t"].as_str() {
                Some("H") => frames.push(Fr::H { fields: fields_of(&fr["fields"]), eos: fr["eos"].as_bool().unwrap_or(false) }),
                Some("D") => frames.push(Fr::D { len: fr["len"].as_u64().unwrap_or(0) as usize, eos: fr["eos"].as_bool().unwrap_or(false) }),
                Some("PP") => frames.push(Fr::PP { fields: fields_of(&fr["fields"]) }),
                _ => {}
            }
        }
    }
    Case {
        client: v["role"].as_str() == Some("client"),
        head_req: v["head_req"].as_bool().unwrap_or(false),
        ext: v["ext"].as_bool().unwrap_or(false),
        hls: v["hls"].as_u64().map(|x| x as u32),
        frames,
        cat: vec!["replay".into()],
    }
}

fn case(client: bool, head_req: bool, ext: bool, frames: Vec<Fr>, cat: &str) -> Case {
    Case { client, head_req, ext, hls: None, frames, cat: vec!["corpus".into(), cat.into()] }
}

fn h(fields: Vec<Field>, eos: bool) -> Fr {
    Fr::H { fields, eos }
}

/// hand-written tricky cases (run first)
fn corpus() -> Vec<Case> {
    let req = || vec![f(":method", "GET"), f(":scheme", "https"), f(":path", "/"), f(":authority", "example.com")];
    let mut v = Vec::new();
    v.push(case(false, false, false, vec![h(req(), true)], "valid GET"));
    v.push(case(true, false, false, vec![h(vec![f(":status", "200")], true)], "valid 200"));
    // KF-C13-1
    v.push(case(true, false, false, vec![h(vec![f("x-a", "v")], true)], "response without :status"));
    v.push(case(true, false, false, vec![h(vec![], true)], "empty response block"));
    // KF-C13-2
    v.push(case(true, false, false, vec![h(vec![f(":status", "200")], false), Fr::D { len: 3, eos: false }, h(vec![f(":status", "404"), f("x-t", "1")], true)], "pseudo field in response trailers"));
    v.push(case(false, false, false, vec![h({ let mut r = req(); r[0] = f(":method", "POST"); r }, false), Fr::D { len: 3, eos: false }, h(vec![f(":path", "/evil")], true)], "pseudo field in request trailers"));
    // repaired ones
    v.push(case(false, false, false, vec![h(vec![f(":method", "GET"), f(":scheme", "https"), f(":authority", "example.com")], true)], "GET without :path"));
    v.push(case(true, false, false, vec![h(vec![f(":status", "200"), f(":path", "/")], true)], "response with :path"));
    // candidates
    v.push(case(false, false, false, vec![h(vec![f(":method", "CONNECT")], false)], "CONNECT without :authority"));
    v.push(case(false, false, false, vec![h(vec![f(":method", "CONNECT"), f(":authority", "example.com:443")], false)], "plain CONNECT"));
    v.push(case(false, false, true, vec![h(vec![f(":method", "CONNECT"), f(":protocol", "websocket"), f(":scheme", "https"), f(":path", "/chat"), f(":authority", "example.com")], false)], "extended CONNECT"));
    v.push(case(false, false, true, vec![h(vec![f(":method", "CONNECT"), f(":protocol", "websocket"), f(":scheme", "https"), f(":path", "/chat")], false)], "extended CONNECT without :authority"));
    v.push(case(false, false, false, vec![h({ let mut r = req(); r[0] = f(":method", "POST"); r.push(f("content-length", "3")); r.push(f("content-length", "5")); r }, false), Fr::D { len: 3, eos: true }], "duplicated differing content-length (body = first)"));
    v.push(case(true, false, false, vec![h(vec![f(":status", "200"), f("content-length", "3"), f("content-length", "5")], false), Fr::D { len: 3, eos: true }], "response: duplicated differing content-length"));
    v.push(case(true, false, false, vec![h(vec![f(":status", "200"), f("content-length", "")], false), Fr::D { len: 0, eos: true }], "empty content-length value, empty body"));
    v.push(case(true, false, false, vec![h(vec![f(":status", "200"), f("content-length", "")], false), Fr::D { len: 2, eos: true }], "empty content-length value, 2 octets"));
    v.push(case(true, false, false, vec![h(vec![f(":status", "100")], true)], "1xx with END_STREAM"));
    v.push(case(true, false, false, vec![h(vec![f(":status", "103"), f("content-length", "5")], false), h(vec![f(":status", "200")], false), Fr::D { len: 2, eos: true }], "1xx content-length leaks into final response"));
    v.push(case(true, false, false, vec![h(vec![f(":status", "204")], false), Fr::D { len: 3, eos: true }], "204 with body octets"));
    v.push(case(true, false, false, vec![h(vec![f(":status", "304"), f("content-length", "10")], true)], "304 with content-length, END_STREAM on head"));
    v.push(case(true, false, false, vec![h(vec![f(":status", "204"), f("content-length", "10")], false), Fr::D { len: 0, eos: true }], "204 with content-length, END_STREAM on empty DATA"));
    v.push(case(true, true, false, vec![h(vec![f(":status", "200"), f("content-length", "10")], true)], "HEAD response with content-length"));
    v.push(case(true, true, false, vec![h(vec![f(":status", "200"), f("content-length", "10")], false), Fr::D { len: 10, eos: true }], "HEAD response with body octets"));
    v.push(case(true, true, false, vec![h(vec![f(":status", "200")], false), Fr::D { len: 0, eos: true }], "HEAD response, empty DATA"));
    v.push(case(false, false, false, vec![h({ let mut r = req(); r.push(f("x-ws", " lead")); r }, true)], "value with leading space"));
    v.push(case(true, false, false, vec![h(vec![f(":status", "200"), f("te", "trailers"), f("te", "gzip")], true)], "te trailers + te gzip"));
    v.push(case(true, false, false, vec![h(vec![f(":status", "200")], false), h(vec![f("x-t", "1")], false)], "trailers without END_STREAM"));
    v.push(case(true, false, false, vec![h(vec![f(":status", "200"), f("content-length", "5")], false), Fr::D { len: 3, eos: false }, h(vec![f("x-t", "1")], true)], "trailers end a short body"));
    v.push(case(true, false, false, vec![Fr::PP { fields: req() }, h(vec![f(":status", "200")], true)], "valid push"));
    v.push(case(true, false, false, vec![Fr::PP { fields: vec![f(":method", "GET"), f(":scheme", "https"), f(":path", "/")] }, h(vec![f(":status", "200")], true)], "push without :authority"));
    v.push(case(true, false, false, vec![Fr::PP { fields: { let mut r = req(); r[0] = f(":method", "POST"); r } }, h(vec![f(":status", "200")], true)], "push POST"));
    v.push(case(true, false, false, vec![Fr::PP { fields: { let mut r = req(); r.push(f("connection", "close")); r } }, h(vec![f(":status", "200")], true)], "push with connection field"));
    v.push(case(false, false, false, vec![h({ let mut r = req(); r.push(f("Upper", "v")); r }, true)], "uppercase name"));
    v.push(case(false, false, false, vec![h({ let mut r = req(); r.insert(0, f(":foo", "v")); r }, true)], "unknown pseudo"));
    v.push(case(false, false, false, vec![h({ let mut r = req(); r.push(f(":status", "200")); r }, true)], ":status after regular? no, after pseudo"));
    v.push(case(false, false, false, vec![h({ let mut r = req(); r.push(f("host", "other.example")); r }, true)], "host differs from :authority"));
    v.push(case(true, true, false, vec![h(vec![f(":status", "200"), f("content-length", "abc")], true)], "HEAD response with non-numeric content-length"));
    v.push(case(true, false, false, vec![h(vec![f(":status", "200"), f("content-length", "1")], true)], "content-length 1, END_STREAM on HEADERS"));
    v.push(case(false, false, false, vec![h({ let mut r = req(); r[0] = f(":method", "POST"); r.push(f("content-length", "1")); r }, true)], "request content-length 1, END_STREAM on HEADERS"));
    v.push(case(true, false, false, vec![h(vec![f(":status", "200"), f("content-length", "1")], false), Fr::D { len: 2, eos: true }], "content-length 1, two octets"));
    v.push(case(true, false, false, vec![h(vec![f(":status", "200"), f("content-length", "2")], false), Fr::D { len: 1, eos: true }], "content-length 2, one octet"));
    v.push(case(true, true, false, vec![h(vec![f(":status", "200"), f("content-length", "3"), f("content-length", "5")], true)], "HEAD response with conflicting content-length"));
    v.push(case(true, false, false, vec![Fr::PP { fields: { let mut r = req(); r.push(f("content-length", "0")); r.push(f("content-length", "5")); r } }, h(vec![f(":status", "200")], true)], "push with conflicting content-length 0 and 5"));
    v.push(case(true, false, false, vec![Fr::PP { fields: { let mut r = req(); r.push(f("content-length", "")); r } }, h(vec![f(":status", "200")], true)], "push with empty content-length"));
    v.push(case(true, false, false, vec![h(vec![f(":status", "103")], false), h(vec![f(":status", "100")], true)], "second 1xx with END_STREAM"));
    v.push(case(false, false, false, vec![h(vec![f(":method", "CONNECT"), f(":authority", "")], false)], "CONNECT with empty :authority"));
    v.push(case(false, false, true, vec![h(vec![f(":method", "CONNECT"), f(":protocol", "web\nsocket"), f(":scheme", "https"), f(":path", "/chat"), f(":authority", "example.com")], false)], "extended CONNECT, LF in :protocol"));
    v.push(case(true, false, false, vec![h(vec![f(":status", "200")], true), h(vec![f("x-t", "1")], false)], "HEADERS without END_STREAM after clean end"));
    v.push(case(true, false, false, vec![h(vec![f(":status", "200")], true), h(vec![f("x-t", "1")], true)], "HEADERS with END_STREAM after clean end"));
    v.push(case(true, false, false, vec![h(vec![f(":status", "200")], true), Fr::D { len: 1, eos: true }], "DATA after clean end"));
    v.push(case(false, false, false, vec![Fr::D { len: 1, eos: true }], "server: DATA on idle stream"));
    v.push(case(true, false, false, vec![Fr::D { len: 1, eos: true }], "client: DATA before response"));
    v.push(case(true, false, false, vec![h(vec![f("connection", "x")], false), h(vec![f(":status", "200")], true), Fr::D { len: 1, eos: true }], "frames after a codec-level stream error"));
    v.push(case(true, false, false, vec![h(vec![f(":status", "200")], false), Fr::PP { fields: req() }, Fr::PP { fields: { let mut r = req(); r.push(f("te", "x")); r } }, Fr::PP { fields: req() }], "push after malformed push"));
    v
}

// ------------------------------------------------------------------------------------------------
// send side

fn wire_fields_since(d: &Driver, from: usize) -> Value {
    let mut v = Vec::new();
    for fr in &d.out_frames[from..] {
        match fr["t"].as_str() {
            Some("HEADERS") | Some("PUSH_PROMISE") => v.push(json!({"t": fr["t"], "sid": fr["sid"], "eos": fr["eos"], "fields": fr["fields"]})),
            Some("RST_STREAM") => v.push(json!({"t":"RST_STREAM","sid":fr["sid"],"code":fr["code"]})),
            _ => {}
        }
    }
    Value::Array(v)
}

fn sfields(fs: &[(&str, &str)]) -> Value {
    Value::Array(fs.iter().map(|(a, b)| json!([a, b])).collect())
}

fn run_send(api: &str, fields: &[(&str, &str)], method: &str, uri: &str, status: u16) -> Value {
    let client = api == "send_request";
    let mut cfg = Config::default_client();
    cfg.role_client = client;
    let mut d = match new_driver(cfg, false) {
        Ok(d) => d,
        Err(e) => return json!({"error": e}),
    };
    settle(&mut d);
    feed(&mut d, &wire::settings_ack());
    let res;
    let from;
    if client {
        from = d.out_frames.len();
        res = d.exec(&json!({"op":"send_request","method":method,"uri":uri,"eos":true,"fields":sfields(fields)}));
        settle(&mut d);
    } else {
        let req = vec![f(":method", "GET"), f(":scheme", "https"), f(":path", "/"), f(":authority", "example.com")];
        feed(&mut d, &wire::headers(1, &wire::hpack_literal(&req), true, 0));
        let a = d.exec(&json!({"op":"poll_accept"}));
        if a.get("h").is_none() {
            return json!({"error": format!("accept failed: {}", a)});
        }
        match api {
            "send_response" => {
                from = d.out_frames.len();
                res = d.exec(&json!({"op":"send_response","h":0,"status":status,"eos":true,"fields":sfields(fields)}));
            }
            "send_informational" => {
                from = d.out_frames.len();
                res = d.exec(&json!({"op":"send_informational","h":0,"status":status,"fields":sfields(fields)}));
            }
            "push_request" => {
                from = d.out_frames.len();
                res = d.exec(&json!({"op":"push_request","h":0,"method":method,"uri":uri,"fields":sfields(fields)}));
            }
            _ => {
                // send_trailers
                d.exec(&json!({"op":"send_response","h":0,"status":200,"eos":false}));
                settle(&mut d);
                from = d.out_frames.len();
                let mut fs: Vec<(&str, &str)> = fields.to_vec();
                if fs.is_empty() {
                    fs.push(("x-trailer", "t"));
                }
                res = d.exec(&json!({"op":"send_trailers","h":0,"fields":sfields(&fs)}));
            }
        }
        settle(&mut d);
    }
    let w = wire_fields_since(&d, from);
    let _ = std::panic::catch_unwind(std::panic::AssertUnwindSafe(move || drop(d)));
    json!({"res": res, "wire": w})
}

fn send_cases(rng: &mut Rng, n: u64) -> Vec<(String, Vec<(&'static str, &'static str)>, &'static str, &'static str, u16)> {
    let apis = ["send_request", "send_response", "send_informational", "send_trailers", "push_request"];
    let pool: &[(&str, &str)] = &[
        ("connection", "close"),
        ("keep-alive", "timeout=5"),
        ("proxy-connection", "keep-alive"),
        ("transfer-encoding", "chunked"),
        ("upgrade", "h2c"),
        ("te", "trailers"),
        ("te", "gzip"),
        ("te", "Trailers"),
        ("te", ""),
        ("x-a", "1"),
        ("x-b", "2"),
        ("x-a", "3"),
        ("accept", "*/*"),
        ("content-length", "0"),
        ("trailer", "x-t"),
        ("host", "example.com"),
    ];
    let uris: &[(&str, &str)] = &[
        ("GET", "https://example.com/"),
        ("GET", "https://example.com/"),
        ("GET", "http://example.com/a?b"),
        ("HEAD", "https://example.com/x"),
        ("GET", "example.com"),
        ("GET", "/relative"),
        ("OPTIONS", "https://example.com"),
        ("CONNECT", "example.com:443"),
        ("CONNECT", "/"),
        ("POST", "https://example.com/p"),
    ];
    let mut out = Vec::new();
    for i in 0..n {
        let api = apis[(i % 5) as usize];
        let k = match rng.below(6) {
            0 => 0,
            1 | 2 => 1,
            3 | 4 => 2,
            _ => 3,
        };
        let mut fs = Vec::new();
        for _ in 0..k {
            // half of the draws come from the forbidden part of the pool
            let idx = if rng.chance(1, 2) { rng.below(9) } else { rng.below(pool.len() as u64) } as usize;
            fs.push(pool[idx]);
        }
        let (m, u) = if api == "send_request" || api == "push_request" { *rng.pick(uris) } else { ("GET", "https://example.com/") };
        let st = match api {
            "send_informational" => *rng.pick(&[100u16, 103]),
            _ => *rng.pick(&[200u16, 204, 404]),
        };
        out.push((api.to_string(), fs, m, u, st));
    }
    out
}

fn main() {
    let a = args();
    if std::env::var("VERIF_PANIC_VERBOSE").is_err() {
        std::panic::set_hook(Box::new(|_| {}));
    }
    let seed = arg_u64(&a, "seed", 1);
    let n = arg_u64(&a, "n", 100);
    let mode = a.get("mode").cloned().unwrap_or_else(|| "all".into());
    let mut hist: BTreeMap<String, u64> = BTreeMap::new();
    let mut idx = 0u64;
    let emit_recv = |c: &Case, idx: &mut u64, hist: &mut BTreeMap<String, u64>| {
        let obs = match std::panic::catch_unwind(std::panic::AssertUnwindSafe(|| run_recv(c))) {
            Ok(v) => v,
            Err(_) => json!({"panic": true}),
        };
        h2::verif::stop();
        for l in &c.cat {
            *hist.entry(l.clone()).or_default() += 1;
        }
        println!(
            "{}",
            json!({"i": *idx, "mode":"recv", "role": if c.client {"client"} else {"server"}, "head_req": c.head_req, "ext": c.ext, "hls": c.hls,
                   "cat": c.cat, "frames": frames_json(&c.frames), "obs": obs})
        );
        *idx += 1;
    };
    if let Some(path) = a.get("replay") {
        // re-run recorded receive cases: a JSON array (or one object) of {role, head_req, ext, hls, frames}
        let text = std::fs::read_to_string(path).expect("read replay file");
        let v: Value = serde_json::from_str(&text).expect("json");
        let list: Vec<Value> = match v {
            Value::Array(a) => a,
            Value::Object(_) => vec![if v.get("case").is_some() { v["case"].clone() } else { v }],
            _ => vec![],
        };
        for cv in &list {
            let c = case_from_json(cv);
            emit_recv(&c, &mut idx, &mut hist);
        }
        println!("{}", json!({"summary": {"cases": idx, "categories": hist}}));
        return;
    }
    if mode == "corpus" || mode == "all" || mode == "recv" {
        for c in corpus() {
            emit_recv(&c, &mut idx, &mut hist);
        }
    }
    if mode == "recv" || mode == "all" {
        for i in 0..n {
            let mut rng = Rng::new(seed.wrapping_mul(1_000_003).wrapping_add(i));
            let c = gen_case(&mut rng);
            emit_recv(&c, &mut idx, &mut hist);
        }
    }
    if mode == "send" || mode == "all" {
        let mut rng = Rng::new(seed.wrapping_mul(7_777_777).wrapping_add(13));
        let ns = if mode == "send" { n } else { (n / 4).max(40) };
        // fixed tricky cases first
        let mut cases: Vec<(String, Vec<(&'static str, &'static str)>, &'static str, &'static str, u16)> = vec![
            ("send_request".into(), vec![("te", "trailers"), ("te", "gzip")], "GET", "https://example.com/", 200),
            ("send_request".into(), vec![("te", "gzip"), ("te", "trailers")], "GET", "https://example.com/", 200),
            ("send_request".into(), vec![], "GET", "example.com", 200),
            ("send_request".into(), vec![], "CONNECT", "/", 200),
            ("send_request".into(), vec![], "GET", "/relative", 200),
            ("push_request".into(), vec![], "GET", "/relative", 200),
            ("push_request".into(), vec![], "POST", "https://example.com/", 200),
            ("send_trailers".into(), vec![("connection", "close")], "GET", "https://example.com/", 200),
            ("send_informational".into(), vec![("upgrade", "h2c")], "GET", "https://example.com/", 103),
            ("send_response".into(), vec![("transfer-encoding", "chunked")], "GET", "https://example.com/", 200),
        ];
        cases.extend(send_cases(&mut rng, ns));
        for (api, fs, m, u, st) in cases {
            let r = match std::panic::catch_unwind(std::panic::AssertUnwindSafe(|| run_send(&api, &fs, m, u, st))) {
                Ok(v) => v,
                Err(_) => json!({"panic": true}),
            };
            h2::verif::stop();
            *hist.entry(format!("send:{}", api)).or_default() += 1;
            println!("{}", json!({"i": idx, "mode":"send", "api": api, "fields": sfields(&fs), "method": m, "uri": u, "status": st, "obs": r}));
            idx += 1;
        }
    }
    println!("{}", json!({"summary": {"cases": idx, "categories": hist}}));
}

#[allow(dead_code)]
fn _unused(_: Handle, _: client::Builder) {}
