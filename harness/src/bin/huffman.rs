//! Correspondence harness for HPACK Huffman coding (`h2::hpack::huffman::{decode, encode}`).
//!
//!   huffman --seed S --n N --mode random|valid|mutate|exhaustive|stdin --maxlen L
//!
//! One JSON object per line:
//!   {"kind":"dec","gen":"..","input":[bytes],"ok":[bytes]|null}        null = Err(..)
//!   {"kind":"enc","gen":"..","input":[bytes],"out":[bytes]}
//! a panic inside h2 is reported as  "panic":true  (and "ok":null / "out":[]).
//! Final line: {"summary":{...}}.
//!
//! Modes
//!   valid      N random strings (skewed byte distributions): one "enc" case each, and one "dec"
//!              case on the encoder's output;
//!   mutate     N valid encodings damaged at byte or bit level (bit flips, truncation, appended
//!              0xff, EOS injected at a symbol boundary, wrong padding, garbage bytes);
//!   random     N uniformly random byte strings of length 0..=maxlen;
//!   exhaustive every byte string of length <= min(maxlen, 2); when maxlen >= 3 additionally N
//!              random strings of length 3..=maxlen;
//!   stdin      answers the cases given on stdin ({"kind":"dec"|"enc","input":[..]} per line);
//!              used for shrinking and for replays.
use bytes::BytesMut;
use h2::verif::hpack::{huffman_decode, huffman_encode};
use h2verif_harness::{arg_u64, args, json_bytes, Rng};
use std::collections::BTreeMap;
use std::io::BufRead;
use std::panic::{catch_unwind, AssertUnwindSafe};

struct Stats {
    counts: BTreeMap<String, u64>,
}

impl Stats {
    fn bump(&mut self, k: &str) {
        *self.counts.entry(k.to_string()).or_insert(0) += 1;
    }
}

/// Some(Ok(bytes)) / Some(Err) / None = panic
fn run_decode(input: &[u8]) -> Option<Result<Vec<u8>, String>> {
    catch_unwind(AssertUnwindSafe(|| {
        let mut buf = BytesMut::new();
        match huffman_decode(input, &mut buf) {
            Ok(b) => Ok(b.to_vec()),
            Err(e) => Err(format!("{:?}", e)),
        }
    }))
    .ok()
}

fn run_encode(input: &[u8]) -> Option<Vec<u8>> {
    catch_unwind(AssertUnwindSafe(|| {
        let mut dst = BytesMut::new();
        huffman_encode(input, &mut dst);
        dst.to_vec()
    }))
    .ok()
}

fn emit_dec(st: &mut Stats, gen: &str, input: &[u8]) {
    let r = run_decode(input);
    st.bump(&format!("dec.{}", gen));
    let (ok, panic) = match &r {
        Some(Ok(v)) => {
            st.bump("dec.result.ok");
            if !v.is_empty() {
                st.bump("dec.result.ok_nonempty");
            }
            (json_bytes(v), false)
        }
        Some(Err(_)) => {
            st.bump("dec.result.err");
            ("null".to_string(), false)
        }
        None => {
            st.bump("dec.result.panic");
            ("null".to_string(), true)
        }
    };
    println!(
        "{{\"kind\":\"dec\",\"gen\":\"{}\",\"input\":{},\"ok\":{}{}}}",
        gen,
        json_bytes(input),
        ok,
        if panic { ",\"panic\":true" } else { "" }
    );
}

fn emit_enc(st: &mut Stats, gen: &str, input: &[u8]) -> Vec<u8> {
    let r = run_encode(input);
    st.bump(&format!("enc.{}", gen));
    let (out, panic) = match r {
        Some(v) => (v, false),
        None => {
            st.bump("enc.result.panic");
            (Vec::new(), true)
        }
    };
    println!(
        "{{\"kind\":\"enc\",\"gen\":\"{}\",\"input\":{},\"out\":{}{}}}",
        gen,
        json_bytes(input),
        json_bytes(&out),
        if panic { ",\"panic\":true" } else { "" }
    );
    out
}

/// Skewed distributions of plain strings.
fn gen_string(rng: &mut Rng, maxlen: usize) -> (Vec<u8>, &'static str) {
    let len = match rng.below(10) {
        0 => 0,
        1 => 1,
        2 => rng.range(2, 4) as usize,
        3..=7 => rng.range(1, 24.min(maxlen as u64).max(1)) as usize,
        8 => rng.range(1, maxlen.max(1) as u64) as usize,
        _ => rng.range(1, (4 * maxlen).max(1) as u64) as usize,
    };
    const HDR: &[u8] = b"abcdefghijklmnopqrstuvwxyz0123456789-_./:=%;, ";
    const SHORT: &[u8] = b"012aceiost"; // the ten 5-bit codes
    match rng.below(6) {
        0 => ((0..len).map(|_| *rng.pick(HDR)).collect(), "ascii"),
        1 => ((0..len).map(|_| rng.range(0x20, 0x7e) as u8).collect(), "printable"),
        2 => (rng.bytes(len), "allbytes"),
        3 => (
            (0..len)
                .map(|_| if rng.chance(1, 2) { rng.range(0x80, 0xff) as u8 } else { rng.range(0, 0x1f) as u8 })
                .collect(),
            "longcodes",
        ),
        4 => ((0..len).map(|_| *rng.pick(SHORT)).collect(), "shortcodes"),
        _ => (
            (0..len)
                .map(|_| match rng.below(4) {
                    0 => rng.byte(),
                    1 => *rng.pick(&[0u8, 10, 13, 22, 249, 255, 127, 220, 92, 195, 208]),
                    _ => *rng.pick(HDR),
                })
                .collect(),
            "mixed",
        ),
    }
}

/// (nbits, code) of every byte value, recovered from the implementation's own encoder:
/// encode([b, b'0']) = code(b) ++ 00000 ++ ones, so the last zero bit gives the length.
/// Only used to *generate* bit-level damaged inputs; None if the encoder misbehaves.
fn learn_codes() -> Option<Vec<(u32, u64)>> {
    let mut v = Vec::with_capacity(256);
    for b in 0..=255u8 {
        let e = run_encode(&[b, b'0'])?;
        let total = e.len() * 8;
        let mut last_zero = None;
        for i in (0..total).rev() {
            if (e[i / 8] >> (7 - i % 8)) & 1 == 0 {
                last_zero = Some(i);
                break;
            }
        }
        let p = last_zero?;
        if p + 1 < 5 + 1 || p + 1 - 5 > 40 {
            return None;
        }
        let nbits = (p + 1 - 5) as u32;
        let mut code = 0u64;
        for i in 0..nbits as usize {
            code = (code << 1) | ((e[i / 8] >> (7 - i % 8)) & 1) as u64;
        }
        v.push((nbits, code));
    }
    Some(v)
}

struct BitWriter {
    bytes: Vec<u8>,
    nbits: usize,
}

impl BitWriter {
    fn new() -> Self {
        BitWriter { bytes: Vec::new(), nbits: 0 }
    }
    fn push(&mut self, bit: bool) {
        if self.nbits % 8 == 0 {
            self.bytes.push(0);
        }
        if bit {
            let i = self.nbits / 8;
            self.bytes[i] |= 1 << (7 - self.nbits % 8);
        }
        self.nbits += 1;
    }
    fn push_code(&mut self, nbits: u32, code: u64) {
        for i in (0..nbits).rev() {
            self.push((code >> i) & 1 == 1);
        }
    }
    fn pad_with(&mut self, rng: &mut Rng, style: u64) {
        while self.nbits % 8 != 0 {
            let bit = match style {
                0 => true,
                1 => false,
                _ => rng.chance(1, 2),
            };
            self.push(bit);
        }
    }
}

fn gen_mutation(rng: &mut Rng, codes: &Option<Vec<(u32, u64)>>, maxlen: usize) -> (Vec<u8>, &'static str) {
    let (s, _) = gen_string(rng, maxlen);
    let mut e = run_encode(&s).unwrap_or_default();
    let kind = rng.below(9);
    match kind {
        0 => {
            if e.is_empty() {
                e.push(rng.byte());
            }
            for _ in 0..rng.range(1, 3) {
                let i = rng.below(e.len() as u64) as usize;
                e[i] ^= 1 << rng.below(8);
            }
            (e, "bitflip")
        }
        1 => {
            let k = rng.range(1, 3) as usize;
            let n = e.len().saturating_sub(k);
            e.truncate(n);
            (e, "truncate")
        }
        2 => {
            for _ in 0..rng.range(1, 5) {
                e.push(0xff);
            }
            (e, "append_ff")
        }
        3 | 4 | 5 => {
            // bit-level: rebuild the code string with damage
            let codes = match codes {
                Some(c) => c,
                None => return (e, "valid_unlearned"),
            };
            let mut w = BitWriter::new();
            let eos_at = rng.below(s.len() as u64 + 1) as usize;
            let name;
            let sub = if kind == 3 { 0 } else { rng.range(1, 4) };
            for (i, &b) in s.iter().enumerate() {
                if sub == 0 && i == eos_at {
                    w.push_code(30, 0x3fff_ffff);
                }
                let (n, c) = codes[b as usize];
                if sub == 3 && i + 1 == s.len() {
                    // incomplete last code
                    let keep = rng.below(n as u64) as u32;
                    w.push_code(keep, c >> (n - keep));
                } else {
                    w.push_code(n, c);
                }
            }
            if sub == 0 && eos_at == s.len() {
                w.push_code(30, 0x3fff_ffff);
            }
            match sub {
                0 => {
                    name = "eos_injected";
                    w.pad_with(rng, 0);
                }
                1 => {
                    name = "zero_padding";
                    if w.nbits % 8 == 0 {
                        w.push(false);
                    }
                    w.pad_with(rng, 1);
                }
                2 => {
                    name = "random_padding";
                    if w.nbits % 8 == 0 {
                        w.push(rng.chance(1, 2));
                    }
                    w.pad_with(rng, 2);
                }
                3 => {
                    name = "cut_last_code";
                    w.pad_with(rng, 0);
                }
                _ => {
                    name = "long_ones_padding";
                    w.pad_with(rng, 0);
                    for _ in 0..rng.range(1, 4) {
                        w.bytes.push(0xff);
                    }
                }
            }
            (w.bytes, name)
        }
        6 => {
            if e.is_empty() {
                e.push(rng.byte());
            } else {
                let i = e.len() - 1;
                e[i] = rng.byte();
            }
            (e, "last_byte_random")
        }
        7 => {
            let i = rng.below(e.len() as u64 + 1) as usize;
            e.insert(i, rng.byte());
            (e, "insert_byte")
        }
        _ => {
            // two valid encodings glued together (padding of the first lands mid-string)
            let (s2, _) = gen_string(rng, maxlen);
            let e2 = run_encode(&s2).unwrap_or_default();
            e.extend_from_slice(&e2);
            (e, "glued")
        }
    }
}

fn parse_bytes(v: &serde_json::Value) -> Vec<u8> {
    v.as_array()
        .map(|a| a.iter().map(|x| x.as_u64().unwrap_or(0) as u8).collect())
        .unwrap_or_default()
}

fn main() {
    // keep panic messages of caught panics off the output
    std::panic::set_hook(Box::new(|_| {}));
    let a = args();
    let seed = arg_u64(&a, "seed", 1);
    let n = arg_u64(&a, "n", 100);
    let maxlen = arg_u64(&a, "maxlen", 40) as usize;
    let mode = a.get("mode").cloned().unwrap_or_else(|| "valid".to_string());
    let mut rng = Rng::new(seed ^ 0x4855_4646); // "HUFF"
    let mut st = Stats { counts: BTreeMap::new() };

    match mode.as_str() {
        "valid" => {
            for _ in 0..n {
                let (s, dist) = gen_string(&mut rng, maxlen);
                let e = emit_enc(&mut st, &format!("valid:{}", dist), &s);
                emit_dec(&mut st, &format!("valid:{}", dist), &e);
            }
        }
        "mutate" => {
            let codes = learn_codes();
            if codes.is_none() {
                st.bump("mutate.codes_not_learned");
            }
            for _ in 0..n {
                let (e, name) = gen_mutation(&mut rng, &codes, maxlen);
                emit_dec(&mut st, &format!("mutate:{}", name), &e);
            }
        }
        "random" => {
            for _ in 0..n {
                let len = rng.below(maxlen as u64 + 1) as usize;
                let mut v = rng.bytes(len);
                // bias towards bytes with many one-bits so that long codes and EOS prefixes occur
                if rng.chance(1, 3) {
                    for b in v.iter_mut() {
                        if rng.chance(1, 2) {
                            *b |= rng.byte();
                        }
                        if rng.chance(1, 4) {
                            *b = 0xff;
                        }
                    }
                }
                emit_dec(&mut st, "random", &v);
            }
        }
        "exhaustive" => {
            emit_dec(&mut st, "exhaustive:0", &[]);
            if maxlen >= 1 {
                for b0 in 0..=255u8 {
                    emit_dec(&mut st, "exhaustive:1", &[b0]);
                }
            }
            if maxlen >= 2 {
                for b0 in 0..=255u8 {
                    for b1 in 0..=255u8 {
                        emit_dec(&mut st, "exhaustive:2", &[b0, b1]);
                    }
                }
            }
            if maxlen >= 3 {
                for _ in 0..n {
                    let len = rng.range(3, maxlen as u64) as usize;
                    let v = rng.bytes(len);
                    emit_dec(&mut st, "sampled:3plus", &v);
                }
            }
        }
        "stdin" => {
            let stdin = std::io::stdin();
            for line in stdin.lock().lines() {
                let line = match line {
                    Ok(l) => l,
                    Err(_) => break,
                };
                let v: serde_json::Value = match serde_json::from_str(line.trim()) {
                    Ok(v) => v,
                    Err(_) => continue,
                };
                let input = parse_bytes(&v["input"]);
                match v["kind"].as_str() {
                    Some("enc") => {
                        emit_enc(&mut st, "stdin", &input);
                    }
                    _ => emit_dec(&mut st, "stdin", &input),
                }
            }
        }
        other => {
            eprintln!("unknown mode {}", other);
            std::process::exit(2);
        }
    }

    let mut s = String::from("{\"summary\":{");
    s.push_str(&format!("\"mode\":\"{}\",\"seed\":{},\"n\":{},\"maxlen\":{}", mode, seed, n, maxlen));
    for (k, v) in &st.counts {
        s.push_str(&format!(",\"{}\":{}", k, v));
    }
    s.push_str("}}");
    println!("{}", s);
}
