//! Correspondence harness for the HPACK encoder (property C10).
//!
//!   hpackenc --seed S --n N --mode mixed|evict|resize|static|sensitive|replay
//!
//! A case is a HISTORY of one `h2::verif::hpack::Encoder::new(init, cap)`: 1..8 header blocks,
//! before each block 0..3 `update_max_size` calls.  One JSON line per block:
//!
//!   {"h":history id,"b":block index,"init":..,"cap":..,"ups":[..],
//!    "fields":[[name octets | null, value octets, sensitive],..],   null = `Field{name: None}`
//!    "out":[..] | null (null = `encode` panicked; the history ends there; then also
//!                       "panic":"no-previous-name"|"other", the class of the panic message),
//!    "table":{"size":..,"max":..,"len":..[,"entries":[[name,value],..]]},  Encoder::verif_table()
//!                                     (entries, newest first, only on the last block of a history)
//!    "dec":{"same":true} | {"same":false,"got":[[name,value],..]} | {"err":"..."},
//!                                     h2's own Decoder on "out": same = exactly the submitted
//!                                     (name, value) list, names of nameless fields resolved
//!    "dsync":bool}                    Decoder::verif_table() == Encoder::verif_table()
//!
//! The decoder is the independent oracle inside the harness: one `Decoder::new(min(init,4096))`
//! per history, `queue_size_update(v)` for every `update_max_size(v)`, fed every output block in
//! order.  `replay` reads histories from stdin, one per line:
//!   {"init":..,"cap":..,"blocks":[{"ups":[..],"fields":[[name|null,value,sens],..]},..]}
//! Final line {"summary":{..}}: distribution of representation kinds (by first-octet class),
//! string codings, size updates, evictions, table sizes.

use bytes::{Bytes, BytesMut};
use h2::ext::Protocol;
use h2::verif::hpack::{BytesStr, Decoder, DecoderError, Encoder, Header, NeedMore};
use h2verif_harness::{arg_u64, args, json_bytes, Rng};
use http::header::{HeaderName, HeaderValue};
use http::{Method, StatusCode};
use std::collections::BTreeMap;
use std::io::{BufRead, Cursor};
use std::ops::ControlFlow;
use std::panic::{catch_unwind, AssertUnwindSafe};

const MAX_ALLOWED: usize = 4096;

thread_local! {
    static PANIC_MSG: std::cell::RefCell<String> = const { std::cell::RefCell::new(String::new()) };
}

#[derive(Clone, Debug)]
struct FieldIn {
    name: Option<Vec<u8>>,
    value: Vec<u8>,
    sens: bool,
}

#[derive(Clone, Debug, Default)]
struct BlockIn {
    ups: Vec<usize>,
    fields: Vec<FieldIn>,
}

#[derive(Clone, Debug)]
struct History {
    init: usize,
    cap: usize,
    blocks: Vec<BlockIn>,
}

// ------------------------------------------------------------------------------------------
// building h2's Header values

fn bytes_str(v: &[u8]) -> Result<BytesStr, String> {
    BytesStr::try_from(Bytes::copy_from_slice(v)).map_err(|_| "utf8".to_string())
}

fn build_header(f: &FieldIn) -> Result<Header<Option<HeaderName>>, String> {
    let value = || -> Result<HeaderValue, String> {
        let mut hv = HeaderValue::from_bytes(&f.value).map_err(|_| "value".to_string())?;
        if f.sens {
            hv.set_sensitive(true);
        }
        Ok(hv)
    };
    let name = match &f.name {
        None => {
            return Ok(Header::Field {
                name: None,
                value: value()?,
            })
        }
        Some(n) => n,
    };
    match &name[..] {
        b":authority" => Ok(Header::Authority(bytes_str(&f.value)?)),
        b":method" => Ok(Header::Method(
            Method::from_bytes(&f.value).map_err(|_| "method".to_string())?,
        )),
        b":scheme" => Ok(Header::Scheme(bytes_str(&f.value)?)),
        b":path" => Ok(Header::Path(bytes_str(&f.value)?)),
        b":protocol" => {
            let s = std::str::from_utf8(&f.value).map_err(|_| "utf8".to_string())?;
            Ok(Header::Protocol(Protocol::from(s)))
        }
        b":status" => Ok(Header::Status(
            StatusCode::from_bytes(&f.value).map_err(|_| "status".to_string())?,
        )),
        n if n.first() == Some(&b':') => Err("pseudo".to_string()),
        n => {
            let hn = HeaderName::from_bytes(n).map_err(|_| "name".to_string())?;
            if hn.as_str().as_bytes() != n {
                return Err("name-case".to_string());
            }
            Ok(Header::Field {
                name: Some(hn),
                value: value()?,
            })
        }
    }
}

fn err_name(e: &DecoderError) -> String {
    match e {
        DecoderError::InvalidRepresentation => "InvalidRepresentation".into(),
        DecoderError::InvalidIntegerPrefix => "InvalidIntegerPrefix".into(),
        DecoderError::InvalidTableIndex => "InvalidTableIndex".into(),
        DecoderError::InvalidHuffmanCode => "InvalidHuffmanCode".into(),
        DecoderError::InvalidUtf8 => "InvalidUtf8".into(),
        DecoderError::InvalidStatusCode => "InvalidStatusCode".into(),
        DecoderError::InvalidPseudoheader => "InvalidPseudoheader".into(),
        DecoderError::InvalidMaxDynamicSize => "InvalidMaxDynamicSize".into(),
        DecoderError::IntegerOverflow => "IntegerOverflow".into(),
        DecoderError::NeedMore(NeedMore::UnexpectedEndOfStream) => {
            "NeedMore(UnexpectedEndOfStream)".into()
        }
        DecoderError::NeedMore(NeedMore::IntegerUnderflow) => "NeedMore(IntegerUnderflow)".into(),
        DecoderError::NeedMore(NeedMore::StringUnderflow) => "NeedMore(StringUnderflow)".into(),
    }
}

// ------------------------------------------------------------------------------------------
// statistics

#[derive(Default)]
struct Stats {
    m: BTreeMap<String, u64>,
}

impl Stats {
    fn add(&mut self, k: &str, n: u64) {
        *self.m.entry(k.to_string()).or_insert(0) += n;
    }
    fn json(&self) -> String {
        let mut s = String::from("{");
        for (i, (k, v)) in self.m.iter().enumerate() {
            if i > 0 {
                s.push(',');
            }
            s.push_str(&format!("\"{}\":{}", k, v));
        }
        s.push('}');
        s
    }
}

/// Reads an HPACK integer; returns (value, octets used).
fn rd_int(b: &[u8], prefix: u32) -> Option<(u64, usize)> {
    let mask = ((1u32 << prefix) - 1) as u8;
    let first = *b.first()?;
    let mut v = (first & mask) as u64;
    if v < mask as u64 {
        return Some((v, 1));
    }
    let mut pos = 1;
    let mut shift = 0;
    loop {
        let x = *b.get(pos)?;
        pos += 1;
        v += ((x & 0x7f) as u64) << shift;
        shift += 7;
        if x & 0x80 == 0 {
            return Some((v, pos));
        }
        if shift > 56 {
            return None;
        }
    }
}

fn rd_str(b: &[u8], stats: &mut Stats) -> Option<usize> {
    let h = *b.first()? & 0x80 != 0;
    let (len, used) = rd_int(b, 7)?;
    if len == 0 {
        stats.add("str_empty", 1);
    } else if h {
        stats.add("str_huffman", 1);
    } else {
        stats.add("str_raw", 1);
    }
    if used > 1 {
        stats.add("str_len_multi_octet", 1);
    }
    let total = used + len as usize;
    if total > b.len() {
        return None;
    }
    Some(total)
}

/// Walk an emitted block and count representation kinds by first-octet class.
/// Returns (size updates, insertions) or None when the walk fails.
fn classify(out: &[u8], stats: &mut Stats) -> Option<(u64, u64)> {
    let mut pos = 0;
    let mut updates = 0;
    let mut inserts = 0;
    while pos < out.len() {
        let b = out[pos];
        let rest = &out[pos..];
        if b & 0x80 != 0 {
            let (i, used) = rd_int(rest, 7)?;
            stats.add(if i >= 62 { "rep_indexed_dynamic" } else { "rep_indexed_static" }, 1);
            if used > 1 {
                stats.add("index_multi_octet", 1);
            }
            pos += used;
        } else if b & 0x40 != 0 {
            let (i, used) = rd_int(rest, 6)?;
            pos += used;
            if i == 0 {
                stats.add("rep_incremental_new_name", 1);
                pos += rd_str(&out[pos..], stats)?;
            } else if i >= 62 {
                stats.add("rep_incremental_dynamic_name", 1);
            } else {
                stats.add("rep_incremental_static_name", 1);
            }
            pos += rd_str(&out[pos..], stats)?;
            inserts += 1;
        } else if b & 0x20 != 0 {
            let (v, used) = rd_int(rest, 5)?;
            stats.add("rep_size_update", 1);
            if v == 0 {
                stats.add("size_update_zero", 1);
            }
            updates += 1;
            pos += used;
        } else {
            let never = b & 0x10 != 0;
            let (i, used) = rd_int(rest, 4)?;
            pos += used;
            let k = match (never, i) {
                (false, 0) => "rep_literal_new_name",
                (false, i) if i >= 62 => "rep_literal_dynamic_name",
                (false, _) => "rep_literal_static_name",
                (true, 0) => "rep_never_new_name",
                (true, i) if i >= 62 => "rep_never_dynamic_name",
                (true, _) => "rep_never_static_name",
            };
            stats.add(k, 1);
            if i == 0 {
                pos += rd_str(&out[pos..], stats)?;
            }
            pos += rd_str(&out[pos..], stats)?;
        }
    }
    Some((updates, inserts))
}

// ------------------------------------------------------------------------------------------
// running the implementation

fn json_pairs(es: &[(Vec<u8>, Vec<u8>)]) -> String {
    let mut s = String::from("[");
    for (i, (n, v)) in es.iter().enumerate() {
        if i > 0 {
            s.push(',');
        }
        s.push_str(&format!("[{},{}]", json_bytes(n), json_bytes(v)));
    }
    s.push(']');
    s
}

fn json_fields(fs: &[FieldIn]) -> String {
    let mut s = String::from("[");
    for (i, f) in fs.iter().enumerate() {
        if i > 0 {
            s.push(',');
        }
        let n = match &f.name {
            Some(n) => json_bytes(n),
            None => "null".to_string(),
        };
        s.push_str(&format!("[{},{},{}]", n, json_bytes(&f.value), f.sens));
    }
    s.push(']');
    s
}

fn json_usizes(v: &[usize]) -> String {
    let mut s = String::from("[");
    for (i, x) in v.iter().enumerate() {
        if i > 0 {
            s.push(',');
        }
        s.push_str(&x.to_string());
    }
    s.push(']');
    s
}

fn run_history(hid: u64, h: &History, stats: &mut Stats) {
    let mut enc = match catch_unwind(|| Encoder::new(h.init, h.cap)) {
        Ok(e) => e,
        Err(_) => {
            println!("{{\"h\":{},\"b\":0,\"error\":\"Encoder::new panicked\"}}", hid);
            return;
        }
    };
    let mut dec = Decoder::new(h.init.min(MAX_ALLOWED));
    stats.add("histories", 1);
    stats.add(
        match h.init {
            0 => "init_zero",
            1..=32 => "init_below_one_entry",
            33..=200 => "init_tiny",
            201..=4095 => "init_mid",
            4096 => "init_4096",
            _ => "init_above_4096",
        },
        1,
    );
    let mut prev_len = 0usize;
    for (bi, b) in h.blocks.iter().enumerate() {
        let mut headers = Vec::new();
        let mut bad = None;
        for f in &b.fields {
            match build_header(f) {
                Ok(hd) => headers.push(hd),
                Err(e) => {
                    bad = Some(e);
                    break;
                }
            }
        }
        if let Some(e) = bad {
            println!(
                "{{\"h\":{},\"b\":{},\"error\":\"invalid input: {}\"}}",
                hid, bi, e
            );
            return;
        }
        for u in &b.ups {
            enc.update_max_size(*u);
            dec.queue_size_update(*u);
        }
        stats.add("blocks", 1);
        stats.add("fields", b.fields.len() as u64);
        stats.add("update_max_size_calls", b.ups.len() as u64);
        if b.fields.is_empty() {
            stats.add("blocks_empty", 1);
        }
        stats.add(
            "fields_sensitive",
            b.fields.iter().filter(|f| f.sens).count() as u64,
        );
        stats.add(
            "fields_nameless",
            b.fields.iter().filter(|f| f.name.is_none()).count() as u64,
        );
        let mut dst = BytesMut::new();
        let res = catch_unwind(AssertUnwindSafe(|| enc.encode(headers, &mut dst)));
        let head = format!(
            "{{\"h\":{},\"b\":{},\"init\":{},\"cap\":{},\"ups\":{},\"fields\":{}",
            hid,
            bi,
            h.init,
            h.cap,
            json_usizes(&b.ups),
            json_fields(&b.fields)
        );
        if res.is_err() {
            stats.add("encode_panics", 1);
            let msg = PANIC_MSG.with(|m| m.borrow().clone());
            let class = if msg.contains("encoding header without name") {
                "no-previous-name"
            } else {
                "other"
            };
            println!("{},\"out\":null,\"panic\":\"{}\"}}", head, class);
            return;
        }
        let out = dst.to_vec();
        let table = enc.verif_table();
        // distribution
        match classify(&out, stats) {
            Some((updates, inserts)) => {
                let evicted = (prev_len as u64 + inserts).saturating_sub(table.0.len() as u64);
                stats.add("evictions", evicted);
                if updates == 0 && evicted > 0 {
                    stats.add("blocks_evicting_on_insert", 1);
                    stats.add("evictions_on_insert", evicted);
                }
                if updates > 0 && evicted > 0 {
                    stats.add("blocks_evicting_with_resize", 1);
                }
                if updates == 2 {
                    stats.add("blocks_two_size_updates", 1);
                }
                if updates > 0 {
                    stats.add("blocks_with_size_update", 1);
                }
            }
            None => stats.add("blocks_unclassifiable", 1),
        }
        prev_len = table.0.len();
        stats.add("out_octets", out.len() as u64);
        if table.0.len() >= 32 {
            stats.add("blocks_table_32plus_entries", 1);
        }
        // independent oracle: h2's own decoder
        let mut got: Vec<(Vec<u8>, Vec<u8>)> = Vec::new();
        let mut buf = BytesMut::from(&out[..]);
        let dres = catch_unwind(AssertUnwindSafe(|| {
            let mut cursor = Cursor::new(&mut buf);
            dec.decode(&mut cursor, |hd| {
                got.push((hd.name().as_slice().to_vec(), hd.value_slice().to_vec()));
                ControlFlow::Continue(())
            })
        }));
        // what was submitted, names of `name: None` fields resolved to the previous name
        let mut want: Vec<(Vec<u8>, Vec<u8>)> = Vec::new();
        let mut last_name: Vec<u8> = Vec::new();
        for f in &b.fields {
            if let Some(n) = &f.name {
                last_name = n.clone();
            }
            want.push((last_name.clone(), f.value.clone()));
        }
        let (djson, dsync) = match dres {
            Ok(Ok(())) => {
                let dt = dec.verif_table();
                let sync = dt == table;
                if !sync {
                    stats.add("decoder_table_differs", 1);
                }
                if got == want {
                    ("{\"same\":true}".to_string(), sync)
                } else {
                    stats.add("decoder_fields_differ", 1);
                    (format!("{{\"same\":false,\"got\":{}}}", json_pairs(&got)), sync)
                }
            }
            Ok(Err(e)) => {
                stats.add("decoder_errors", 1);
                (format!("{{\"err\":\"{}\"}}", err_name(&e)), false)
            }
            Err(_) => {
                stats.add("decoder_errors", 1);
                ("{\"err\":\"Panic\"}".to_string(), false)
            }
        };
        let tjson = if bi + 1 == h.blocks.len() {
            format!(
                "{{\"size\":{},\"max\":{},\"len\":{},\"entries\":{}}}",
                table.1,
                table.2,
                table.0.len(),
                json_pairs(&table.0)
            )
        } else {
            format!(
                "{{\"size\":{},\"max\":{},\"len\":{}}}",
                table.1,
                table.2,
                table.0.len()
            )
        };
        println!(
            "{},\"out\":{},\"table\":{},\"dec\":{},\"dsync\":{}}}",
            head,
            json_bytes(&out),
            tjson,
            djson,
            dsync
        );
    }
}

// ------------------------------------------------------------------------------------------
// generators

const STATIC_FIELD_NAMES: [&str; 47] = [
    "accept-charset",
    "accept-encoding",
    "accept-language",
    "accept-ranges",
    "accept",
    "access-control-allow-origin",
    "age",
    "allow",
    "authorization",
    "cache-control",
    "content-disposition",
    "content-encoding",
    "content-language",
    "content-length",
    "content-location",
    "content-range",
    "content-type",
    "cookie",
    "date",
    "etag",
    "expect",
    "expires",
    "from",
    "host",
    "if-match",
    "if-modified-since",
    "if-none-match",
    "if-range",
    "if-unmodified-since",
    "last-modified",
    "link",
    "location",
    "max-forwards",
    "proxy-authenticate",
    "proxy-authorization",
    "range",
    "referer",
    "refresh",
    "retry-after",
    "server",
    "set-cookie",
    "strict-transport-security",
    "transfer-encoding",
    "user-agent",
    "vary",
    "via",
    "www-authenticate",
];

const SKIP_NAMES: [&str; 9] = [
    "age",
    "authorization",
    "content-length",
    "etag",
    "if-modified-since",
    "if-none-match",
    "location",
    "cookie",
    "set-cookie",
];

/// names that are close to, but not, static-table names
const NEAR_NAMES: [&str; 10] = [
    "ag", "agee", "cookie2", "accept-", "accept-encodin", "x-age", "set-cookies", "vi", "hosts",
    "path",
];

const NAME_CHARS: &[u8] = b"abcdefghijklmnopqrstuvwxyz0123456789-_.~!#$%&'*+^`|";
const TOKEN_CHARS: &[u8] = b"ABCDEFGHIJKLMNOPQRSTUVWXYZabcdefghijklmnopqrstuvwxyz0123456789-_.!#$%&'*+^`|~";

struct Gen {
    rng: Rng,
    mode: String,
    names: Vec<Vec<u8>>,
    values: Vec<Vec<u8>>,
    cur_max: usize,
}

impl Gen {
    fn rand_name(&mut self) -> Vec<u8> {
        let len = match self.rng.below(10) {
            0 => 1,
            1..=6 => self.rng.range(2, 8) as usize,
            7..=8 => self.rng.range(9, 24) as usize,
            _ => self.rng.range(25, 70) as usize,
        };
        let mut n: Vec<u8> = (0..len)
            .map(|_| {
                if self.rng.chance(9, 10) {
                    NAME_CHARS[self.rng.below(37) as usize]
                } else {
                    *self.rng.pick(NAME_CHARS)
                }
            })
            .collect();
        if n[0] == b':' {
            n[0] = b'x';
        }
        n
    }

    fn rand_value_bytes(&mut self, len: usize) -> Vec<u8> {
        let flavour = self.rng.below(10);
        (0..len)
            .map(|_| match flavour {
                0..=5 => self.rng.range(0x20, 0x7e) as u8,
                6..=7 => *self.rng.pick(b"abcdefghijklmnopqrstuvwxyz0123456789 ,;=/-"),
                8 => {
                    // anything a HeaderValue accepts, including TAB and 0x80..0xff
                    loop {
                        let b = self.rng.byte();
                        if b == 9 || (b >= 32 && b != 127) {
                            break b;
                        }
                    }
                }
                _ => self.rng.range(0x80, 0xff) as u8,
            })
            .collect()
    }

    fn rand_value(&mut self) -> Vec<u8> {
        let len = match self.rng.below(20) {
            0..=1 => 0,
            2..=12 => self.rng.range(1, 10) as usize,
            13..=17 => self.rng.range(11, 32) as usize,
            18 => self.rng.range(33, 125) as usize,
            _ => match self.rng.below(16) {
                0..=9 => self.rng.range(126, 170) as usize,
                10..=13 => self.rng.range(171, 420) as usize,
                _ => self.rng.range(421, 1200) as usize,
            },
        };
        self.rand_value_bytes(len)
    }

    fn pool_value(&mut self) -> Vec<u8> {
        if self.values.is_empty() || self.rng.chance(1, 6) {
            self.rand_value()
        } else {
            let i = self.rng.below(self.values.len() as u64) as usize;
            self.values[i].clone()
        }
    }

    fn pool_name(&mut self) -> Vec<u8> {
        if self.names.is_empty() || self.rng.chance(1, 12) {
            self.rand_name()
        } else {
            let i = self.rng.below(self.names.len() as u64) as usize;
            self.names[i].clone()
        }
    }

    fn ascii_value(&mut self, lo: u64, hi: u64) -> Vec<u8> {
        let len = self.rng.range(lo, hi) as usize;
        (0..len)
            .map(|_| *self.rng.pick(b"abcdefghijklmnopqrstuvwxyz0123456789/.-_?=&%"))
            .collect()
    }

    fn pseudo(&mut self) -> FieldIn {
        let (name, value): (&[u8], Vec<u8>) = match self.rng.below(12) {
            0..=2 => (
                b":method",
                match self.rng.below(8) {
                    0..=2 => b"GET".to_vec(),
                    3..=4 => b"POST".to_vec(),
                    5 => b"PATCH".to_vec(),
                    6 => b"DELETE".to_vec(),
                    _ => {
                        let len = self.rng.range(1, 10) as usize;
                        (0..len).map(|_| *self.rng.pick(TOKEN_CHARS)).collect()
                    }
                },
            ),
            3..=5 => (
                b":path",
                match self.rng.below(8) {
                    0..=1 => b"/".to_vec(),
                    2 => b"/index.html".to_vec(),
                    3..=4 => {
                        let mut v = b"/".to_vec();
                        v.extend(self.pool_value().iter().filter(|b| b.is_ascii()));
                        v
                    }
                    5 => Vec::new(),
                    _ => {
                        let mut v = b"/".to_vec();
                        v.extend(self.ascii_value(0, 80));
                        v
                    }
                },
            ),
            6..=7 => (
                b":scheme",
                match self.rng.below(6) {
                    0..=1 => b"http".to_vec(),
                    2..=3 => b"https".to_vec(),
                    4 => b"ftp".to_vec(),
                    _ => self.ascii_value(0, 8),
                },
            ),
            8..=9 => (
                b":status",
                match self.rng.below(10) {
                    0..=1 => b"200".to_vec(),
                    2 => b"204".to_vec(),
                    3 => b"206".to_vec(),
                    4 => b"304".to_vec(),
                    5 => b"400".to_vec(),
                    6 => b"404".to_vec(),
                    7 => b"500".to_vec(),
                    _ => format!("{}", self.rng.range(100, 999)).into_bytes(),
                },
            ),
            10 => (
                b":authority",
                match self.rng.below(4) {
                    0 => b"example.com".to_vec(),
                    1 => Vec::new(),
                    _ => {
                        let p: Vec<u8> = self.pool_value().into_iter().filter(|b| b.is_ascii()).collect();
                        p
                    }
                },
            ),
            _ => (
                b":protocol",
                match self.rng.below(3) {
                    0 => b"websocket".to_vec(),
                    1 => b"connect-udp".to_vec(),
                    _ => self.ascii_value(0, 12),
                },
            ),
        };
        FieldIn {
            name: Some(name.to_vec()),
            value,
            sens: false,
        }
    }

    /// a value whose header length sits around the "don't index large headers" threshold
    /// (`len * 4 > max * 3`) or around / above the table size
    fn large_value(&mut self, name_len: usize) -> Vec<u8> {
        let max = self.cur_max;
        let target = match self.rng.below(24) {
            0..=11 => (max * 3 / 4 + self.rng.below(5) as usize).saturating_sub(2),
            12..=16 => (max + self.rng.below(5) as usize).saturating_sub(2),
            17..=22 => max + self.rng.range(1, 300) as usize,
            _ => {
                if self.rng.chance(1, 6) {
                    self.rng.range(4000, 12000) as usize
                } else {
                    max * 3 / 4 + 1
                }
            }
        };
        let len = target.saturating_sub(32 + name_len).min(40000);
        self.rand_value_bytes(len)
    }

    fn field(&mut self) -> FieldIn {
        let w: [u64; 9] = match self.mode.as_str() {
            //            pseudo exact statC skip  custP custF large near  huge
            "evict" => [4, 2, 6, 4, 40, 25, 6, 4, 1],
            "resize" => [8, 3, 10, 6, 40, 15, 5, 3, 1],
            "static" => [35, 10, 30, 15, 6, 2, 2, 4, 0],
            "sensitive" => [6, 4, 18, 18, 35, 10, 4, 4, 0],
            _ => [14, 4, 14, 9, 30, 14, 5, 3, 1],
        };
        let mut w = w;
        if self.cur_max > 700 {
            // a header around the size of a big table is a few thousand octets: keep them rare
            w[6] = if self.rng.chance(1, 10) { 1 } else { 0 };
        }
        if !self.rng.chance(1, 60) {
            w[8] = 0;
        }
        let total: u64 = w.iter().sum();
        let mut r = self.rng.below(total);
        let mut cat = 0;
        for (i, x) in w.iter().enumerate() {
            if r < *x {
                cat = i;
                break;
            }
            r -= *x;
        }
        let mut f = match cat {
            0 => self.pseudo(),
            1 => FieldIn {
                // the only `Field` name with an exact-value static entry: the exact value and
                // near misses of it
                name: Some(b"accept-encoding".to_vec()),
                value: match self.rng.below(10) {
                    0..=4 => b"gzip, deflate".to_vec(),
                    5 => b"gzip,deflate".to_vec(),
                    6 => b"gzip, deflate ".to_vec(),
                    7 => b"gzip".to_vec(),
                    8 => b"gzip, deflatf".to_vec(),
                    _ => self.pool_value(),
                },
                sens: false,
            },
            2 => FieldIn {
                name: Some(self.rng.pick(&STATIC_FIELD_NAMES).as_bytes().to_vec()),
                value: self.pool_value(),
                sens: false,
            },
            3 => FieldIn {
                name: Some(self.rng.pick(&SKIP_NAMES).as_bytes().to_vec()),
                value: self.pool_value(),
                sens: false,
            },
            4 => FieldIn {
                name: Some(self.pool_name()),
                value: self.pool_value(),
                sens: false,
            },
            5 => FieldIn {
                name: Some(self.pool_name()),
                value: self.rand_value(),
                sens: false,
            },
            6 => {
                let name = if self.rng.chance(1, 3) {
                    self.rng.pick(&STATIC_FIELD_NAMES).as_bytes().to_vec()
                } else {
                    self.pool_name()
                };
                let value = self.large_value(name.len());
                // keep it in the pool sometimes, so that a too-large header repeats
                if value.len() < 200 && self.rng.chance(1, 3) {
                    self.values.push(value.clone());
                }
                FieldIn {
                    name: Some(name),
                    value,
                    sens: false,
                }
            }
            7 => FieldIn {
                name: Some(self.rng.pick(&NEAR_NAMES).as_bytes().to_vec()),
                value: self.pool_value(),
                sens: false,
            },
            _ => {
                let len = self.rng.range(6000, 22000) as usize;
                FieldIn {
                    name: Some(self.pool_name()),
                    value: self.rand_value_bytes(len),
                    sens: false,
                }
            }
        };
        let is_pseudo = f.name.as_ref().map(|n| n.first() == Some(&b':')).unwrap_or(false);
        let (num, den) = match self.mode.as_str() {
            "sensitive" => (2, 5),
            "static" => (1, 10),
            _ => (1, 14),
        };
        if !is_pseudo && self.rng.chance(num, den) {
            f.sens = true;
        }
        f
    }

    fn block_fields(&mut self) -> Vec<FieldIn> {
        let n = match self.rng.below(25) {
            0..=1 => 0,
            2..=13 => self.rng.range(1, 5) as usize,
            14..=21 => self.rng.range(6, 14) as usize,
            _ => self.rng.range(15, 40) as usize,
        };
        let mut fs: Vec<FieldIn> = Vec::new();
        while fs.len() < n {
            let f = self.field();
            let is_pseudo = f.name.as_ref().unwrap().first() == Some(&b':');
            fs.push(f);
            // the HeaderMap iterator yields `name: None` for further values of the same name
            if !is_pseudo {
                while fs.len() < n && self.rng.chance(1, 7) {
                    let sens = self.rng.chance(1, 8);
                    let value = self.pool_value();
                    fs.push(FieldIn {
                        name: None,
                        value,
                        sens,
                    });
                }
            }
        }
        fs
    }

    fn size_value(&mut self) -> usize {
        let m = self.cur_max;
        match self.rng.below(16) {
            0 => 0,
            1 => self.rng.range(1, 32) as usize,
            2..=4 => self.rng.range(33, 200) as usize,
            5 => m,
            6 => m.saturating_sub(1),
            7 => m + 1,
            8..=9 => self.rng.below(m as u64 + 1) as usize,
            10 => 4095,
            11 => 4096,
            12 => 4097,
            13 => self.rng.range(201, 4095) as usize,
            14 => self.rng.range(4098, 70000) as usize,
            _ => 1 << self.rng.range(20, 40),
        }
    }

    fn updates(&mut self) -> Vec<usize> {
        let p = match self.mode.as_str() {
            "resize" => 70,
            "evict" => 12,
            "static" => 10,
            _ => 25,
        };
        if !self.rng.chance(p, 100) {
            return Vec::new();
        }
        let m = self.cur_max as u64;
        let lower = |g: &mut Gen| -> usize {
            match g.rng.below(4) {
                0 => 0,
                1 => g.rng.range(33, 200).min(m.saturating_sub(1)) as usize,
                _ => g.rng.below(m.max(1)) as usize,
            }
        };
        let higher = |g: &mut Gen| -> usize {
            match g.rng.below(4) {
                0 => 4096,
                1 => (m + 1 + g.rng.below(200)) as usize,
                2 => g.rng.range(m + 1, (m + 1).max(4096)) as usize,
                _ => g.rng.range(4097, 100000) as usize,
            }
        };
        let ups = match self.rng.below(10) {
            0..=1 => vec![lower(self)],
            2 => vec![higher(self)],
            3..=4 => {
                let a = lower(self);
                let b = higher(self);
                vec![a, b]
            }
            5 => {
                let a = higher(self);
                let b = lower(self);
                vec![a, b]
            }
            6 => {
                let a = lower(self);
                let b = a + self.rng.below(300) as usize;
                vec![a, b]
            }
            7 => vec![self.cur_max],
            8 => {
                let a = lower(self);
                let b = higher(self);
                let c = lower(self);
                vec![a, b, c]
            }
            _ => {
                let k = self.rng.range(1, 3);
                (0..k).map(|_| self.size_value()).collect()
            }
        };
        if let Some(l) = ups.last() {
            self.cur_max = (*l).min(MAX_ALLOWED);
        }
        ups
    }

    fn history(&mut self) -> History {
        let r = self.rng.below(20);
        let init = if self.mode == "evict" && r <= 15 {
            if r <= 9 {
                self.rng.range(33, 200) as usize
            } else {
                self.rng.range(201, 1200) as usize
            }
        } else {
            match self.rng.below(19) {
                0 => 0,
                1 => self.rng.range(1, 32) as usize,
                2..=5 => self.rng.range(33, 200) as usize,
                6..=8 => self.rng.range(201, 4095) as usize,
                9..=16 => 4096,
                17 => 4097,
                _ => self.rng.range(4098, 100000) as usize,
            }
        };
        let cap = match self.rng.below(6) {
            0..=2 => 0,
            3 => 1,
            4 => self.rng.range(2, 20) as usize,
            _ => self.rng.range(21, 300) as usize,
        };
        self.cur_max = init.min(MAX_ALLOWED);
        // name / value pools: small pools make repeats (dynamic indexing, same name with
        // different values); big pools fill the table with many entries
        let n_names = match (self.mode.as_str(), self.rng.below(4)) {
            ("evict", 0) => self.rng.range(40, 160),
            ("evict", _) => self.rng.range(2, 12),
            (_, 0) => self.rng.range(1, 3),
            (_, 1..=2) => self.rng.range(3, 10),
            _ => self.rng.range(11, 60),
        };
        self.names = (0..n_names).map(|_| self.rand_name()).collect();
        let n_values = match self.rng.below(4) {
            0 => 1,
            1..=2 => self.rng.range(2, 5),
            _ => self.rng.range(6, 20),
        };
        self.values = (0..n_values).map(|_| self.rand_value()).collect();
        if self.rng.chance(1, 2) {
            self.values.push(Vec::new());
        }
        let n_blocks = match self.rng.below(10) {
            0..=5 => self.rng.range(1, 4) as usize,
            _ => self.rng.range(5, 8) as usize,
        };
        let mut blocks = Vec::new();
        for bi in 0..n_blocks {
            let ups = if bi == 0 && self.rng.chance(2, 3) {
                Vec::new()
            } else {
                self.updates()
            };
            let mut fields = self.block_fields();
            // rarely: the first field of a block has no name (the Rust code panics)
            if !fields.is_empty() && self.rng.chance(1, 400) {
                fields[0].name = None;
            }
            blocks.push(BlockIn { ups, fields });
        }
        History { init, cap, blocks }
    }
}

// ------------------------------------------------------------------------------------------
// replay input (a very small JSON reader: arrays, numbers, null, true/false, objects with the
// fixed keys of the format above)

fn parse_history(line: &str) -> Option<History> {
    let v: serde_json::Value = serde_json::from_str(line).ok()?;
    let init = v.get("init")?.as_u64()? as usize;
    let cap = v.get("cap").and_then(|c| c.as_u64()).unwrap_or(0) as usize;
    let mut blocks = Vec::new();
    for b in v.get("blocks")?.as_array()? {
        let ups = b
            .get("ups")?
            .as_array()?
            .iter()
            .filter_map(|x| x.as_u64().map(|x| x as usize))
            .collect();
        let mut fields = Vec::new();
        for f in b.get("fields")?.as_array()? {
            let f = f.as_array()?;
            let bytes = |x: &serde_json::Value| -> Option<Vec<u8>> {
                Some(x.as_array()?.iter().filter_map(|b| b.as_u64().map(|b| b as u8)).collect())
            };
            let name = if f.first()?.is_null() {
                None
            } else {
                Some(bytes(f.first()?)?)
            };
            fields.push(FieldIn {
                name,
                value: bytes(f.get(1)?)?,
                sens: f.get(2).and_then(|s| s.as_bool()).unwrap_or(false),
            });
        }
        blocks.push(BlockIn { ups, fields });
    }
    Some(History { init, cap, blocks })
}

fn main() {
    let a = args();
    let seed = arg_u64(&a, "seed", 1);
    let n = arg_u64(&a, "n", 100);
    let mode = a.get("mode").cloned().unwrap_or_else(|| "mixed".to_string());
    std::panic::set_hook(Box::new(|info| {
        let msg = if let Some(s) = info.payload().downcast_ref::<&str>() {
            s.to_string()
        } else if let Some(s) = info.payload().downcast_ref::<String>() {
            s.clone()
        } else {
            String::new()
        };
        PANIC_MSG.with(|m| *m.borrow_mut() = msg);
    }));
    let mut stats = Stats::default();
    if mode == "replay" {
        let stdin = std::io::stdin();
        let mut hid = 0;
        for line in stdin.lock().lines() {
            let line = match line {
                Ok(l) => l,
                Err(_) => break,
            };
            if !line.trim_start().starts_with('{') {
                continue;
            }
            match parse_history(&line) {
                Some(h) => run_history(hid, &h, &mut stats),
                None => println!("{{\"h\":{},\"b\":0,\"error\":\"unparsable history\"}}", hid),
            }
            hid += 1;
        }
    } else {
        let salt = match mode.as_str() {
            "mixed" => 11,
            "evict" => 23,
            "resize" => 37,
            "static" => 41,
            "sensitive" => 53,
            _ => {
                eprintln!("unknown mode {}", mode);
                std::process::exit(2);
            }
        };
        let mut g = Gen {
            rng: Rng::new(seed.wrapping_mul(1000003).wrapping_add(salt)),
            mode: mode.clone(),
            names: Vec::new(),
            values: Vec::new(),
            cur_max: 0,
        };
        for hid in 0..n {
            let h = g.history();
            run_history(hid, &h, &mut stats);
        }
    }
    println!(
        "{{\"summary\":{{\"mode\":\"{}\",\"seed\":{},\"dist\":{}}}}}",
        mode,
        seed,
        stats.json()
    );
}
