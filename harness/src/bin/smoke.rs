fn main() {
    let mut out = bytes::BytesMut::new();
    h2::verif::hpack::huffman_encode(b"hello", &mut out);
    println!("{}", h2verif_harness::json_bytes(&out[..]));
}
