//! Run random connection-level scenarios against the real crate and print their traces.
//!   conn --seed S --n N --steps K --profile P --role client|server|both [--snap 1] [--first I]   (scenarios I..N)
//!   conn --replay file.json          (re-run the op list of one trace; prints the new trace)
//! Output: one JSON object per scenario: {"seed":..,"cfg":..,"profile":..,"trace":[steps...]}
use h2verif_harness::driver::{Config, Driver};
use h2verif_harness::gen;
use h2verif_harness::{arg_u64, args, Rng};
use serde_json::{json, Value};

fn main() {
    let a = args();
    if std::env::var("VERIF_PANIC_VERBOSE").is_err() { std::panic::set_hook(Box::new(|_| {})); }
    if let Some(path) = a.get("replay") {
        let text = std::fs::read_to_string(path).expect("read replay");
        let v: Value = serde_json::from_str(&text).expect("json");
        let sc = if v.get("scenario").is_some() { &v["scenario"] } else { &v };
        let cfg = Config::from_json(&sc["cfg"]);
        let mut d = Driver::new(cfg, true).expect("handshake");
        if let Some(tr) = sc["trace"].as_array() {
            for st in tr {
                if st["op"]["op"].as_str() == Some("handshake") {
                    continue;
                }
                d.exec(&st["op"]);
            }
        }
        println!("{}", json!({"cfg": d.cfg.to_json(), "trace": d.trace}));
        if d.trace.iter().any(|st| st["res"].get("panic").is_some()) {
            std::mem::forget(d);        // poisoned mutex: the destructors would panic while unwinding
        } else {
            // the `unstable`-only debug assertion in `Drop for Store` may fire when records remain
            let _ = std::panic::catch_unwind(std::panic::AssertUnwindSafe(move || drop(d)));
        }
        return;
    }
    let seed = arg_u64(&a, "seed", 1);
    let n = arg_u64(&a, "n", 10);
    let steps = arg_u64(&a, "steps", 60) as usize;
    let prof_name = a.get("profile").cloned().unwrap_or_else(|| "mixed".into());
    let role = a.get("role").cloned().unwrap_or_else(|| "both".into());
    let snap = arg_u64(&a, "snap", 0) == 1;
    let snap_final_only = arg_u64(&a, "snap", 0) == 2; // statistics snapshot only while settling (small traces)
    let mut ops_hist: std::collections::BTreeMap<String, u64> = Default::default();
    let first = arg_u64(&a, "first", 0);
    for i in first..n {
        let mut rng = Rng::new(seed.wrapping_mul(1_000_003).wrapping_add(i));
        let client = match role.as_str() {
            "client" => true,
            "server" => false,
            _ => rng.chance(1, 2),
        };
        let p = gen::profile(&prof_name);
        let cfg = gen::gen_config(&mut rng, client, &p);
        let mut d = match Driver::new(cfg.clone(), snap) {
            Ok(d) => d,
            Err(e) => {
                println!("{}", json!({"seed": seed, "i": i, "cfg": cfg.to_json(), "error": e}));
                continue;
            }
        };
        gen::run_random(&mut d, &mut rng, &p, steps);
        if snap_final_only {
            d.want_snap = true;
        }
        let settled = gen::settle(&mut d, 200);
        for st in &d.trace {
            *ops_hist.entry(st["op"]["op"].as_str().unwrap_or("?").to_string()).or_default() += 1;
        }
        let cfgj = d.cfg.to_json();
        let trace = std::mem::take(&mut d.trace);
        // Dropping every handle and the connection may trip the `unstable`-only debug assertion in `Drop for Store`
        // (records still in the slab); the unwinding then runs the destructors of the remaining handles on a poisoned
        // mutex / half-dropped store, which can panic again inside a destructor and ABORT the process (losing the rest
        // of the batch).  Nothing after this point is part of the trace, so the driver is leaked instead of dropped.
        let lib_panicked = trace.iter().any(|st| st["res"].get("panic").is_some());
        std::mem::forget(d);
        println!("{}", json!({"seed": seed, "i": i, "profile": p.name, "cfg": cfgj, "settled": settled, "drop_panic": false, "lib_panicked": lib_panicked, "trace": trace}));
        h2::verif::stop();
    }
    println!("{}", json!({"summary": {"scenarios": n, "ops": ops_hist}}));
}
