//! C01 end-to-end harness: TWO real h2 endpoints (client and server) joined by two scripted
//! in-memory pipes.  A scripted application on both sides submits messages (request heads, interim
//! 1xx responses, pushed requests, bodies of all sizes incl. 0 and > window, trailers, resets);
//! windows / max_frame_size / max_send_buffer_size are random; the two connection tasks and all
//! application tasks are polled in a seed-determined random order; bytes move between the pipes in
//! random chunks with random write budgets (Pending) and read chunk limits.
//!
//! Output, one JSON object per case: what each side SUBMITTED per message and what the other side's
//! receive API DELIVERED (head fields, body length + digest + pattern check, trailers, how it ended).
//! The oracle (lib/props/parts/datapath.py) is C01 itself.
//!
//!   pair --seed S --n N [--first I] [--steps K] [--events 1]      (case i uses Rng(seed, i))
//!   pair --replay file.json                                        ({"seed":..,"i":..,"steps":..})
use bytes::Bytes;
use h2::{client, server, Reason, RecvStream, SendStream};
use h2verif_harness::driver::{err_str, pattern};
use h2verif_harness::exec::{Task, WakeLog};
use h2verif_harness::pipe::{Pipe, WriteMode};
use h2verif_harness::{arg_u64, args, wire, Rng};
use http::{HeaderMap, HeaderName, HeaderValue, Request, Response};
use serde_json::{json, Value};
use std::collections::BTreeMap;
use std::future::Future;
use std::pin::Pin;
use std::sync::{Arc, Mutex};
use std::task::{Context, Poll};

const DIR_C2S: u8 = 0;
const DIR_S2C: u8 = 1;

fn digest(acc: u64, b: &[u8]) -> u64 {
    b.iter().fold(acc, |a, x| a.wrapping_mul(131).wrapping_add(*x as u64))
}

fn fields_json(m: &HeaderMap) -> Value {
    let mut v: Vec<(String, String)> = m
        .iter()
        .map(|(k, v)| (k.as_str().to_string(), String::from_utf8_lossy(v.as_bytes()).to_string()))
        .collect();
    v.sort();
    json!(v)
}

/// one direction of one stream: what was submitted / delivered
#[derive(Default, Clone)]
struct Msg {
    head: Option<Value>,
    infos: Vec<Value>,
    body_len: u64,
    body_digest: u64,
    pattern_ok: bool,
    chunks: u64,
    trailers: Option<Value>,
    /// submitted side: END_STREAM submitted; delivered side: clean end observed
    end: bool,
    /// submitted side: send_reset called; delivered side: error observed
    err: Option<String>,
    /// is_end_stream() value seen when the clean end was observed
    ies: Option<bool>,
    /// delivered side: poll_data returned None (end of the body reported)
    data_none: bool,
}

impl Msg {
    fn new() -> Msg {
        Msg { pattern_ok: true, ..Default::default() }
    }
    fn json(&self) -> Value {
        json!({"head": self.head, "infos": self.infos, "len": self.body_len, "digest": self.body_digest.to_string(),
               "pattern_ok": self.pattern_ok, "chunks": self.chunks, "trailers": self.trailers, "end": self.end,
               "err": self.err, "is_end_stream": self.ies, "data_none": self.data_none})
    }
}

/// plan of one message body + trailers
#[derive(Clone, Debug)]
struct BodyPlan {
    chunks: Vec<usize>,
    /// 0: END_STREAM on the head (no body); 1: END_STREAM on the last DATA; 2: trailers; 3: empty DATA with END_STREAM at the end
    end_mode: u8,
    /// wait for capacity before each send_data
    use_capacity: bool,
    /// reset after this many chunks (None = never)
    reset_after: Option<usize>,
    big_header: usize,
}

fn gen_body(r: &mut Rng, allow_reset: bool) -> BodyPlan {
    let mut chunks = Vec::new();
    let end_mode = *r.pick(&[0u8, 1, 1, 1, 2, 2, 3]);
    if end_mode != 0 {
        let n = r.range(0, 5) as usize;
        for _ in 0..n {
            let sz = match r.below(10) {
                0 => 0,
                1 => 1,
                2..=4 => r.range(2, 300) as usize,
                5..=6 => r.range(300, 5000) as usize,
                7 => r.range(16000, 17000) as usize,
                8 => r.range(20000, 70000) as usize,
                _ => r.range(60000, 140000) as usize,
            };
            chunks.push(sz);
        }
        if end_mode == 1 && chunks.is_empty() {
            chunks.push(r.range(0, 40) as usize);
        }
    }
    let reset_after = if allow_reset && !chunks.is_empty() && r.chance(1, 8) { Some(r.below(chunks.len() as u64 + 1) as usize) } else { None };
    let big_header = if r.chance(1, 7) { r.range(15000, 40000) as usize } else if r.chance(1, 3) { r.range(1, 200) as usize } else { 0 };
    BodyPlan { chunks, end_mode, use_capacity: r.chance(1, 2), reset_after, big_header }
}

fn header_fields(r: &mut Rng, tag: &str, big: usize) -> HeaderMap {
    let mut m = HeaderMap::new();
    let n = r.below(4);
    for k in 0..n {
        let name = format!("x-{}-{}", tag, k);
        let vlen = r.range(0, 30) as usize;
        let val: String = (0..vlen).map(|_| (b'a' + r.below(26) as u8) as char).collect();
        m.append(HeaderName::from_bytes(name.as_bytes()).unwrap(), HeaderValue::from_str(&val).unwrap());
    }
    if big > 0 {
        let val: String = (0..big).map(|i| (b'a' + ((i * 7 + big) % 26) as u8) as char).collect();
        m.append(HeaderName::from_static("x-big"), HeaderValue::from_str(&val).unwrap());
    }
    if r.chance(1, 4) {
        // repeated name: order among equal names must be preserved
        m.append(HeaderName::from_static("x-rep"), HeaderValue::from_static("one"));
        m.append(HeaderName::from_static("x-rep"), HeaderValue::from_static("two"));
    }
    m
}

fn ordered_fields_json(m: &HeaderMap) -> Value {
    // per-name value order is significant: keep it (HeaderMap::iter yields values of a name in insertion order)
    let mut by: BTreeMap<String, Vec<String>> = BTreeMap::new();
    for (k, v) in m.iter() {
        by.entry(k.as_str().to_string()).or_default().push(String::from_utf8_lossy(v.as_bytes()).to_string());
    }
    json!(by)
}

struct SendHalf {
    stream: Option<SendStream<Bytes>>,
    plan: BodyPlan,
    next_chunk: usize,
    /// bytes of the current chunk already submitted (capacity mode)
    chunk_off: usize,
    off: u64,
    sid: u32,
    dir: u8,
    done: bool,
    trailers: HeaderMap,
    sub: Msg,
}

impl SendHalf {
    /// one poll of the sending application; returns true if it made progress
    fn poll(&mut self, cx: &mut Context<'_>) -> bool {
        if self.done {
            return false;
        }
        let st = match self.stream.as_mut() {
            Some(s) => s,
            None => return false,
        };
        if self.plan.end_mode == 0 {
            self.done = true;
            return false;
        }
        if let Some(k) = self.plan.reset_after {
            if self.next_chunk >= k && self.chunk_off == 0 {
                st.send_reset(Reason::CANCEL);
                self.sub.err = Some("reset".into());
                self.done = true;
                return true;
            }
        }
        if self.next_chunk < self.plan.chunks.len() {
            let total = self.plan.chunks[self.next_chunk];
            let mut n = total - self.chunk_off;
            if self.plan.use_capacity && n > 0 {
                st.reserve_capacity(n);
                match st.poll_capacity(cx) {
                    Poll::Pending => return false,
                    Poll::Ready(None) => {
                        self.sub.err = Some("capacity-none".into());
                        self.done = true;
                        return true;
                    }
                    Poll::Ready(Some(Err(e))) => {
                        self.sub.err = Some(format!("capacity:{}", err_str(&e)));
                        self.done = true;
                        return true;
                    }
                    Poll::Ready(Some(Ok(c))) => n = n.min(c),
                }
                if n == 0 {
                    return false;
                }
            }
            let last_piece = self.chunk_off + n == total;
            let last_chunk = self.next_chunk + 1 == self.plan.chunks.len();
            let eos = self.plan.end_mode == 1 && last_piece && last_chunk;
            let body: Vec<u8> = (0..n as u64).map(|i| pattern(self.sid, self.dir, self.off + i)).collect();
            match st.send_data(Bytes::from(body.clone()), eos) {
                Ok(()) => {
                    self.sub.body_len += n as u64;
                    self.sub.body_digest = digest(self.sub.body_digest, &body);
                    self.sub.chunks += 1;
                    self.off += n as u64;
                    if eos {
                        self.sub.end = true;
                        self.done = true;
                    }
                    if last_piece {
                        self.next_chunk += 1;
                        self.chunk_off = 0;
                    } else {
                        self.chunk_off += n;
                    }
                }
                Err(e) => {
                    self.sub.err = Some(format!("send_data:{}", err_str(&e)));
                    self.done = true;
                }
            }
            return true;
        }
        // all chunks submitted
        match self.plan.end_mode {
            2 => match st.send_trailers(self.trailers.clone()) {
                Ok(()) => {
                    self.sub.trailers = Some(ordered_fields_json(&self.trailers));
                    self.sub.end = true;
                }
                Err(e) => self.sub.err = Some(format!("send_trailers:{}", err_str(&e))),
            },
            3 => match st.send_data(Bytes::new(), true) {
                Ok(()) => {
                    self.sub.end = true;
                    self.sub.chunks += 1;
                }
                Err(e) => self.sub.err = Some(format!("send_data:{}", err_str(&e))),
            },
            _ => {}
        }
        self.done = true;
        true
    }
}

struct RecvHalf {
    stream: Option<RecvStream>,
    off: u64,
    sid: u32,
    dir: u8,
    /// 0 body, 1 trailers, 2 done
    phase: u8,
    /// release capacity right away (else keep up to `hold` bytes unreleased)
    hold: u64,
    unreleased: u64,
    got: Msg,
}

impl RecvHalf {
    fn poll(&mut self, cx: &mut Context<'_>) -> bool {
        let st = match self.stream.as_mut() {
            Some(s) => s,
            None => return false,
        };
        match self.phase {
            0 => match st.poll_data(cx) {
                Poll::Pending => {
                    // about to wait: give back what is held, or the sender may starve on a small window
                    if self.unreleased > 0 {
                        let _ = st.flow_control().release_capacity(self.unreleased as usize);
                        self.unreleased = 0;
                        return true;
                    }
                    false
                }
                Poll::Ready(Some(Ok(b))) => {
                    let ok = b.iter().enumerate().all(|(i, x)| *x == pattern(self.sid, self.dir, self.off + i as u64));
                    self.got.pattern_ok &= ok;
                    self.got.body_len += b.len() as u64;
                    self.got.body_digest = digest(self.got.body_digest, &b);
                    self.got.chunks += 1;
                    self.off += b.len() as u64;
                    self.unreleased += b.len() as u64;
                    if self.unreleased > self.hold {
                        let _ = st.flow_control().release_capacity(self.unreleased as usize);
                        self.unreleased = 0;
                    }
                    true
                }
                Poll::Ready(Some(Err(e))) => {
                    self.got.err = Some(err_str(&e));
                    self.phase = 2;
                    true
                }
                Poll::Ready(None) => {
                    self.got.data_none = true;
                    if self.unreleased > 0 {
                        let _ = st.flow_control().release_capacity(self.unreleased as usize);
                        self.unreleased = 0;
                    }
                    self.phase = 1;
                    true
                }
            },
            1 => match st.poll_trailers(cx) {
                Poll::Pending => false,
                Poll::Ready(Ok(t)) => {
                    self.got.trailers = t.as_ref().map(ordered_fields_json);
                    self.got.end = true;
                    self.got.ies = Some(st.is_end_stream());
                    self.phase = 2;
                    true
                }
                Poll::Ready(Err(e)) => {
                    self.got.err = Some(err_str(&e));
                    self.phase = 2;
                    true
                }
            },
            _ => false,
        }
    }
    fn done(&self) -> bool {
        self.phase == 2 || self.stream.is_none()
    }
}

/// client side of one request
#[allow(dead_code)]
struct ClientReq {
    idx: usize,
    req_head: Option<(Request<()>, bool)>,
    resp_fut: Option<client::ResponseFuture>,
    pushes: Option<client::PushPromises>,
    pushes_done: bool,
    info_done: bool,
    resp_err: Option<String>,
    send: SendHalf,
    recv: RecvHalf,
    pushed: Vec<ClientPushed>,
    send_plan_trailers: HeaderMap,
}

struct ClientPushed {
    pid: u32,
    req: Value,
    fut: Option<client::PushedResponseFuture>,
    err: Option<String>,
    recv: RecvHalf,
}

/// server side of one accepted stream
#[allow(dead_code)]
struct ServerStream {
    sid: u32,
    respond: Option<server::SendResponse<Bytes>>,
    plan: RespPlan,
    infos_sent: usize,
    push_sent: bool,
    send: SendHalf,
    recv: RecvHalf,
    req_got: Value,
    pushed: Vec<ServerPushed>,
    resp_sub_err: Option<String>,
}

struct ServerPushed {
    pid: u32,
    req_sub: Value,
    respond: Option<server::SendPushedResponse<Bytes>>,
    head: Option<(Response<()>, bool)>,
    send: SendHalf,
}

#[derive(Clone)]
struct RespPlan {
    infos: Vec<(u16, HeaderMap)>,
    status: u16,
    fields: HeaderMap,
    body: BodyPlan,
    trailers: HeaderMap,
    push: Option<(String, HeaderMap, u16, HeaderMap, BodyPlan, HeaderMap)>,
    /// send the response only after the request body was read completely
    after_request: bool,
}

fn resp_json(status: u16, fields: &HeaderMap) -> Value {
    json!({"status": status, "fields": ordered_fields_json(fields)})
}

fn req_json(method: &str, path: &str, fields: &HeaderMap) -> Value {
    json!({"method": method, "path": path, "fields": ordered_fields_json(fields)})
}

struct Case {
    rng: Rng,
    cfg: Value,
    pc: Pipe,
    ps: Pipe,
    cconn: Option<client::Connection<Pipe, Bytes>>,
    sconn: Option<server::Connection<Pipe, Bytes>>,
    srs: Vec<client::SendRequest<Bytes>>,
    cres: Option<String>,
    sres: Option<String>,
    wake_log: WakeLog,
    t_cconn: Task,
    t_sconn: Task,
    creqs: Vec<ClientReq>,
    ctasks: Vec<Task>,
    sstreams: Vec<ServerStream>,
    stasks: Vec<Task>,
    resp_plans: Vec<RespPlan>,
    wire_c2s: Vec<u8>,
    wire_s2c: Vec<u8>,
    events: Vec<Value>,
    want_events: bool,
    step: u64,
    accept_done: bool,
    enable_push: bool,
}

fn drain_events(c: &mut Case, who: &str, what: &str) {
    let evs = h2::verif::drain();
    if !c.want_events {
        return;
    }
    let evs: Vec<Value> = evs
        .into_iter()
        .map(|e| {
            let mut a = vec![json!(e.name), json!(e.depth)];
            a.extend(e.args.into_iter().map(|x| json!(x)));
            Value::Array(a)
        })
        .collect();
    if !evs.is_empty() {
        c.events.push(json!({"i": c.step, "who": who, "what": what, "ev": evs}));
    }
}

/// poll a half up to `n` times; if it was still making progress at the end, the task must run again
fn drive<F: FnMut(&mut Context<'_>) -> bool>(n: usize, cx: &mut Context<'_>, mut f: F) {
    for _ in 0..n {
        if !f(cx) {
            return;
        }
    }
    cx.waker().wake_by_ref();
}

fn poll_once<F: Future + Unpin>(f: &mut F, t: &Task) -> Poll<F::Output> {
    t.clear();
    let w = t.waker();
    let mut cx = Context::from_waker(&w);
    Pin::new(f).poll(&mut cx)
}

/// move up to n bytes from `from`'s outbound to `to`'s inbound
fn transfer(from: &Pipe, to: &Pipe, n: usize, log: &mut Vec<u8>) -> usize {
    let chunk: Vec<u8> = {
        let mut s = from.0.borrow_mut();
        let k = n.min(s.outbound.len());
        s.outbound.drain(..k).collect()
    };
    if !chunk.is_empty() {
        log.extend_from_slice(&chunk);
        to.feed(&chunk);
    }
    chunk.len()
}

fn build_case(seed: u64, i: u64, want_events: bool) -> Result<Case, String> {
    let mut rng = Rng::new(seed.wrapping_mul(0x9E37_79B9).wrapping_add(i.wrapping_mul(0x85EB_CA6B)).wrapping_add(17));
    let pc = Pipe::new();
    let ps = Pipe::new();
    let wake_log: WakeLog = Arc::new(Mutex::new(Vec::new()));
    h2::verif::start();
    let _ = h2::verif::drain();
    let win = |r: &mut Rng| -> Option<u32> {
        match r.below(6) {
            0 => None,
            1 => Some(r.range(1, 16) as u32),
            2 => Some(r.range(16, 1000) as u32),
            3 => Some(r.range(1000, 20000) as u32),
            4 => Some(r.range(20000, 70000) as u32),
            _ => Some(r.range(70000, 300000) as u32),
        }
    };
    let mfs = |r: &mut Rng| -> Option<u32> {
        match r.below(4) {
            0 => None,
            1 => Some(16384),
            2 => Some(r.range(16384, 20000) as u32),
            _ => Some(r.range(16384, 70000) as u32),
        }
    };
    let sbuf = |r: &mut Rng| -> Option<usize> {
        match r.below(4) {
            0 => None,
            1 => Some(r.range(1, 64) as usize),
            2 => Some(r.range(64, 5000) as usize),
            _ => Some(r.range(5000, 100000) as usize),
        }
    };
    let c_win = win(&mut rng);
    let c_cwin = if rng.chance(1, 2) { Some(rng.range(65535, 200000) as u32) } else { None };
    let c_mfs = mfs(&mut rng);
    let c_sbuf = sbuf(&mut rng);
    let s_win = win(&mut rng);
    let s_cwin = if rng.chance(1, 2) { Some(rng.range(65535, 200000) as u32) } else { None };
    let s_mfs = mfs(&mut rng);
    let s_sbuf = sbuf(&mut rng);
    let enable_push = rng.chance(1, 2);
    let s_mcs = if rng.chance(1, 3) { Some(rng.range(1, 3) as u32) } else { None };
    let mut cb = client::Builder::new();
    if let Some(v) = c_win { cb.initial_window_size(v); }
    if let Some(v) = c_cwin { cb.initial_connection_window_size(v); }
    if let Some(v) = c_mfs { cb.max_frame_size(v); }
    if let Some(v) = c_sbuf { cb.max_send_buffer_size(v); }
    cb.enable_push(enable_push);
    let mut sb = server::Builder::new();
    if let Some(v) = s_win { sb.initial_window_size(v); }
    if let Some(v) = s_cwin { sb.initial_connection_window_size(v); }
    if let Some(v) = s_mfs { sb.max_frame_size(v); }
    if let Some(v) = s_sbuf { sb.max_send_buffer_size(v); }
    if let Some(v) = s_mcs { sb.max_concurrent_streams(v); }
    let cfg = json!({"client": {"initial_window_size": c_win, "initial_connection_window_size": c_cwin, "max_frame_size": c_mfs,
                                "max_send_buffer_size": c_sbuf, "enable_push": enable_push},
                     "server": {"initial_window_size": s_win, "initial_connection_window_size": s_cwin, "max_frame_size": s_mfs,
                                "max_send_buffer_size": s_sbuf, "max_concurrent_streams": s_mcs}});
    // handshakes: poll both, moving all bytes, until both are through
    let t0 = Task::new(0, &wake_log);
    let mut cfut = Box::pin(cb.handshake::<_, Bytes>(pc.clone()));
    let mut sfut = sb.handshake::<_, Bytes>(ps.clone());
    let mut cres = None;
    let mut sres = None;
    let mut w1 = Vec::new();
    let mut w2 = Vec::new();
    for _ in 0..20 {
        if cres.is_none() {
            if let Poll::Ready(r) = poll_once(&mut cfut, &t0) {
                cres = Some(r.map_err(|e| format!("client handshake: {}", e))?);
            }
        }
        transfer(&pc, &ps, usize::MAX, &mut w1);
        if sres.is_none() {
            if let Poll::Ready(r) = poll_once(&mut sfut, &t0) {
                sres = Some(r.map_err(|e| format!("server handshake: {}", e))?);
            }
        }
        transfer(&ps, &pc, usize::MAX, &mut w2);
        if cres.is_some() && sres.is_some() {
            break;
        }
    }
    let (sr, cconn) = cres.ok_or("client handshake did not complete")?;
    let sconn = sres.ok_or("server handshake did not complete")?;
    let _ = h2::verif::drain();
    // plans
    let nreq = rng.range(1, 4) as usize;
    let mut creqs = Vec::new();
    let mut ctasks = Vec::new();
    let mut resp_plans = Vec::new();
    for k in 0..nreq {
        let body = gen_body(&mut rng, true);
        let method = *rng.pick(&["GET", "POST", "PUT"]);
        let path = format!("/r{}", k);
        let fields = header_fields(&mut rng, "q", body.big_header);
        let mut b = Request::builder().method(method).uri(format!("https://example.test{}", path));
        for (n, v) in fields.iter() {
            b = b.header(n, v);
        }
        let req = b.body(()).unwrap();
        let eos_on_head = body.end_mode == 0;
        let mut sub = Msg::new();
        sub.head = Some(req_json(method, &path, &fields));
        if eos_on_head {
            sub.end = true;
        }
        let trailers = header_fields(&mut rng, "qt", 0);
        let hold = if rng.chance(1, 3) { rng.range(0, 3000) } else { 0 };
        creqs.push(ClientReq {
            idx: k,
            req_head: Some((req, eos_on_head)),
            resp_fut: None,
            pushes: None,
            pushes_done: false,
            info_done: false,
            resp_err: None,
            send: SendHalf { stream: None, plan: body, next_chunk: 0, chunk_off: 0, off: 0, sid: 0, dir: DIR_C2S, done: false, trailers: trailers.clone(), sub },
            recv: RecvHalf { stream: None, off: 0, sid: 0, dir: DIR_S2C, phase: 0, hold, unreleased: 0, got: Msg::new() },
            pushed: Vec::new(),
            send_plan_trailers: trailers,
        });
        ctasks.push(Task::new(100 + k as u32, &wake_log));
        // response plan (used by the server for the k-th accepted stream with path /rk)
        let rbody = gen_body(&mut rng, true);
        let ninfo = if rng.chance(1, 3) { rng.range(1, 2) as usize } else { 0 };
        let mut infos = Vec::new();
        for _ in 0..ninfo {
            infos.push((*rng.pick(&[100u16, 102, 103]), header_fields(&mut rng, "i", 0)));
        }
        let status = *rng.pick(&[200u16, 201, 204, 404, 500]);
        let rfields = header_fields(&mut rng, "p", rbody.big_header);
        let rtrailers = header_fields(&mut rng, "pt", 0);
        let push = if enable_push && rng.chance(1, 3) {
            let pb = gen_body(&mut rng, false);
            Some((format!("/pushed{}", k), header_fields(&mut rng, "pq", 0), 200u16, header_fields(&mut rng, "pp", pb.big_header), pb,
                  header_fields(&mut rng, "ppt", 0)))
        } else {
            None
        };
        resp_plans.push(RespPlan { infos, status, fields: rfields, body: rbody, trailers: rtrailers, push, after_request: rng.chance(1, 4) });
    }
    let t_cconn = Task::new(1, &wake_log);
    let t_sconn = Task::new(2, &wake_log);
    Ok(Case {
        rng,
        cfg,
        pc,
        ps,
        cconn: Some(cconn),
        sconn: Some(sconn),
        srs: (0..nreq).map(|_| sr.clone()).collect(),
        cres: None,
        sres: None,
        wake_log,
        t_cconn,
        t_sconn,
        creqs,
        ctasks,
        sstreams: Vec::new(),
        stasks: Vec::new(),
        resp_plans,
        wire_c2s: w1,
        wire_s2c: w2,
        events: Vec::new(),
        want_events,
        step: 0,
        accept_done: false,
        enable_push,
    })
}

fn poll_client_conn(c: &mut Case) {
    if c.cres.is_some() {
        return;
    }
    let t = c.t_cconn.clone();
    if let Some(conn) = c.cconn.as_mut() {
        if let Poll::Ready(r) = poll_once(conn, &t) {
            c.cres = Some(match r {
                Ok(()) => "ok".into(),
                Err(e) => err_str(&e),
            });
        }
    }
    drain_events(c, "client", "conn");
}

fn poll_server_conn(c: &mut Case) {
    if c.sres.is_some() {
        return;
    }
    let t = c.t_sconn.clone();
    t.clear();
    let w = t.waker();
    let mut cx = Context::from_waker(&w);
    let mut accepted = Vec::new();
    if let Some(conn) = c.sconn.as_mut() {
        if !c.accept_done {
            loop {
                match conn.poll_accept(&mut cx) {
                    Poll::Pending => break,
                    Poll::Ready(None) => {
                        c.accept_done = true;
                        break;
                    }
                    Poll::Ready(Some(Err(e))) => {
                        c.accept_done = true;
                        c.sres = Some(err_str(&e));
                        break;
                    }
                    Poll::Ready(Some(Ok((req, respond)))) => accepted.push((req, respond)),
                }
            }
        }
        if c.accept_done && c.sres.is_none() {
            if let Poll::Ready(r) = conn.poll_closed(&mut cx) {
                c.sres = Some(match r {
                    Ok(()) => "ok".into(),
                    Err(e) => err_str(&e),
                });
            }
        }
    }
    for (req, respond) in accepted {
        let sid = u32::from(respond.stream_id());
        let (parts, body) = req.into_parts();
        let path = parts.uri.path().to_string();
        let k: usize = path.trim_start_matches("/r").parse().unwrap_or(0);
        let plan = c.resp_plans.get(k).cloned().unwrap_or_else(|| c.resp_plans[0].clone());
        let req_got = req_json(parts.method.as_str(), &path, &parts.headers);
        let mut sub = Msg::new();
        sub.head = None;
        let hold = if c.rng.chance(1, 3) { c.rng.range(0, 3000) } else { 0 };
        let mut got = Msg::new();
        got.head = Some(req_got.clone());
        let ss = ServerStream {
            sid,
            respond: Some(respond),
            plan: plan.clone(),
            infos_sent: 0,
            push_sent: false,
            send: SendHalf { stream: None, plan: plan.body.clone(), next_chunk: 0, chunk_off: 0, off: 0, sid, dir: DIR_S2C, done: false, trailers: plan.trailers.clone(), sub },
            recv: RecvHalf { stream: Some(body), off: 0, sid, dir: DIR_C2S, phase: 0, hold, unreleased: 0, got },
            req_got,
            pushed: Vec::new(),
            resp_sub_err: None,
        };
        let id = 200 + c.sstreams.len() as u32;
        c.sstreams.push(ss);
        c.stasks.push(Task::new(id, &c.wake_log));
    }
    drain_events(c, "server", "conn");
}

fn poll_client_task(c: &mut Case, k: usize) {
    let t = c.ctasks[k].clone();
    t.clear();
    let w = t.waker();
    let mut cx = Context::from_waker(&w);
    // 1. submit the request
    if c.creqs[k].req_head.is_some() {
        let ready = c.srs[k].poll_ready(&mut cx);
        match ready {
            Poll::Pending => {
                drain_events(c, "client", "app");
                return;
            }
            Poll::Ready(Err(e)) => {
                c.creqs[k].req_head = None;
                c.creqs[k].send.sub.err = Some(format!("ready:{}", err_str(&e)));
                c.creqs[k].send.sub.head = None;
                c.creqs[k].send.done = true;
                c.creqs[k].recv.phase = 2;
                c.creqs[k].info_done = true;
                c.creqs[k].pushes_done = true;
            }
            Poll::Ready(Ok(())) => {
                let (req, eos) = c.creqs[k].req_head.take().unwrap();
                match c.srs[k].send_request(req, eos) {
                    Ok((mut fut, st)) => {
                        let sid = u32::from(st.stream_id());
                        let r = &mut c.creqs[k];
                        r.send.sid = sid;
                        r.recv.sid = sid;
                        r.send.stream = Some(st);
                        if c.enable_push {
                            r.pushes = Some(fut.push_promises());
                        } else {
                            r.pushes_done = true;
                        }
                        r.resp_fut = Some(fut);
                    }
                    Err(e) => {
                        let r = &mut c.creqs[k];
                        r.send.sub.err = Some(format!("send_request:{}", err_str(&e)));
                        r.send.sub.head = None;
                        r.send.done = true;
                        r.recv.phase = 2;
                        r.info_done = true;
                        r.pushes_done = true;
                    }
                }
            }
        }
    }
    // 2. sending half
    drive(3, &mut cx, |cx| c.creqs[k].send.poll(cx));
    // 3. pushes
    if !c.creqs[k].pushes_done {
        loop {
            let r = &mut c.creqs[k];
            match r.pushes.as_mut().unwrap().poll_push_promise(&mut cx) {
                Poll::Pending => break,
                Poll::Ready(None) => {
                    r.pushes_done = true;
                    break;
                }
                Poll::Ready(Some(Err(e))) => {
                    r.pushes_done = true;
                    r.resp_err.get_or_insert(format!("push:{}", err_str(&e)));
                    break;
                }
                Poll::Ready(Some(Ok(pp))) => {
                    let (req, fut) = pp.into_parts();
                    let pid = u32::from(fut.stream_id());
                    let v = req_json(req.method().as_str(), req.uri().path(), req.headers());
                    r.pushed.push(ClientPushed {
                        pid,
                        req: v,
                        fut: Some(fut),
                        err: None,
                        recv: RecvHalf { stream: None, off: 0, sid: pid, dir: DIR_S2C, phase: 0, hold: 0, unreleased: 0, got: Msg::new() },
                    });
                }
            }
        }
    }
    // pushed responses
    for p in c.creqs[k].pushed.iter_mut() {
        if let Some(f) = p.fut.as_mut() {
            match Pin::new(f).poll(&mut cx) {
                Poll::Pending => {}
                Poll::Ready(Ok(resp)) => {
                    let (parts, body) = resp.into_parts();
                    p.recv.got.head = Some(resp_json(parts.status.as_u16(), &parts.headers));
                    p.recv.stream = Some(body);
                    p.fut = None;
                }
                Poll::Ready(Err(e)) => {
                    p.err = Some(err_str(&e));
                    p.recv.got.err = Some(err_str(&e));
                    p.recv.phase = 2;
                    p.fut = None;
                }
            }
        }
        drive(4, &mut cx, |cx| p.recv.poll(cx));
    }
    // 4. interim responses, then the response, then the body
    if c.creqs[k].resp_fut.is_some() {
        let r = &mut c.creqs[k];
        if !r.info_done {
            loop {
                match r.resp_fut.as_mut().unwrap().poll_informational(&mut cx) {
                    Poll::Pending => break,
                    Poll::Ready(None) => {
                        r.info_done = true;
                        break;
                    }
                    Poll::Ready(Some(Ok(resp))) => r.recv.got.infos.push(resp_json(resp.status().as_u16(), resp.headers())),
                    Poll::Ready(Some(Err(e))) => {
                        r.info_done = true;
                        r.resp_err.get_or_insert(err_str(&e));
                        break;
                    }
                }
            }
        }
        if r.info_done {
            match Pin::new(r.resp_fut.as_mut().unwrap()).poll(&mut cx) {
                Poll::Pending => {}
                Poll::Ready(Ok(resp)) => {
                    let (parts, body) = resp.into_parts();
                    r.recv.got.head = Some(resp_json(parts.status.as_u16(), &parts.headers));
                    r.recv.stream = Some(body);
                    r.resp_fut = None;
                }
                Poll::Ready(Err(e)) => {
                    r.recv.got.err = Some(err_str(&e));
                    r.recv.phase = 2;
                    r.resp_fut = None;
                }
            }
        }
    }
    drive(4, &mut cx, |cx| c.creqs[k].recv.poll(cx));
    drain_events(c, "client", "app");
}

fn poll_server_task(c: &mut Case, k: usize) {
    let t = c.stasks[k].clone();
    t.clear();
    let w = t.waker();
    let mut cx = Context::from_waker(&w);
    // request body
    drive(4, &mut cx, |cx| c.sstreams[k].recv.poll(cx));
    let s = &mut c.sstreams[k];
    let may_respond = !s.plan.after_request || s.recv.done();
    if may_respond && s.respond.is_some() {
        // push first (must precede the response's END_STREAM), then interim heads, then the response
        if !s.push_sent {
            s.push_sent = true;
            if let Some((path, qf, status, pf, pb, pt)) = s.plan.push.clone() {
                let mut b = Request::builder().method("GET").uri(format!("https://example.test{}", path));
                for (n, v) in qf.iter() {
                    b = b.header(n, v);
                }
                let req = b.body(()).unwrap();
                match s.respond.as_mut().unwrap().push_request(req) {
                    Ok(pr) => {
                        let pid = u32::from(pr.stream_id());
                        let mut rb = Response::builder().status(status);
                        for (n, v) in pf.iter() {
                            rb = rb.header(n, v);
                        }
                        let eos = pb.end_mode == 0;
                        let mut sub = Msg::new();
                        sub.head = Some(resp_json(status, &pf));
                        s.pushed.push(ServerPushed {
                            pid,
                            req_sub: req_json("GET", &path, &qf),
                            respond: Some(pr),
                            head: Some((rb.body(()).unwrap(), eos)),
                            send: SendHalf { stream: None, plan: pb, next_chunk: 0, chunk_off: 0, off: 0, sid: pid, dir: DIR_S2C, done: false, trailers: pt, sub },
                        });
                    }
                    Err(e) => s.resp_sub_err = Some(format!("push_request:{}", err_str(&e))),
                }
            }
        }
        while s.infos_sent < s.plan.infos.len() {
            let (st, f) = s.plan.infos[s.infos_sent].clone();
            s.infos_sent += 1;
            let mut rb = Response::builder().status(st);
            for (n, v) in f.iter() {
                rb = rb.header(n, v);
            }
            match s.respond.as_mut().unwrap().send_informational(rb.body(()).unwrap()) {
                Ok(()) => s.send.sub.infos.push(resp_json(st, &f)),
                Err(e) => {
                    s.resp_sub_err = Some(format!("send_informational:{}", err_str(&e)));
                    break;
                }
            }
        }
        let mut rb = Response::builder().status(s.plan.status);
        for (n, v) in s.plan.fields.iter() {
            rb = rb.header(n, v);
        }
        let eos = s.plan.body.end_mode == 0;
        let mut respond = s.respond.take().unwrap();
        match respond.send_response(rb.body(()).unwrap(), eos) {
            Ok(st) => {
                s.send.sub.head = Some(resp_json(s.plan.status, &s.plan.fields));
                if eos {
                    s.send.sub.end = true;
                }
                s.send.stream = Some(st);
            }
            Err(e) => {
                s.resp_sub_err = Some(format!("send_response:{}", err_str(&e)));
                s.send.done = true;
            }
        }
    }
    drive(3, &mut cx, |cx| s.send.poll(cx));
    for p in s.pushed.iter_mut() {
        if let Some((resp, eos)) = p.head.take() {
            match p.respond.take().unwrap().send_response(resp, eos) {
                Ok(st) => {
                    if eos {
                        p.send.sub.end = true;
                    }
                    p.send.stream = Some(st);
                }
                Err(e) => {
                    p.send.sub.head = None;
                    p.send.sub.err = Some(format!("send_response:{}", err_str(&e)));
                    p.send.done = true;
                }
            }
        }
        drive(3, &mut cx, |cx| p.send.poll(cx));
    }
    drain_events(c, "server", "app");
}

fn all_done(c: &Case) -> bool {
    let cd = c.creqs.iter().all(|r| {
        r.req_head.is_none()
            && r.send.done
            && r.recv.done()
            && (r.resp_fut.is_none())
            && r.pushes_done
            && r.pushed.iter().all(|p| p.fut.is_none() && p.recv.done())
    });
    let sd = c.sstreams.iter().all(|s| s.respond.is_none() && s.send.done && s.recv.done() && s.pushed.iter().all(|p| p.send.done));
    cd && sd
}

fn run_case(seed: u64, i: u64, max_steps: u64, want_events: bool) -> Value {
    let mut c = match build_case(seed, i, want_events) {
        Ok(c) => c,
        Err(e) => return json!({"seed": seed, "i": i, "setup_error": e}),
    };
    let mut idle_rounds = 0;
    let fair_after = max_steps / 2;
    while c.step < max_steps {
        c.step += 1;
        let fair = c.step > fair_after;
        let nct = c.ctasks.len() as u64;
        let nst = c.stasks.len() as u64;
        if fair {
            // closing phase: open transports, whole rounds (every task polled, all bytes moved)
            for p in [c.pc.clone(), c.ps.clone()] {
                p.set_write_mode(WriteMode::All);
                p.0.borrow_mut().write_chunk = 0;
                p.0.borrow_mut().read_chunk = 0;
            }
            for k in 0..c.ctasks.len() {
                if c.ctasks[k].is_woken() {
                    poll_client_task(&mut c, k);
                }
            }
            poll_client_conn(&mut c);
            transfer(&c.pc, &c.ps, usize::MAX, &mut c.wire_c2s);
            poll_server_conn(&mut c);
            for k in 0..c.stasks.len() {
                if c.stasks[k].is_woken() {
                    poll_server_task(&mut c, k);
                }
            }
            poll_server_conn(&mut c);
            transfer(&c.ps, &c.pc, usize::MAX, &mut c.wire_s2c);
            poll_client_conn(&mut c);
            if all_done(&c) {
                break;
            }
            let quiet = !c.t_cconn.is_woken()
                && !c.t_sconn.is_woken()
                && c.ctasks.iter().all(|t| !t.is_woken())
                && c.stasks.iter().all(|t| !t.is_woken())
                && c.pc.0.borrow().outbound.is_empty()
                && c.ps.0.borrow().outbound.is_empty();
            if quiet {
                idle_rounds += 1;
                if idle_rounds > 3 {
                    break;
                }
            } else {
                idle_rounds = 0;
            }
            continue;
        }
        let choice = c.rng.below(12 + nct + nst);
        let mut progressed = true;
        match choice {
            0 | 1 => poll_client_conn(&mut c),
            2 | 3 => poll_server_conn(&mut c),
            4 | 5 => {
                let avail = c.pc.0.borrow().outbound.len();
                let n = if fair || c.rng.chance(1, 2) { usize::MAX } else { c.rng.range(1, (avail as u64).max(1).min(40000)) as usize };
                progressed = transfer(&c.pc, &c.ps, n, &mut c.wire_c2s) > 0;
            }
            6 | 7 => {
                let avail = c.ps.0.borrow().outbound.len();
                let n = if fair || c.rng.chance(1, 2) { usize::MAX } else { c.rng.range(1, (avail as u64).max(1).min(40000)) as usize };
                progressed = transfer(&c.ps, &c.pc, n, &mut c.wire_s2c) > 0;
            }
            8 => {
                // transport script of one side
                let p = if c.rng.chance(1, 2) { c.pc.clone() } else { c.ps.clone() };
                if fair {
                    p.set_write_mode(WriteMode::All);
                    p.0.borrow_mut().write_chunk = 0;
                    p.0.borrow_mut().read_chunk = 0;
                } else {
                    match c.rng.below(5) {
                        0 => p.set_write_mode(WriteMode::Budget(c.rng.range(0, 2000) as usize)),
                        1 => p.set_write_mode(WriteMode::All),
                        2 => p.0.borrow_mut().write_chunk = c.rng.range(0, 700) as usize,
                        3 => p.0.borrow_mut().read_chunk = c.rng.range(0, 700) as usize,
                        _ => {
                            p.set_write_mode(WriteMode::All);
                            p.0.borrow_mut().write_chunk = 0;
                            p.0.borrow_mut().read_chunk = 0;
                        }
                    }
                }
            }
            9 | 10 | 11 => {
                // poll whichever connection task was woken
                if c.t_cconn.is_woken() {
                    poll_client_conn(&mut c);
                } else if c.t_sconn.is_woken() {
                    poll_server_conn(&mut c);
                } else {
                    progressed = false;
                }
            }
            x if x < 12 + nct => {
                let k = (x - 12) as usize;
                if c.ctasks[k].is_woken() || c.rng.chance(1, 6) {
                    poll_client_task(&mut c, k);
                } else {
                    progressed = false;
                }
            }
            x => {
                let k = (x - 12 - nct) as usize;
                if c.stasks[k].is_woken() || c.rng.chance(1, 6) {
                    poll_server_task(&mut c, k);
                } else {
                    progressed = false;
                }
            }
        }
        let _ = progressed;
        if all_done(&c) {
            break;
        }
        // quiescence: nothing woken, nothing in flight, transports open
        let quiet = !c.t_cconn.is_woken()
            && !c.t_sconn.is_woken()
            && c.ctasks.iter().all(|t| !t.is_woken())
            && c.stasks.iter().all(|t| !t.is_woken())
            && c.pc.0.borrow().outbound.is_empty()
            && c.ps.0.borrow().outbound.is_empty()
            && c.pc.0.borrow().write_mode == WriteMode::All
            && c.ps.0.borrow().write_mode == WriteMode::All;
        if quiet {
            idle_rounds += 1;
            if idle_rounds > 60 {
                break;
            }
        } else {
            idle_rounds = 0;
        }
    }
    let finished = all_done(&c);
    // report
    let mut msgs = Vec::new();
    for r in &c.creqs {
        let sid = r.send.sid;
        // request: client submitted, server delivered
        let srv = c.sstreams.iter().find(|s| s.sid == sid && sid != 0);
        msgs.push(json!({"kind": "request", "sid": sid, "idx": r.idx, "sub": r.send.sub.json(),
                         "got": srv.map(|s| s.recv.got.json()), "accepted": srv.is_some(),
                         "recv_done": srv.map(|s| s.recv.done()), "send_done": r.send.done}));
        // response: server submitted, client delivered
        if let Some(s) = srv {
            let mut got = r.recv.got.clone();
            if let Some(e) = &r.resp_err {
                got.err.get_or_insert(e.clone());
            }
            msgs.push(json!({"kind": "response", "sid": sid, "idx": r.idx, "sub": s.send.sub.json(), "got": got.json(),
                             "sub_err": s.resp_sub_err, "recv_done": r.recv.done() && r.resp_fut.is_none(), "send_done": s.send.done && s.respond.is_none()}));
            for p in &s.pushed {
                let cp = r.pushed.iter().find(|x| x.pid == p.pid);
                msgs.push(json!({"kind": "push_request", "sid": sid, "pid": p.pid, "sub": {"head": p.req_sub}, "got": cp.map(|x| json!({"head": x.req}))}));
                msgs.push(json!({"kind": "push_response", "sid": p.pid, "sub": p.send.sub.json(), "got": cp.map(|x| x.recv.got.json()),
                                 "recv_done": cp.map(|x| x.recv.done() && x.fut.is_none()), "send_done": p.send.done}));
            }
            // promises delivered that were never submitted
            for x in &r.pushed {
                if !s.pushed.iter().any(|p| p.pid == x.pid) {
                    msgs.push(json!({"kind": "push_request", "sid": sid, "pid": x.pid, "sub": null, "got": {"head": x.req}}));
                }
            }
        }
    }
    for s in &c.sstreams {
        if !c.creqs.iter().any(|r| r.send.sid == s.sid) {
            msgs.push(json!({"kind": "request", "sid": s.sid, "sub": null, "got": s.recv.got.json()}));
        }
    }
    // independent wire view: DATA frames per stream and direction
    let wire_view = |bytes: &Vec<u8>, skip_preface: bool, dir: u8| -> Value {
        let mut b = bytes.clone();
        if skip_preface && b.len() >= wire::PREFACE.len() {
            b.drain(..wire::PREFACE.len());
        }
        let frames = wire::parse_frames(&mut b);
        let mut per: BTreeMap<u32, (u64, bool, bool, u64, bool)> = BTreeMap::new(); // off, pattern_ok, eos, frames, data_after_eos
        let mut rst: Vec<u32> = Vec::new();
        for f in &frames {
            if f.kind == wire::DATA {
                let e = per.entry(f.sid).or_insert((0, true, false, 0, false));
                let body: &[u8] = if f.flags & wire::FLAG_PADDED != 0 && !f.payload.is_empty() {
                    let pl = f.payload[0] as usize;
                    &f.payload[1..f.payload.len().saturating_sub(pl).max(1)]
                } else {
                    &f.payload[..]
                };
                if e.2 {
                    e.4 = true;
                }
                let ok = body.iter().enumerate().all(|(i, x)| *x == pattern(f.sid, dir, e.0 + i as u64));
                e.1 &= ok;
                e.0 += body.len() as u64;
                e.3 += 1;
                if f.flags & wire::FLAG_END_STREAM != 0 {
                    e.2 = true;
                }
            } else if f.kind == wire::RST_STREAM {
                rst.push(f.sid);
            }
        }
        json!({"data": per.iter().map(|(k, v)| json!({"sid": k, "len": v.0, "pattern_ok": v.1, "eos": v.2, "frames": v.3, "data_after_eos": v.4})).collect::<Vec<_>>(),
               "rst": rst, "frames": frames.len(), "leftover": b.len()})
    };
    let w1 = wire_view(&c.wire_c2s, true, DIR_C2S);
    let w2 = wire_view(&c.wire_s2c, false, DIR_S2C);
    let mut out = json!({"seed": seed, "i": i, "cfg": c.cfg, "steps": c.step, "finished": finished, "msgs": msgs,
                         "conn": {"client": c.cres, "server": c.sres}, "wire": {"c2s": w1, "s2c": w2},
                         "bytes": {"c2s": c.wire_c2s.len(), "s2c": c.wire_s2c.len()}});
    if want_events {
        out["events"] = json!(c.events);
    }
    if !finished {
        // diagnosis of an unfinished case: statistics snapshots of both endpoints and who is still parked
        let snap = |r: Result<Option<h2::verif::Snapshot>, Box<dyn std::any::Any + Send>>| match r {
            Ok(Some(s)) => h2verif_harness::driver::snap_json(&s),
            _ => Value::Null,
        };
        let cs = std::panic::catch_unwind(std::panic::AssertUnwindSafe(|| c.cconn.as_ref().map(|x| x.verif_snapshot())));
        let ss = std::panic::catch_unwind(std::panic::AssertUnwindSafe(|| c.sconn.as_ref().map(|x| x.verif_snapshot())));
        out["snap"] = json!({"client": snap(cs), "server": snap(ss)});
        out["woken"] = json!({"cconn": c.t_cconn.is_woken(), "sconn": c.t_sconn.is_woken(),
                              "ctasks": c.ctasks.iter().map(|t| t.is_woken()).collect::<Vec<_>>(),
                              "stasks": c.stasks.iter().map(|t| t.is_woken()).collect::<Vec<_>>(),
                              "pc_out": c.pc.0.borrow().outbound.len(), "ps_out": c.ps.0.borrow().outbound.len(),
                              "pc_in": c.pc.0.borrow().inbound.len(), "ps_in": c.ps.0.borrow().inbound.len()});
    }
    // leak the endpoints: destructors of a poisoned connection may abort
    std::mem::forget(c);
    out
}

fn main() {
    let a = args();
    let _ = fields_json;
    let want_events = arg_u64(&a, "events", 0) == 1;
    std::panic::set_hook(Box::new(|_| {}));
    if let Some(p) = a.get("replay") {
        let v: Value = serde_json::from_str(&std::fs::read_to_string(p).expect("replay file")).expect("json");
        let seed = v["seed"].as_u64().unwrap_or(1);
        let i = v["i"].as_u64().unwrap_or(0);
        let steps = v["steps"].as_u64().unwrap_or(6000);
        let r = std::panic::catch_unwind(|| run_case(seed, i, steps, want_events));
        match r {
            Ok(v) => println!("{}", v),
            Err(_) => println!("{}", json!({"seed": seed, "i": i, "panic": true})),
        }
        return;
    }
    let seed = arg_u64(&a, "seed", 1);
    let n = arg_u64(&a, "n", 10);
    let first = arg_u64(&a, "first", 0);
    let steps = arg_u64(&a, "steps", 6000);
    let mut summary: BTreeMap<String, u64> = BTreeMap::new();
    for i in first..first + n {
        let r = std::panic::catch_unwind(|| run_case(seed, i, steps, want_events));
        let v = match r {
            Ok(v) => v,
            Err(p) => {
                let msg = if let Some(s) = p.downcast_ref::<&str>() { s.to_string() } else if let Some(s) = p.downcast_ref::<String>() { s.clone() } else { "?".into() };
                json!({"seed": seed, "i": i, "panic": msg, "steps_arg": steps})
            }
        };
        *summary.entry("cases".into()).or_default() += 1;
        if v["finished"].as_bool() == Some(true) {
            *summary.entry("finished".into()).or_default() += 1;
        }
        if let Some(ms) = v["msgs"].as_array() {
            for m in ms {
                *summary.entry(format!("msg_{}", m["kind"].as_str().unwrap_or("?"))).or_default() += 1;
                if m["sub"]["err"].as_str() == Some("reset") {
                    *summary.entry("resets".into()).or_default() += 1;
                }
                if m["sub"]["len"].as_u64().unwrap_or(0) > 65535 {
                    *summary.entry("bodies_over_64k".into()).or_default() += 1;
                }
                if m["sub"]["trailers"].is_object() {
                    *summary.entry("with_trailers".into()).or_default() += 1;
                }
                if m["sub"]["infos"].as_array().map(|a| !a.is_empty()).unwrap_or(false) {
                    *summary.entry("with_interim".into()).or_default() += 1;
                }
            }
        }
        println!("{}", v);
    }
    println!("{}", json!({"summary": summary}));
}
