//! Online scenario generator: draws the next op from one PRNG given the harness' own view of the
//! connection (which handles exist, what the peer may legally send, ...), so that most ops are
//! legal; a separate "chaos" weight injects illegal peer frames.  Profiles bias the weights.

use crate::driver::{self, Config, Driver, Endpoint};
use crate::wire;
use crate::Rng;
use serde_json::{json, Value};

#[derive(Debug, Clone, Default)]
pub struct PStream {
    pub sid: u32,
    /// the peer has not yet ended its direction
    pub peer_open: bool,
    /// the endpoint has not yet ended its direction (as seen on the wire)
    pub ep_open: bool,
    pub reset: bool,
    /// peer has sent its initial HEADERS (response head for client role)
    pub peer_head_sent: bool,
    /// credit the peer has for sending DATA to the endpoint on this stream
    pub window: i64,
    pub sent_off: u64,
    pub initiated_by_peer: bool,
    /// race profile: the endpoint has reset the stream but the peer has frames "in flight": it keeps using the stream for
    /// this many more peer ops
    pub lag: u8,
}

#[derive(Debug, Clone)]
pub struct PeerView {
    pub streams: Vec<PStream>,
    pub conn_window: i64,
    /// endpoint's SETTINGS_INITIAL_WINDOW_SIZE as last seen in a SETTINGS frame
    pub ep_init_window: i64,
    pub ep_max_frame: usize,
    pub next_peer_sid: u32,
    pub settings_to_ack: u32,
    pub pings_to_ack: Vec<Vec<u8>>,
    pub goaway_seen: bool,
    pub sent_goaway: bool,
    pub seen_out: usize,
    /// endpoint's SETTINGS_MAX_CONCURRENT_STREAMS as last seen (None = unlimited)
    pub ep_max_streams: Option<u64>,
    /// control profile: ops to execute back to back before anything else is drawn
    pub queue: std::collections::VecDeque<Value>,
    /// control profile: last-stream ids of the GOAWAY frames the peer has sent
    pub goaway_lasts: Vec<u32>,
    /// race profile: frames in flight when the endpoint resets a stream; the endpoint's concurrency limit binds the peer
    /// only from the SETTINGS acknowledgement the peer sends
    pub race: bool,
    pub acked_max_streams: Option<u64>,
    pub unacked_max_streams: Vec<Option<u64>>,
    /// legal peers: an INCREASE of the endpoint's SETTINGS_INITIAL_WINDOW_SIZE may be used only after the peer has
    /// acknowledged that SETTINGS frame (the endpoint enforces the old value until then); one entry per unacknowledged frame
    pub defer_incs: bool,
    pub unacked_window_incs: Vec<i64>,
}

#[derive(Debug, Clone)]
pub struct Profile {
    pub name: &'static str,
    pub w_conn_poll: u64,
    pub w_peer: u64,
    pub w_app: u64,
    pub w_io: u64,
    pub w_chaos: u64,
    pub w_end: u64,
    pub max_data: u64,
    pub tiny_windows: bool,
    pub small_limits: bool,
    pub recv_heavy: bool,
    /// control-plane ops (gen_control) are mixed in; false for every other profile (no extra PRNG draws)
    pub control: bool,
    /// many cloned request handles racing for few slots; queued requests are reset / dropped while queued
    pub queue: bool,
    /// large bodies ending the stream, tiny write budgets, frequent SETTINGS window changes while writes are blocked
    pub backpressure: bool,
    /// the connection send window is the scarce resource: big stream windows, several streams whose reservations add up
    /// to more than the connection window, reservations raised AND lowered while partly served, small connection-level
    /// WINDOW_UPDATEs
    pub starve: bool,
    /// C08: the malformed stream is drawn from `gen_fuzz` (mutated legal frames, random frame heads, raw bytes, the
    /// chaos catalogue) and the read chunking changes all the time
    pub fuzz: bool,
    /// C17: resets and last-handle drops at particular moments of a stream's life (final DATA blocked on the window, final
    /// frame partly written, right after a clean close, after trailers), as short op macros executed back to back
    pub late_reset: bool,
    /// the send BUFFER (max_send_buffer_size), not the window, bounds capacity: reservations above the buffer, partial use
    /// of a grant, capacity waits while part of the grant is still unused, small writes draining the buffer
    pub bufcap: bool,
    /// legal peer with races the RFC tolerates: frames still in flight for a stream the endpoint has just reset or refused,
    /// the endpoint's SETTINGS_MAX_CONCURRENT_STREAMS binding the peer only from its acknowledgement
    pub race: bool,
    /// the scripted peer never violates the protocol (no content-length, strictly within windows and limits)
    pub legal_peer: bool,
    /// streams are finished and every handle (request handles, send / receive halves, response and push futures, flow-control
    /// clones) is dropped in random order relative to connection progress; ends with a tear-down phase that drops whatever is
    /// left while the connection stays alive (no extra PRNG draws for the other profiles)
    pub idle: bool,
    /// C20: handle operations are executed from inside the transport's write / flush callback of a connection poll
    /// (`conn_poll_inject`), preferably on the stream that owns the DATA frame in flight (no extra PRNG draws for the other profiles)
    pub inject: bool,
    /// hostile peer (C18): rapid open+RST, HEADERS floods beyond the concurrency limit, tiny / empty DATA floods, CONTINUATION
    /// floods, oversized header lists, PING / SETTINGS floods while writes are blocked, PUSH_PROMISE and 1xx floods, frames on
    /// forgotten streams; a slow or never-accepting application (no extra PRNG draws for the other profiles)
    pub abuse: bool,
    /// C05 (receive direction on a client): bursts of PUSH_PROMISE on one request followed by the pushed responses' HEADERS
    /// (streams left open), so that more pushed streams want to be active than the client advertised (no extra PRNG draws
    /// for the other profiles)
    pub pushlimit: bool,
    /// C04: a client whose identifier space is nearly used up (initial_stream_id close to 2^31-1): requests after exhaustion,
    /// late peer frames on finished (forgotten) streams followed by further requests (no extra PRNG draws for the other profiles)
    pub idspace: bool,
}

pub fn profile(name: &str) -> Profile {
    let base = Profile { name: "mixed", w_conn_poll: 30, w_peer: 30, w_app: 40, w_io: 3, w_chaos: 0, w_end: 1, max_data: 3000, tiny_windows: false, small_limits: false, recv_heavy: false, control: false, queue: false, backpressure: false, starve: false, fuzz: false, race: false, late_reset: false, bufcap: false, legal_peer: false, idle: false, inject: false, abuse: false, pushlimit: false, idspace: false };
    match name {
        "flow" => Profile { name: "flow", tiny_windows: true, max_data: 400, w_io: 6, ..base },
        "limits" => Profile { name: "limits", small_limits: true, max_data: 200, ..base },
        "recv" => Profile { name: "recv", recv_heavy: true, max_data: 1200, w_peer: 40, w_app: 45, w_conn_poll: 25, ..base },
        "chaos" => Profile { name: "chaos", w_chaos: 12, ..base },
        "reset" => Profile { name: "reset", max_data: 500, ..base },
        "shutdown" => Profile { name: "shutdown", w_end: 6, ..base },
        "lastframe" => Profile { name: "lastframe", late_reset: true, max_data: 400, w_app: 45, w_peer: 30, w_conn_poll: 25, w_end: 0, ..base },
        "race" => Profile { name: "race", legal_peer: true, race: true, small_limits: true, w_end: 0, max_data: 300, w_peer: 40, w_app: 30, ..base },
        "legal" => Profile { name: "legal", legal_peer: true, w_end: 0, ..base },
        "bp" => Profile { name: "bp", backpressure: true, max_data: 3000, w_io: 14, w_peer: 32, w_app: 36, w_conn_poll: 30, ..base },
        "bplimits" => Profile { name: "bplimits", backpressure: true, small_limits: true, max_data: 3000, w_io: 14, w_peer: 40, w_app: 28, w_conn_poll: 30, ..base },
        "idspace" => Profile { name: "idspace", idspace: true, max_data: 200, w_end: 0, ..base },
        "pushlimit" => Profile { name: "pushlimit", small_limits: true, pushlimit: true, max_data: 200, w_peer: 35, w_app: 40, w_conn_poll: 25, ..base },
        "queue" => Profile { name: "queue", small_limits: true, queue: true, max_data: 100, w_app: 55, w_peer: 25, w_conn_poll: 20, w_io: 2, ..base },
        "bufcap" => Profile { name: "bufcap", bufcap: true, max_data: 30, w_app: 55, w_peer: 15, w_conn_poll: 30, w_io: 1, w_end: 0, ..base },
        "starve" => Profile { name: "starve", starve: true, max_data: 60, w_app: 55, w_peer: 20, w_conn_poll: 25, w_io: 1, w_end: 0, ..base },
        "starvedrop" => Profile { name: "starvedrop", starve: true, idle: true, max_data: 60, w_app: 55, w_peer: 20, w_conn_poll: 25, w_io: 1, w_end: 0, ..base },
        "fuzz" => Profile { name: "fuzz", fuzz: true, w_chaos: 22, w_io: 8, w_peer: 30, w_app: 25, w_conn_poll: 30, max_data: 600, ..base },
        "control" => Profile { name: "control", w_end: 2, w_io: 5, control: true, ..base },
        "inject" => Profile { name: "inject", backpressure: true, inject: true, max_data: 3000, w_io: 14, w_peer: 30, w_app: 38, w_conn_poll: 18, w_end: 0, ..base },
        "abuse" => Profile { name: "abuse", abuse: true, w_end: 0, max_data: 300, w_app: 12, w_peer: 30, w_conn_poll: 40, w_io: 4, ..base },
        "idle" => Profile { name: "idle", idle: true, legal_peer: true, w_end: 0, max_data: 300, w_app: 50, ..base },
        "pushidle" => Profile { name: "pushidle", idle: true, pushlimit: true, legal_peer: true, w_end: 0, max_data: 300, w_app: 50, ..base },
        _ => base,
    }
}

pub fn gen_config(rng: &mut Rng, client: bool, p: &Profile) -> Config {
    let mut c = Config::default_client();
    c.role_client = client;
    if p.bufcap {
        c.max_send_buffer_size = Some(*rng.pick(&[5usize, 8, 20, 50, 200]));
        c.peer_settings.push((4, *rng.pick(&[65535u32, 200000])));
    } else if p.starve {
        c.peer_settings.push((4, *rng.pick(&[65535u32, 200000, 1000000])));
        if rng.chance(1, 3) { c.max_send_buffer_size = Some(*rng.pick(&[100usize, 70000, 1000000])); }
    } else if p.recv_heavy {
        c.initial_window_size = Some(*rng.pick(&[100u32, 1000, 3000, 10000, 65535]));
        if rng.chance(1, 2) { c.initial_connection_window_size = Some(*rng.pick(&[65535u32, 70000, 100000])); }
    } else if p.tiny_windows {
        c.initial_window_size = Some(*rng.pick(&[0u32, 1, 10, 100, 500, 1000, 65535]));
        c.initial_connection_window_size = if rng.chance(1, 2) { Some(*rng.pick(&[65535u32, 66000, 70000, 100000])) } else { None };
        let iw = *rng.pick(&[0u32, 1, 7, 50, 300, 1000, 65535]);
        c.peer_settings.push((4, iw));
        if rng.chance(1, 3) {
            c.max_send_buffer_size = Some(*rng.pick(&[1usize, 10, 100, 1000]));
        }
    } else if rng.chance(1, 3) {
        c.initial_window_size = Some(*rng.pick(&[1000u32, 20000, 65535, 200000]));
        c.peer_settings.push((4, *rng.pick(&[1000u32, 20000, 65535, 200000])));
    }
    if p.queue {
        c.peer_settings.push((3, *rng.pick(&[1u32, 1, 2, 3])));
        if rng.chance(1, 3) { c.initial_max_send_streams = Some(*rng.pick(&[0usize, 1, 2])); }
        if rng.chance(1, 2) { c.max_concurrent_streams = Some(*rng.pick(&[1u32, 2])); }
    } else if p.small_limits || rng.chance(1, 4) {
        c.max_concurrent_streams = Some(*rng.pick(&[0u32, 1, 2, 3, 5]));
        if rng.chance(2, 3) {
            c.peer_settings.push((3, *rng.pick(&[0u32, 1, 2, 3, 5])));
        }
        if client && rng.chance(1, 2) {
            c.initial_max_send_streams = Some(*rng.pick(&[0usize, 1, 2, 4]));
        }
    }
    // A legal peer may have frames in flight for a stream the endpoint has just reset; h2 tolerates them for as long and
    // for as many streams as the application configures (documented).  The legal profiles keep that memory at its
    // defaults, otherwise the endpoint would be *configured* to answer the race with an error.
    if rng.chance(1, 4) {
        let v = *rng.pick(&[0usize, 1, 2, 10]);
        if !p.legal_peer { c.max_concurrent_reset_streams = Some(v); }
    }
    if rng.chance(1, 3) {
        let v = *rng.pick(&[0u64, 1, 1000]);
        if !p.legal_peer { c.reset_stream_duration_ms = Some(v); }
    }
    if !p.legal_peer && rng.chance(1, 5) {
        c.max_pending_accept_reset_streams = Some(*rng.pick(&[0usize, 1, 3]));
    }
    if !p.legal_peer && rng.chance(1, 5) {
        c.max_local_error_reset_streams = Some(*rng.pick(&[Some(0usize), Some(1), Some(3), None]));
    }
    if rng.chance(1, 4) {
        c.max_frame_size = Some(*rng.pick(&[16384u32, 16385, 20000]));
    }
    if rng.chance(1, 3) {
        c.peer_settings.push((5, *rng.pick(&[16384u32, 16390, 30000])));
    }
    if client && rng.chance(1, 3) {
        c.enable_push = Some(rng.chance(1, 2));
    }
    if !client && rng.chance(1, 4) {
        c.peer_settings.push((2, rng.below(2) as u32));
    }
    if rng.chance(1, 6) {
        c.peer_settings.push((1, *rng.pick(&[0u32, 100, 4096, 10000])));
    }
    if p.idspace && client {
        c.initial_stream_id = Some(*rng.pick(&[0x7fff_ffffu32, 0x7fff_fffd, 0x7fff_fffb, 0x7fff_fff9]));
    }
    if p.abuse {
        c.max_concurrent_streams = Some(*rng.pick(&[1u32, 2, 5, 20]));
        c.max_concurrent_reset_streams = Some(*rng.pick(&[0usize, 1, 3, 10]));
        c.max_pending_accept_reset_streams = Some(*rng.pick(&[0usize, 1, 3, 20]));
        c.max_local_error_reset_streams = Some(*rng.pick(&[Some(0usize), Some(2), Some(10), Some(1024), None]));
        c.reset_stream_duration_ms = Some(*rng.pick(&[0u64, 1, 30000]));
        c.max_header_list_size = *rng.pick(&[None, Some(100u32), Some(1000)]);
        if client { c.enable_push = Some(rng.chance(3, 4)); }
    }
    c
}

impl PeerView {
    pub fn new(cfg: &Config) -> PeerView {
        PeerView {
            streams: vec![],
            conn_window: 65535,
            ep_init_window: 65535,
            ep_max_frame: 16384,
            next_peer_sid: if cfg.role_client { 2 } else { 1 },
            settings_to_ack: 0,
            pings_to_ack: vec![],
            goaway_seen: false,
            sent_goaway: false,
            seen_out: 0,
            ep_max_streams: cfg.max_concurrent_streams.map(|v| v as u64),
            queue: std::collections::VecDeque::new(),
            goaway_lasts: vec![],
            race: false,
            acked_max_streams: None,
            unacked_max_streams: vec![],
            defer_incs: false,
            unacked_window_incs: vec![],
        }
    }

    /// Update the view from the frames the endpoint has written.
    pub fn observe(&mut self, d: &Driver) {
        let role_client = d.cfg.role_client;
        while self.seen_out < d.out_frames.len() {
            let f = &d.out_frames[self.seen_out];
            self.seen_out += 1;
            let sid = f["sid"].as_u64().unwrap_or(0) as u32;
            match f["t"].as_str().unwrap_or("") {
                "SETTINGS" => {
                    if f["ack"].as_bool() != Some(true) {
                        self.settings_to_ack += 1;
                        if self.race {
                            let m = f["params"].as_array().and_then(|ps| ps.iter().filter(|p| p[0].as_u64() == Some(3)).last().map(|p| p[1].as_u64().unwrap_or(0)));
                            self.unacked_max_streams.push(m);
                        }
                        if self.defer_incs { self.unacked_window_incs.push(0); }
                        if let Some(ps) = f["params"].as_array() {
                            for p in ps {
                                let id = p[0].as_u64().unwrap_or(0);
                                let v = p[1].as_u64().unwrap_or(0) as i64;
                                if id == 4 {
                                    let delta = v - self.ep_init_window;
                                    if self.defer_incs && delta > 0 {
                                        // usable from the acknowledgement on
                                        if let Some(x) = self.unacked_window_incs.last_mut() { *x += delta; }
                                        continue;
                                    }
                                    self.ep_init_window = v;
                                    for s in self.streams.iter_mut() {
                                        s.window += delta;
                                    }
                                }
                                if id == 5 {
                                    self.ep_max_frame = v as usize;
                                }
                                if id == 3 {
                                    self.ep_max_streams = Some(v as u64);
                                }
                            }
                        }
                    }
                }
                "PING" => {
                    if f["ack"].as_bool() != Some(true) {
                        let p: Vec<u8> = f["payload"].as_array().map(|a| a.iter().map(|x| x.as_u64().unwrap_or(0) as u8).collect()).unwrap_or_default();
                        self.pings_to_ack.push(p);
                    }
                }
                "WINDOW_UPDATE" => {
                    let inc = f["inc"].as_i64().unwrap_or(0);
                    if sid == 0 {
                        self.conn_window += inc;
                    } else if let Some(s) = self.streams.iter_mut().find(|s| s.sid == sid) {
                        s.window += inc;
                    }
                }
                "HEADERS" => {
                    let eos = f["eos"].as_bool() == Some(true);
                    let local_init = if role_client { sid % 2 == 1 } else { sid % 2 == 0 };
                    match self.streams.iter_mut().find(|s| s.sid == sid) {
                        Some(s) => {
                            if eos { s.ep_open = false; }
                        }
                        None => {
                            if local_init {
                                self.streams.push(PStream { sid, peer_open: true, ep_open: !eos, reset: false, peer_head_sent: false, window: self.ep_init_window, sent_off: 0, initiated_by_peer: false, lag: 0 });
                            }
                        }
                    }
                }
                "PUSH_PROMISE" => {
                    let promised = f["promised"].as_u64().unwrap_or(0) as u32;
                    self.streams.push(PStream { sid: promised, peer_open: false, ep_open: true, reset: false, peer_head_sent: true, window: 0, sent_off: 0, initiated_by_peer: false, lag: 0 });
                }
                "DATA" => {
                    if f["eos"].as_bool() == Some(true) {
                        if let Some(s) = self.streams.iter_mut().find(|s| s.sid == sid) {
                            s.ep_open = false;
                        }
                    }
                }
                "RST_STREAM" => {
                    let race = self.race;
                    let odd = self.seen_out % 2 == 1;
                    if let Some(s) = self.streams.iter_mut().find(|s| s.sid == sid) {
                        if race && odd && !s.reset && s.lag == 0 {
                            // frames in flight: the peer learns of the reset a little later
                            s.lag = 2;
                            continue;
                        }
                        s.reset = true;
                        s.ep_open = false;
                        s.peer_open = false;
                    }
                }
                "GOAWAY" => self.goaway_seen = true,
                _ => {}
            }
        }
    }
}

fn peer_bytes(v: Vec<u8>, what: Value) -> Value {
    json!({"op": "peer", "what": what, "bytes": v})
}

fn req_block(rng: &mut Rng, with_cl: Option<u64>) -> Vec<u8> {
    let mut f: Vec<(Vec<u8>, Vec<u8>)> = vec![
        (b":method".to_vec(), if rng.chance(1, 3) { b"POST".to_vec() } else { b"GET".to_vec() }),
        (b":scheme".to_vec(), b"https".to_vec()),
        (b":path".to_vec(), b"/x".to_vec()),
        (b":authority".to_vec(), b"example.com".to_vec()),
    ];
    if let Some(n) = with_cl {
        f.push((b"content-length".to_vec(), n.to_string().into_bytes()));
    }
    if rng.chance(1, 3) {
        f.push((b"x-pad".to_vec(), vec![b'a'; rng.range(1, 60) as usize]));
    }
    wire::hpack_literal(&f)
}

fn resp_block(rng: &mut Rng, status: u32) -> Vec<u8> {
    let mut f: Vec<(Vec<u8>, Vec<u8>)> = vec![(b":status".to_vec(), status.to_string().into_bytes())];
    if rng.chance(1, 3) {
        f.push((b"x-pad".to_vec(), vec![b'b'; rng.range(1, 60) as usize]));
    }
    wire::hpack_literal(&f)
}

/// One plausible (mostly legal) peer action.
pub fn gen_peer(rng: &mut Rng, d: &Driver, pv: &mut PeerView, p: &Profile) -> Option<Value> {
    let client = d.cfg.role_client;
    // owed acknowledgements first (with high probability)
    if p.race {
        for s in pv.streams.iter_mut() {
            if s.lag > 0 && rng.chance(1, 3) {
                s.lag -= 1;
                if s.lag == 0 { s.reset = true; s.ep_open = false; s.peer_open = false; }
            }
        }
    }
    if pv.settings_to_ack > 0 && rng.chance(if p.race { 1 } else { 3 }, 4) {
        if p.race && !pv.unacked_max_streams.is_empty() {
            if let Some(m) = pv.unacked_max_streams.remove(0) { pv.acked_max_streams = Some(m); }
        }
        if pv.defer_incs && !pv.unacked_window_incs.is_empty() {
            let delta = pv.unacked_window_incs.remove(0);
            if delta != 0 {
                pv.ep_init_window += delta;
                for s in pv.streams.iter_mut() { s.window += delta; }
            }
        }
        pv.settings_to_ack -= 1;
        return Some(peer_bytes(wire::settings_ack(), json!({"t":"SETTINGS","ack":true})));
    }
    if !pv.pings_to_ack.is_empty() && rng.chance(3, 4) {
        let pl = pv.pings_to_ack.remove(0);
        let mut a = [0u8; 8];
        for (i, b) in pl.iter().take(8).enumerate() { a[i] = *b; }
        return Some(peer_bytes(wire::ping(true, a), json!({"t":"PING","ack":true})));
    }
    let live: Vec<usize> = pv.streams.iter().enumerate().filter(|(_, s)| !s.reset).map(|(i, _)| i).collect();
    let mut choice = rng.below(100);
    if p.backpressure && rng.chance(1, 5) {
        let iw = *rng.pick(&[0u32, 1000, 10000, 30000, 65535, 100000]);
        return Some(peer_bytes(wire::settings(&[(4, iw)]), json!({"t":"SETTINGS","params":[[4, iw]]})));
    }
    if p.recv_heavy && rng.chance(1, 2) { choice = 33 + rng.below(27); }
    match choice {
        0..=17 => {
            // open a new stream (server role) / push (client role, rarely)
            if !client {
                if p.legal_peer {
                    let open = pv.streams.iter().filter(|s| s.initiated_by_peer && !s.reset && (s.peer_open || s.ep_open)).count() as u64;
                    let lim = if p.race { pv.acked_max_streams } else { pv.ep_max_streams };
                    if let Some(m) = lim { if open >= m { return None; } }
                }
                let sid = pv.next_peer_sid;
                pv.next_peer_sid += 2;
                let eos = rng.chance(1, 3);
                let cl = if !p.legal_peer && !eos && rng.chance(1, 4) { Some(rng.range(0, 600)) } else { None };
                let block = req_block(rng, cl);
                let split = if rng.chance(1, 6) { rng.range(5, 40) as usize } else { 0 };
                pv.streams.push(PStream { sid, peer_open: !eos, ep_open: true, reset: false, peer_head_sent: true, window: pv.ep_init_window, sent_off: 0, initiated_by_peer: true, lag: 0 });
                return Some(peer_bytes(wire::headers(sid, &block, eos, split), json!({"t":"HEADERS","sid":sid,"eos":eos,"cl":cl})));
            } else if d.cfg.enable_push != Some(false) && rng.chance(1, 3) {
                // PUSH_PROMISE on a live client-initiated stream
                let cands: Vec<usize> = live.iter().copied().filter(|&i| !pv.streams[i].initiated_by_peer && pv.streams[i].peer_open).collect();
                if let Some(&i) = cands.first() {
                    let parent = pv.streams[i].sid;
                    let sid = pv.next_peer_sid;
                    pv.next_peer_sid += 2;
                    let block = wire::hpack_literal(&[
                        (b":method".to_vec(), b"GET".to_vec()),
                        (b":scheme".to_vec(), b"https".to_vec()),
                        (b":path".to_vec(), b"/pushed".to_vec()),
                        (b":authority".to_vec(), b"example.com".to_vec()),
                    ]);
                    pv.streams.push(PStream { sid, peer_open: true, ep_open: false, reset: false, peer_head_sent: false, window: pv.ep_init_window, sent_off: 0, initiated_by_peer: true, lag: 0 });
                    return Some(peer_bytes(wire::push_promise(parent, sid, &block), json!({"t":"PUSH_PROMISE","sid":parent,"promised":sid})));
                }
            }
            None
        }
        18..=32 => {
            // response head / informational (client role), or trailers
            let cands: Vec<usize> = live.iter().copied().filter(|&i| pv.streams[i].peer_open).collect();
            if cands.is_empty() { return None; }
            let i = *rng.pick(&cands);
            let s = &mut pv.streams[i];
            if !s.peer_head_sent {
                if rng.chance(1, 6) {
                    let st = *rng.pick(&[100u32, 103]);
                    let block = resp_block(rng, st);
                    return Some(peer_bytes(wire::headers(s.sid, &block, false, 0), json!({"t":"HEADERS","sid":s.sid,"info":true})));
                }
                let eos = rng.chance(1, 4);
                let st = *rng.pick(&[200u32, 204, 404, 500]);
                let block = resp_block(rng, st);
                s.peer_head_sent = true;
                if eos { s.peer_open = false; }
                return Some(peer_bytes(wire::headers(s.sid, &block, eos, 0), json!({"t":"HEADERS","sid":s.sid,"eos":eos})));
            } else if rng.chance(1, 4) {
                // trailers
                let block = wire::hpack_literal(&[(b"x-trailer".to_vec(), b"v".to_vec())]);
                s.peer_open = false;
                return Some(peer_bytes(wire::headers(s.sid, &block, true, 0), json!({"t":"HEADERS","sid":s.sid,"eos":true,"trailers":true})));
            }
            None
        }
        33..=59 => {
            // DATA within the windows (mostly)
            let cands: Vec<usize> = live.iter().copied().filter(|&i| pv.streams[i].peer_open && pv.streams[i].peer_head_sent).collect();
            if cands.is_empty() { return None; }
            let i = *rng.pick(&cands);
            let cw = pv.conn_window;
            let s = &mut pv.streams[i];
            let room = s.window.min(cw).max(0) as u64;
            let pad: Option<u8> = if rng.chance(1, 6) { Some(rng.below(20) as u8) } else { None };
            let padcost = pad.map(|p| p as u64 + 1).unwrap_or(0);
            let mut len = rng.range(0, p.max_data.min(pv.ep_max_frame as u64 - 300));
            if len + padcost > room {
                if room <= padcost { if p.legal_peer || rng.chance(3, 4) { return None; } len = 0; } else { len = room - padcost; }
            }
            if rng.chance(1, 8) { len = len.min(5); }
            let eos = rng.chance(1, 5);
            let body: Vec<u8> = (0..len).map(|k| driver::pattern(s.sid, 1, s.sent_off + k)).collect();
            s.sent_off += len;
            let cost = (len + if pad.is_some() { padcost } else { 0 }) as i64;
            s.window -= cost;
            pv.conn_window -= cost;
            if eos { s.peer_open = false; }
            Some(peer_bytes(wire::data(s.sid, &body, eos, pad), json!({"t":"DATA","sid":s.sid,"len":len,"eos":eos,"pad":pad})))
        }
        60..=79 => {
            // WINDOW_UPDATE (stream or connection)
            let inc = if p.starve { *rng.pick(&[1u32, 5, 10, 20, 50]) } else { *rng.pick(&[1u32, 2, 10, 100, 1000, 16384, 65535, 100000]) };
            if p.starve && rng.chance(2, 3) { return None; }
            if live.is_empty() || rng.chance(1, 3) {
                Some(peer_bytes(wire::window_update(0, inc), json!({"t":"WINDOW_UPDATE","sid":0,"inc":inc})))
            } else {
                let i = *rng.pick(&live);
                let sid = pv.streams[i].sid;
                Some(peer_bytes(wire::window_update(sid, inc), json!({"t":"WINDOW_UPDATE","sid":sid,"inc":inc})))
            }
        }
        80..=85 => {
            // RST_STREAM
            if live.is_empty() { return None; }
            let i = *rng.pick(&live);
            let s = &mut pv.streams[i];
            let code = *rng.pick(&[0u32, 1, 2, 5, 7, 8, 11, 0xdead_beef]);
            s.reset = true;
            s.peer_open = false;
            Some(peer_bytes(wire::rst_stream(s.sid, code), json!({"t":"RST_STREAM","sid":s.sid,"code":code})))
        }
        86..=91 => {
            // SETTINGS change
            let mut params: Vec<(u16, u32)> = vec![];
            if rng.chance(2, 3) {
                let iw = if p.tiny_windows { *rng.pick(&[0u32, 1, 20, 200, 1000, 65535]) } else { *rng.pick(&[0u32, 1000, 65535, 100000]) };
                params.push((4, iw));
            }
            if rng.chance(1, 3) { params.push((3, *rng.pick(&[0u32, 1, 2, 4, 100]))); }
            if rng.chance(1, 4) { params.push((5, *rng.pick(&[16384u32, 17000, 65536]))); }
            if rng.chance(1, 6) { params.push((1, *rng.pick(&[0u32, 64, 4096]))); }
            if rng.chance(1, 8) { params.push((0x99, 7)); }
            Some(peer_bytes(wire::settings(&params), json!({"t":"SETTINGS","params":params.iter().map(|(a,b)| json!([a,b])).collect::<Vec<_>>()})))
        }
        92..=95 => {
            let pl = [rng.byte(), 2, 3, 4, 5, 6, 7, rng.byte()];
            Some(peer_bytes(wire::ping(false, pl), json!({"t":"PING","ack":false,"payload":pl})))
        }
        96..=97 => Some(peer_bytes(wire::priority(*rng.pick(&[1u32, 3, 5, 7, 101]), 0, 16), json!({"t":"PRIORITY"}))),
        98 => Some(peer_bytes(wire::frame(0x20, 0, *rng.pick(&[0u32, 1, 3]), &[1, 2, 3]), json!({"t":"UNKNOWN"}))),
        _ => {
            if p.w_end == 0 || pv.sent_goaway { return None; }
            pv.sent_goaway = true;
            let last = if client { *rng.pick(&[0u32, 1, 3, 5, 0x7fff_ffff]) } else { 0 };
            let code = *rng.pick(&[0u32, 0, 1, 2, 11]);
            Some(peer_bytes(wire::goaway(last, code, b"dbg"), json!({"t":"GOAWAY","last":last,"code":code})))
        }
    }
}

/// Illegal / unusual peer frames (the malformed stream).
pub fn gen_chaos(rng: &mut Rng, _d: &Driver, pv: &mut PeerView) -> Value {
    let sid_any = if pv.streams.is_empty() { 1 } else { rng.pick(&pv.streams).sid };
    if _d.cfg.role_client && rng.chance(1, 3) {
        // RFC 9113 6.6: PUSH_PROMISE on a request whose response the peer has already ended (the endpoint's side still open)
        let cand = pv.streams.iter().find(|s| !s.initiated_by_peer && !s.peer_open && s.ep_open && !s.reset && s.peer_head_sent
            && _d.handles.iter().any(|h| h.sid == s.sid && !h.send_done && h.send.is_some())).map(|s| s.sid);
        if let Some(parent) = cand {
            let sid = pv.next_peer_sid;
            pv.next_peer_sid += 2;
            let block = wire::hpack_literal(&[
                (b":method".to_vec(), b"GET".to_vec()),
                (b":scheme".to_vec(), b"https".to_vec()),
                (b":path".to_vec(), b"/pushed".to_vec()),
                (b":authority".to_vec(), b"example.com".to_vec()),
            ]);
            return json!({"op":"peer","what":{"chaos":"push-on-half-closed-remote","sid":parent,"promised":sid},"bytes":wire::push_promise(parent, sid, &block)});
        }
    }
    let k = rng.below(16);
    let (bytes, what): (Vec<u8>, &str) = match k {
        0 => (wire::window_update(sid_any, 0), "wu-zero-stream"),
        1 => (wire::window_update(0, 0), "wu-zero-conn"),
        2 => (wire::window_update(0, 0x7fff_ffff), "wu-overflow-conn"),
        3 => (wire::window_update(sid_any, 0x7fff_ffff), "wu-overflow-stream"),
        4 => (wire::data(0, b"x", false, None), "data-on-zero"),
        5 => (wire::data(sid_any + 200, b"xyz", false, None), "data-on-idle"),
        6 => (wire::frame(wire::DATA, wire::FLAG_PADDED, sid_any, &[5, 1, 2]), "data-too-much-padding"),
        7 => (wire::settings_ack(), "stray-settings-ack"),
        8 => (wire::frame(wire::SETTINGS, 0, 0, &[0, 4, 0xff, 0xff, 0xff, 0xff]), "settings-bad-window"),
        9 => (wire::frame(wire::PING, 0, 0, &[1, 2, 3]), "ping-bad-len"),
        10 => (wire::frame(wire::RST_STREAM, 0, 0, &[0, 0, 0, 1]), "rst-on-zero"),
        11 => (wire::frame(wire::CONTINUATION, wire::FLAG_END_HEADERS, sid_any, &[]), "stray-continuation"),
        12 => (wire::frame(wire::HEADERS, wire::FLAG_END_HEADERS, sid_any, &[0xff, 0xff, 0xff]), "headers-bad-hpack"),
        13 => (wire::rst_stream(sid_any + 400, 8), "rst-on-idle"),
        14 => (wire::frame(wire::GOAWAY, 0, 0, &[0, 0]), "goaway-short"),
        _ => {
            let n = rng.range(1, 30) as usize;
            (rng.bytes(n), "random-bytes")
        }
    };
    json!({"op":"peer","what":{"chaos":what},"bytes":bytes})
}

/// C08 malformed stream: mutations of frames the peer could legally send now, frames with random heads, raw bytes,
/// well-formed frames in illegal places, and the chaos catalogue.  Every choice derives from `rng`.
pub fn gen_fuzz(rng: &mut Rng, d: &Driver, pv: &mut PeerView, p: &Profile) -> Value {
    let sids: Vec<u32> = {
        let mut v: Vec<u32> = pv.streams.iter().map(|s| s.sid).collect();
        v.extend_from_slice(&[0, 1, 2, 3, 5, 7, 0x7fff_ffff, pv.next_peer_sid, pv.next_peer_sid + 2, pv.next_peer_sid + 100]);
        v
    };
    match rng.below(10) {
        0..=2 => {
            // mutate a frame the peer could legally send now
            let mut pv2 = pv.clone();
            let legal = Profile { w_end: 0, ..p.clone() };
            if let Some(op) = gen_peer(rng, d, &mut pv2, &legal) {
                let mut bytes: Vec<u8> = op["bytes"].as_array().map(|a| a.iter().map(|x| x.as_u64().unwrap_or(0) as u8).collect()).unwrap_or_default();
                if !bytes.is_empty() {
                    let what = match rng.below(8) {
                        0 => { let i = rng.below(bytes.len().min(9) as u64) as usize; bytes[i] ^= 1 << rng.below(8); "flip-head-bit" }
                        1 => { let i = rng.below(bytes.len() as u64) as usize; bytes[i] ^= 1 << rng.below(8); "flip-any-bit" }
                        2 => { let n = rng.range(1, bytes.len() as u64) as usize; bytes.truncate(n); "truncate" }
                        3 => { let b2 = bytes.clone(); bytes.extend(b2); "duplicate" }
                        4 => { if bytes.len() > 4 { bytes[4] = rng.byte(); } "random-flags" }
                        5 => { if bytes.len() > 3 { bytes[3] = rng.below(12) as u8; } "random-type" }
                        6 => { if bytes.len() > 8 { let s = *rng.pick(&sids); bytes[5..9].copy_from_slice(&s.to_be_bytes()); } "random-stream" }
                        _ => { if bytes.len() > 2 { bytes[2] = bytes[2].wrapping_add(*rng.pick(&[1u8, 2, 255, 254, 9])); } "length-off" }
                    };
                    return json!({"op":"peer","what":{"chaos":format!("mutate:{}", what)},"bytes":bytes});
                }
            }
            gen_chaos(rng, d, pv)
        }
        3..=5 => {
            // a frame with a random head and a short random payload
            let ty = if rng.chance(1, 6) { rng.byte() } else { rng.below(10) as u8 };
            let rb = rng.byte();
            let flags = *rng.pick(&[0u8, 1, 4, 5, 8, 0x20, 0x2d, 0xff, rb]);
            let sid = *rng.pick(&sids) | if rng.chance(1, 10) { 0x8000_0000 } else { 0 };
            let n = *rng.pick(&[0usize, 1, 3, 4, 5, 6, 8, 9, 12, 17, 40]);
            let payload = rng.bytes(n);
            json!({"op":"peer","what":{"chaos":format!("random-frame:{}", ty)},"bytes":wire::frame(ty, flags, sid, &payload)})
        }
        6 => {
            // a huge declared length
            let len = *rng.pick(&[16385u32, 16384, 65536, 0xff_ffff]);
            let mut b = vec![(len >> 16) as u8, (len >> 8) as u8, len as u8, rng.below(10) as u8, rng.byte()];
            b.extend_from_slice(&rng.pick(&sids).to_be_bytes());
            let n = rng.range(0, 30) as usize;
            b.extend(rng.bytes(n));
            json!({"op":"peer","what":{"chaos":"declared-length"},"bytes":b})
        }
        7 => {
            // header-block games: HEADERS without END_HEADERS followed by something that is not its CONTINUATION
            let sid = *rng.pick(&sids);
            let n = rng.range(0, 12) as usize;
            let pl = rng.bytes(n);
            let mut b = wire::frame(wire::HEADERS, *rng.pick(&[0u8, 1, 0x20, 8]), sid, &pl);
            match rng.below(4) {
                0 => b.extend(wire::frame(wire::CONTINUATION, 0, sid + 2, &[0x82])),
                1 => b.extend(wire::ping(false, [1, 2, 3, 4, 5, 6, 7, 8])),
                2 => { let n = rng.range(0, 9) as usize; let pl = rng.bytes(n); b.extend(wire::frame(wire::CONTINUATION, wire::FLAG_END_HEADERS, sid, &pl)) }
                _ => {}
            }
            json!({"op":"peer","what":{"chaos":"header-block-games"},"bytes":b})
        }
        8 => {
            let n = rng.range(1, 64) as usize;
            json!({"op":"peer","what":{"chaos":"random-bytes"},"bytes":rng.bytes(n)})
        }
        _ => gen_chaos(rng, d, pv),
    }
}

/// One application-side op.
pub fn gen_app(rng: &mut Rng, d: &Driver, p: &Profile) -> Option<Value> {
    let client = d.cfg.role_client;
    let nh = d.handles.len();
    if p.idle && nh > 0 && rng.chance(1, 5) {
        if let Some(op) = gen_drop(rng, d, false) { return Some(op); }
    }
    let k = rng.below(100);
    if client && p.queue {
        let sr_n = if let Endpoint::Client { sr, .. } = &d.ep { sr.iter().filter(|x| x.is_some()).count() } else { 1 };
        let sr_len = if let Endpoint::Client { sr, .. } = &d.ep { sr.len() } else { 1 };
        let q = rng.below(100);
        if sr_n < 4 && q < 12 { return Some(json!({"op":"clone_sr"})); }
        if q < 40 {
            let sr = rng.below(sr_len as u64);
            let eos = rng.chance(1, 2);
            return Some(json!({"op":"send_request","sr":sr,"eos":eos,"method": if eos {"GET"} else {"POST"}}));
        }
        if q < 62 && nh > 0 {
            // act on one of the most recent requests: it is probably still queued behind the limit
            let h = nh - 1 - (rng.below(nh.min(3) as u64) as usize);
            let hd = &d.handles[h];
            return Some(match rng.below(4) {
                0 if hd.send.is_some() => json!({"op":"send_reset","h":h,"code": *rng.pick(&[8u32, 2, 0])}),
                1 => json!({"op":"drop_response","h":h}),
                2 => json!({"op":"drop_send","h":h}),
                _ => json!({"op":"poll_response","h":h}),
            });
        }
    }
    if client {
        if k < 14 || nh == 0 {
            let sr_n = if let Endpoint::Client { sr, .. } = &d.ep { sr.len() } else { 1 };
            let sr = rng.below(sr_n as u64);
            if rng.chance(1, 3) {
                return Some(json!({"op":"poll_ready","sr":sr}));
            }
            let eos = rng.chance(1, 3);
            let method = if eos { "GET" } else { *rng.pick(&["POST", "PUT"]) };
            return Some(json!({"op":"send_request","sr":sr,"eos":eos,"method":method}));
        }
        if k < 16 {
            return Some(if rng.chance(1, 2) { json!({"op":"clone_sr"}) } else {
                let sr_n = if let Endpoint::Client { sr, .. } = &d.ep { sr.len() } else { 1 };
                json!({"op":"drop_sr","sr":rng.below(sr_n as u64)})
            });
        }
    } else if nh == 0 {
        return if d.conn_woken() { Some(json!({"op":"poll_accept"})) } else { None };
    }
    if nh == 0 { return None; }
    if p.bufcap && rng.chance(3, 4) {
        let cands: Vec<usize> = (0..nh).filter(|&i| d.handles[i].send.is_some() && !d.handles[i].send_done).collect();
        if !cands.is_empty() {
            let h = *rng.pick(&cands);
            return Some(match rng.below(20) {
                0..=3 => json!({"op":"reserve","h":h,"n": *rng.pick(&[6u64, 10, 20, 60, 100, 300])}),
                4..=9 => json!({"op":"poll_capacity","h":h}),
                10..=14 => json!({"op":"send_data","h":h,"len": rng.range(1, 12),"eos": false}),
                15 => json!({"op":"send_data","h":h,"len": rng.range(1, 12),"eos": true}),
                16..=17 => json!({"op":"capacity","h":h}),
                _ => json!({"op":"reserve","h":h,"n": 0}),
            });
        }
    }
    if p.starve && rng.chance(3, 4) {
        let cands: Vec<usize> = (0..nh).filter(|&i| d.handles[i].send.is_some() && !d.handles[i].send_done).collect();
        if !cands.is_empty() {
            let h = *rng.pick(&cands);
            return Some(match rng.below(20) {
                0..=5 => json!({"op":"reserve","h":h,"n": *rng.pick(&[65485u64, 65535, 40000, 30000, 100000, 20000])}),
                6..=10 => json!({"op":"reserve","h":h,"n": *rng.pick(&[0u64, 10, 20, 30, 40, 100, 1000])}),
                11..=12 => json!({"op":"send_data","h":h,"len": rng.range(1, 40),"eos": rng.chance(1, 2)}),
                13 => json!({"op":"send_trailers","h":h}),
                14..=16 => json!({"op":"capacity","h":h}),
                _ => json!({"op":"poll_capacity","h":h}),
            });
        }
    }
    if p.backpressure && rng.chance(1, 3) {
        let cands: Vec<usize> = (0..nh).filter(|&i| d.handles[i].send.is_some() && !d.handles[i].send_done).collect();
        if !cands.is_empty() {
            let h = *rng.pick(&cands);
            return Some(json!({"op":"send_data","h":h,"len": rng.range(9000, 50000),"eos": rng.chance(2, 3)}));
        }
    }
    if p.recv_heavy && rng.chance(1, 12) {
        // drop the receive half while another handle keeps the stream alive (early response, body ignored) ...
        let cands: Vec<usize> = (0..nh).filter(|&i| { let x = &d.handles[i]; x.recv.is_some() && !x.recv_done && (x.send.is_some() || x.respond.is_some()) }).collect();
        if !cands.is_empty() { return Some(json!({"op":"drop_recv","h": *rng.pick(&cands)})); }
    }
    if p.recv_heavy && rng.chance(1, 14) {
        // ... and later the remaining handles of such a stream
        let cands: Vec<usize> = (0..nh).filter(|&i| { let x = &d.handles[i]; x.recv.is_none() && x.recv_fc.is_none() && (x.send.is_some() || x.respond.is_some()) }).collect();
        if !cands.is_empty() {
            let h = *rng.pick(&cands);
            return Some(if d.handles[h].respond.is_some() { json!({"op":"drop_respond","h":h}) } else { json!({"op":"drop_send","h":h}) });
        }
    }
    if p.recv_heavy && rng.chance(1, 2) {
        let cands: Vec<usize> = (0..nh).filter(|&i| d.handles[i].recv.is_some() && !d.handles[i].recv_done).collect();
        if !cands.is_empty() {
            let h = *rng.pick(&cands);
            let hd = &d.handles[h];
            if hd.unreleased > 0 && rng.chance(1, 2) {
                let n = if rng.chance(2, 3) { hd.unreleased } else { rng.range(1, hd.unreleased) };
                return Some(json!({"op":"release","h":h,"n":n}));
            }
            return Some(json!({"op":"poll_data","h":h}));
        }
        // no receive half yet: try to obtain one
        let c2: Vec<usize> = (0..nh).filter(|&i| d.handles[i].resp.is_some()).collect();
        if !c2.is_empty() { let h = *rng.pick(&c2); return Some(json!({"op":"poll_response","h":h})); }
    }
    // prefer recent handles
    let h = if rng.chance(2, 3) { nh - 1 - (rng.below(nh.min(4) as u64) as usize) } else { rng.below(nh as u64) as usize };
    let hd = &d.handles[h];
    let mut opts: Vec<Value> = vec![];
    let live_send = hd.send.is_some() && (!hd.send_done || rng.chance(1, 12));
    if live_send {
        let len = if rng.chance(1, 6) { 0 } else { rng.range(1, p.max_data) };
        opts.push(json!({"op":"send_data","h":h,"len":len,"eos":rng.chance(1,4)}));
        opts.push(json!({"op":"send_data","h":h,"len":rng.range(0, p.max_data),"eos":false}));
        opts.push(json!({"op":"reserve","h":h,"n": *rng.pick(&[0u64, 1, 10, 100, 1000, 5000, 100000])}));
        opts.push(json!({"op":"capacity","h":h}));
        opts.push(json!({"op":"poll_capacity","h":h}));
        opts.push(json!({"op":"poll_capacity","h":h}));
        if rng.chance(1, 3) { opts.push(json!({"op":"send_trailers","h":h})); }
        if rng.chance(1, 4) { opts.push(json!({"op":"send_reset","h":h,"code": *rng.pick(&[0u32, 2, 8, 11, 0xabcd_1234])})); }
        if rng.chance(1, 3) { opts.push(json!({"op":"poll_reset","h":h})); }
        if rng.chance(1, 5) { opts.push(json!({"op":"drop_send","h":h})); }
    }
    if hd.recv.is_some() && (!hd.recv_done || rng.chance(1, 10)) {
        opts.push(json!({"op":"poll_data","h":h}));
        opts.push(json!({"op":"poll_data","h":h}));
        if hd.unreleased > 0 {
            let n = if rng.chance(2, 3) { hd.unreleased } else { rng.range(1, hd.unreleased) };
            opts.push(json!({"op":"release","h":h,"n":n}));
            opts.push(json!({"op":"release","h":h,"n":n}));
        }
        if rng.chance(1, 3) { opts.push(json!({"op":"poll_trailers","h":h})); }
        if rng.chance(1, 4) { opts.push(json!({"op":"is_end_stream","h":h})); }
        if rng.chance(1, 8) { opts.push(json!({"op":"clone_fc","h":h})); }
        if rng.chance(1, 6) { opts.push(json!({"op":"drop_recv","h":h})); }
    } else if hd.recv_fc.is_some() && hd.unreleased > 0 {
        opts.push(json!({"op":"release","h":h,"n":hd.unreleased}));
    }
    if hd.resp.is_some() {
        opts.push(json!({"op":"poll_response","h":h}));
        opts.push(json!({"op":"poll_response","h":h}));
        if rng.chance(1, 4) { opts.push(json!({"op":"poll_informational","h":h})); }
        if hd.pushes.is_none() && rng.chance(1, 4) { opts.push(json!({"op":"push_promises","h":h})); }
        if rng.chance(1, 8) { opts.push(json!({"op":"drop_response","h":h})); }
    }
    if hd.pushes.is_some() { opts.push(json!({"op":"poll_push","h":h})); }
    if hd.pushed_resp.is_some() { opts.push(json!({"op":"poll_pushed_response","h":h})); }
    if hd.respond.is_some() {
        if hd.send.is_none() && (!hd.send_done || rng.chance(1, 10)) {
            let eos = rng.chance(1, 3);
            opts.push(json!({"op":"send_response","h":h,"eos":eos,"status": *rng.pick(&[200u32, 204, 404])}));
            opts.push(json!({"op":"send_response","h":h,"eos":eos,"status": 200}));
            if rng.chance(1, 4) { opts.push(json!({"op":"send_informational","h":h,"status":103})); }
        }
        if rng.chance(1, 6) { opts.push(json!({"op":"push_request","h":h,"uri":"https://example.com/pushed"})); }
        if rng.chance(1, 6) { opts.push(json!({"op":"respond_reset","h":h,"code": *rng.pick(&[0u32, 7, 8])})); }
        if rng.chance(1, 5) { opts.push(json!({"op":"respond_poll_reset","h":h})); }
        if rng.chance(1, 8) { opts.push(json!({"op":"drop_respond","h":h})); }
    }
    if hd.pushed_respond.is_some() {
        opts.push(json!({"op":"send_pushed_response","h":h,"eos":rng.chance(1,2),"status":200}));
    }
    // connection-level API, rarely
    if rng.chance(1, 25) { opts.push(json!({"op":"set_target_window","n": *rng.pick(&[0u32, 1000, 65535, 70000, 200000])})); }
    if rng.chance(1, 25) { opts.push(json!({"op":"set_initial_window","n": *rng.pick(&[0u32, 10, 1000, 65535, 100000])})); }
    if rng.chance(1, 30) { opts.push(json!({"op": if d.ping_pong.is_none() {"take_ping_pong"} else if rng.chance(1,2) {"send_ping"} else {"poll_pong"}})); }
    if !client && rng.chance(1, 40) && p.w_end > 0 { opts.push(json!({"op":"graceful_shutdown"})); }
    if !client && rng.chance(1, 80) && p.w_end > 0 { opts.push(json!({"op":"abrupt_shutdown","code": *rng.pick(&[0u32, 2, 11])})); }
    if opts.is_empty() { return None; }
    let i = rng.below(opts.len() as u64) as usize;
    Some(opts.swap_remove(i))
}

/// Hostile peer moves (profile "abuse").  One op may carry a whole burst of frames.
pub fn gen_abuse(rng: &mut Rng, d: &Driver, pv: &mut PeerView) -> Option<Value> {
    let client = d.cfg.role_client;
    let live: Vec<usize> = pv.streams.iter().enumerate().filter(|(_, s)| !s.reset && s.peer_open).map(|(i, _)| i).collect();
    let k = rng.below(100);
    let burst = *rng.pick(&[1u64, 2, 5, 12, 30, 120]);
    let mut bytes: Vec<u8> = vec![];
    let what: Value;
    let req = |rng: &mut Rng| req_block(rng, None);
    match k {
        0..=17 if !client => {
            // rapid open + RST_STREAM
            let first = pv.next_peer_sid;
            for _ in 0..burst {
                let sid = pv.next_peer_sid;
                pv.next_peer_sid += 2;
                bytes.extend(wire::headers(sid, &req(rng), rng.chance(1, 2), 0));
                bytes.extend(wire::rst_stream(sid, *rng.pick(&[8u32, 0, 2])));
                pv.streams.push(PStream { sid, peer_open: false, ep_open: false, reset: true, peer_head_sent: true, window: 0, sent_off: 0, initiated_by_peer: true, ..Default::default() });
            }
            what = json!({"abuse":"open-rst","n":burst,"first":first});
        }
        18..=29 if !client => {
            // HEADERS flood (beyond the concurrency limit when the burst is large)
            let first = pv.next_peer_sid;
            for _ in 0..burst {
                let sid = pv.next_peer_sid;
                pv.next_peer_sid += 2;
                let eos = rng.chance(1, 2);
                bytes.extend(wire::headers(sid, &req(rng), eos, 0));
                pv.streams.push(PStream { sid, peer_open: !eos, ep_open: true, reset: false, peer_head_sent: true, window: pv.ep_init_window, sent_off: 0, initiated_by_peer: true, ..Default::default() });
            }
            what = json!({"abuse":"headers-flood","n":burst,"first":first});
        }
        0..=14 if client => {
            // PUSH_PROMISE flood on a live request
            let cands: Vec<usize> = live.iter().copied().filter(|&i| !pv.streams[i].initiated_by_peer).collect();
            let i = *cands.first()?;
            let parent = pv.streams[i].sid;
            let first = pv.next_peer_sid;
            let block = wire::hpack_literal(&[(b":method".to_vec(), b"GET".to_vec()), (b":scheme".to_vec(), b"https".to_vec()),
                                              (b":path".to_vec(), b"/p".to_vec()), (b":authority".to_vec(), b"example.com".to_vec())]);
            for _ in 0..burst {
                let sid = pv.next_peer_sid;
                pv.next_peer_sid += 2;
                bytes.extend(wire::push_promise(parent, sid, &block));
                pv.streams.push(PStream { sid, peer_open: true, ep_open: false, reset: false, peer_head_sent: false, window: pv.ep_init_window, sent_off: 0, initiated_by_peer: true, ..Default::default() });
            }
            what = json!({"abuse":"push-flood","n":burst,"parent":parent,"first":first});
        }
        15..=29 if client => {
            // 1xx flood on a request whose response has not started
            let cands: Vec<usize> = live.iter().copied().filter(|&i| !pv.streams[i].initiated_by_peer && !pv.streams[i].peer_head_sent).collect();
            let i = *cands.first()?;
            let sid = pv.streams[i].sid;
            let block = wire::hpack_literal(&[(b":status".to_vec(), b"103".to_vec())]);
            for _ in 0..burst { bytes.extend(wire::headers(sid, &block, false, 0)); }
            what = json!({"abuse":"info-flood","n":burst,"sid":sid});
        }
        30..=44 => {
            // tiny or empty DATA frames on a stream that may carry DATA
            let cands: Vec<usize> = live.iter().copied().filter(|&i| pv.streams[i].peer_head_sent).collect();
            if cands.is_empty() { return None; }
            let i = *rng.pick(&cands);
            let empty = rng.chance(1, 2);
            let mut n = 0u64;
            for _ in 0..burst {
                let len: u64 = if empty { 0 } else { rng.range(1, 3) };
                if !empty && (pv.streams[i].window < len as i64 || pv.conn_window < len as i64) { break; }
                let s = &mut pv.streams[i];
                let body: Vec<u8> = (0..len).map(|j| driver::pattern(s.sid, 1, s.sent_off + j)).collect();
                s.sent_off += len;
                s.window -= len as i64;
                pv.conn_window -= len as i64;
                bytes.extend(wire::data(s.sid, &body, false, None));
                n += 1;
            }
            if n == 0 { return None; }
            what = json!({"abuse": if empty {"empty-data"} else {"tiny-data"},"n":n,"sid":pv.streams[i].sid});
        }
        45..=54 => {
            // CONTINUATION flood: HEADERS without END_HEADERS, then many small CONTINUATION frames, sometimes never finished
            let sid = if client { match live.iter().copied().find(|&i| !pv.streams[i].initiated_by_peer) { Some(i) => pv.streams[i].sid, None => return None } }
                      else { let s = pv.next_peer_sid; pv.next_peer_sid += 2; s };
            let block = if client { wire::hpack_literal(&[(b":status".to_vec(), b"200".to_vec())]) } else { req(rng) };
            bytes.extend(wire::frame(wire::HEADERS, 0, sid, &block));
            let fill = wire::hpack_literal(&[(b"x-a".to_vec(), vec![b'c'; rng.range(0, 20) as usize])]);
            for _ in 0..burst { bytes.extend(wire::frame(wire::CONTINUATION, 0, sid, if rng.chance(1, 2) { &[] } else { &fill })); }
            let finish = rng.chance(2, 3);
            if finish { bytes.extend(wire::frame(wire::CONTINUATION, wire::FLAG_END_HEADERS, sid, &[])); }
            if !client { pv.streams.push(PStream { sid, peer_open: true, ep_open: true, reset: false, peer_head_sent: true, window: pv.ep_init_window, sent_off: 0, initiated_by_peer: true, ..Default::default() }); }
            else if let Some(s) = pv.streams.iter_mut().find(|s| s.sid == sid) { s.peer_head_sent = true; }
            what = json!({"abuse":"continuation-flood","n":burst,"sid":sid,"finished":finish});
        }
        55..=62 => {
            // oversized header list
            let sid = if client { match live.iter().copied().find(|&i| !pv.streams[i].initiated_by_peer && !pv.streams[i].peer_head_sent) { Some(i) => pv.streams[i].sid, None => return None } }
                      else { let s = pv.next_peer_sid; pv.next_peer_sid += 2; s };
            let mut f: Vec<(Vec<u8>, Vec<u8>)> = if client { vec![(b":status".to_vec(), b"200".to_vec())] } else {
                vec![(b":method".to_vec(), b"GET".to_vec()), (b":scheme".to_vec(), b"https".to_vec()), (b":path".to_vec(), b"/x".to_vec()), (b":authority".to_vec(), b"example.com".to_vec())] };
            for j in 0..rng.range(5, 60) { f.push((format!("x-big-{}", j).into_bytes(), vec![b'z'; 100])); }
            bytes.extend(wire::headers(sid, &wire::hpack_literal(&f), false, 0));
            if !client { pv.streams.push(PStream { sid, peer_open: true, ep_open: true, reset: false, peer_head_sent: true, window: pv.ep_init_window, sent_off: 0, initiated_by_peer: true, ..Default::default() }); }
            else if let Some(s) = pv.streams.iter_mut().find(|s| s.sid == sid) { s.peer_head_sent = true; }
            what = json!({"abuse":"oversized-headers","sid":sid});
        }
        63..=74 => {
            // PING / SETTINGS flood (often while writes are blocked: see the io ops of this profile)
            for j in 0..burst {
                if rng.chance(2, 3) { bytes.extend(wire::ping(false, [j as u8, 1, 2, 3, 4, 5, 6, rng.byte()])); }
                else { bytes.extend(wire::settings(&[(4, *rng.pick(&[65535u32, 1000, 70000]))])); pv.settings_to_ack += 0; }
            }
            what = json!({"abuse":"ping-settings-flood","n":burst});
        }
        75..=86 => {
            // frames on streams the endpoint has already forgotten / that were reset
            let old: Vec<u32> = pv.streams.iter().filter(|s| s.reset || (!s.peer_open && !s.ep_open)).map(|s| s.sid).collect();
            if old.is_empty() { return None; }
            for _ in 0..burst.min(12) {
                let sid = *rng.pick(&old);
                if rng.chance(1, 2) { bytes.extend(wire::data(sid, b"x", false, None)); pv.conn_window -= 1; }
                else { bytes.extend(wire::window_update(sid, 1)); }
            }
            what = json!({"abuse":"frames-on-closed","n":burst.min(12)});
        }
        _ => {
            // RST_STREAM of live streams (accepted or not)
            if live.is_empty() { return None; }
            let mut n = 0;
            for &i in live.iter().take(burst as usize) {
                let s = &mut pv.streams[i];
                s.reset = true;
                s.peer_open = false;
                bytes.extend(wire::rst_stream(s.sid, 8));
                n += 1;
            }
            what = json!({"abuse":"rst-live","n":n});
        }
    }
    Some(json!({"op":"peer","what":what,"bytes":bytes}))
}

/// Every handle part that still exists, as the op that drops it (profile "idle").
pub fn drop_candidates(d: &Driver, with_sr: bool) -> Vec<Value> {
    let mut c: Vec<Value> = vec![];
    for (h, hd) in d.handles.iter().enumerate() {
        if hd.send.is_some() { c.push(json!({"op":"drop_send","h":h})); }
        if hd.recv.is_some() { c.push(json!({"op":"drop_recv","h":h})); }
        if hd.recv_fc.is_some() { c.push(json!({"op":"drop_fc","h":h})); }
        if hd.resp.is_some() { c.push(json!({"op":"drop_response","h":h})); }
        if hd.pushes.is_some() { c.push(json!({"op":"drop_pushes","h":h})); }
        if hd.pushed_resp.is_some() { c.push(json!({"op":"drop_pushed_response","h":h})); }
        if hd.respond.is_some() || hd.pushed_respond.is_some() { c.push(json!({"op":"drop_respond","h":h})); }
    }
    if with_sr {
        if let Endpoint::Client { sr, .. } = &d.ep {
            for (i, s) in sr.iter().enumerate() {
                if s.is_some() { c.push(json!({"op":"drop_sr","sr":i})); }
            }
        }
    }
    c
}

fn gen_drop(rng: &mut Rng, d: &Driver, with_sr: bool) -> Option<Value> {
    let mut c = drop_candidates(d, with_sr);
    if c.is_empty() { return None; }
    let i = rng.below(c.len() as u64) as usize;
    Some(c.swap_remove(i))
}

/// Tear-down of profile "idle": the peer ends or resets some of the streams it still has open, then every remaining handle
/// and request handle is dropped in random order, interleaved with polls of the connection; finally (short reset
/// durations) the reset-expiry time is allowed to pass.  The connection itself is kept (and polled by `settle`).
pub fn teardown(d: &mut Driver, rng: &mut Rng, pv: &mut PeerView) {
    d.exec(&json!({"op":"write_mode","mode":"all"}));
    d.exec(&json!({"op":"teardown","phase":"begin"}));
    pv.observe(d);
    for i in 0..pv.streams.len() {
        let (sid, open, head, reset) = { let s = &pv.streams[i]; (s.sid, s.peer_open, s.peer_head_sent, s.reset) };
        if reset || !open { continue; }
        match rng.below(4) {
            0 => {
                pv.streams[i].reset = true;
                pv.streams[i].peer_open = false;
                let code = *rng.pick(&[0u32, 8, 5]);
                d.exec(&peer_bytes(wire::rst_stream(sid, code), json!({"t":"RST_STREAM","sid":sid,"code":code})));
            }
            1 | 2 if head => {
                pv.streams[i].peer_open = false;
                d.exec(&peer_bytes(wire::data(sid, &[], true, None), json!({"t":"DATA","sid":sid,"len":0,"eos":true,"pad":null})));
            }
            _ => {}
        }
        if d.conn_woken() && rng.chance(1, 2) { d.exec(&json!({"op":"conn_poll"})); }
    }
    loop {
        let op = match gen_drop(rng, d, true) { Some(op) => op, None => break };
        d.exec(&op);
        if d.conn_woken() && d.conn_done.is_none() && rng.chance(1, 2) { d.exec(&json!({"op":"conn_poll"})); }
    }
    d.exec(&json!({"op":"teardown","phase":"dropped"}));
    if d.cfg.reset_stream_duration_ms.map(|v| v <= 1).unwrap_or(false) {
        for _ in 0..3 {
            if d.conn_done.is_some() { break; }
            d.exec(&json!({"op":"conn_poll"}));
        }
        d.exec(&json!({"op":"sleep","ms":3}));
        if d.conn_done.is_none() { d.exec(&json!({"op":"conn_poll"})); }
    }
    // what an executor would do: poll the connection as long as its waker fired ...
    d.exec(&json!({"op":"write_chunk","n":0}));
    d.exec(&json!({"op":"read_chunk","n":0}));
    for _ in 0..200 {
        let has_conn = match &d.ep { Endpoint::Client { conn, .. } => conn.is_some(), Endpoint::Server { conn } => conn.is_some() };
        if !(d.conn_woken() && d.conn_done.is_none() && has_conn) { break; }
        d.exec(&json!({"op":"conn_poll"}));
    }
    // ... then one poll nobody asked for (tells a lost wake-up from a connection that cannot finish)
    d.exec(&json!({"op":"teardown","phase":"kick"}));
    if d.conn_done.is_none() { d.exec(&json!({"op":"conn_poll"})); }
}

/// PING payloads h2 itself uses (frame/ping.rs): a peer that echoes them unsolicited probes the
/// shutdown / user-ping bookkeeping.
const PING_SHUTDOWN: [u8; 8] = [0x0b, 0x7b, 0xa2, 0xf0, 0x8b, 0x9b, 0xfe, 0x54];
const PING_USER: [u8; 8] = [0x3b, 0x7c, 0xdb, 0x7a, 0x0b, 0x87, 0x16, 0xb4];

fn control_settings(rng: &mut Rng) -> Value {
    let mut params: Vec<(u16, u32)> = vec![];
    if rng.chance(1, 2) { params.push((5, *rng.pick(&[16384u32, 16384, 16500, 20000, 65536, 16777215]))); }
    if rng.chance(1, 2) { params.push((4, *rng.pick(&[0u32, 1, 1000, 65535, 100000, 1000000, 0x7fff_ffff]))); }
    if rng.chance(1, 3) { params.push((1, *rng.pick(&[0u32, 64, 4096, 65536]))); }
    if rng.chance(1, 4) { params.push((3, *rng.pick(&[0u32, 1, 3, 100]))); }
    if rng.chance(1, 6) { params.push((2, rng.below(2) as u32)); }
    if rng.chance(1, 6) { params.push((6, *rng.pick(&[100u32, 16384, 1000000]))); }
    if rng.chance(1, 8) { params.push((8, rng.below(2) as u32)); }
    if rng.chance(1, 8) { params.push((0x99, 7)); }
    if rng.chance(1, 10) { params.push((5, 16384)); }
    peer_bytes(wire::settings(&params), json!({"t":"SETTINGS","params":params.iter().map(|(a,b)| json!([a,b])).collect::<Vec<_>>()}))
}

fn control_ping(rng: &mut Rng, ack: bool) -> Value {
    let pl: [u8; 8] = match rng.below(6) {
        0 => PING_SHUTDOWN,
        1 => PING_USER,
        2 => [0; 8],
        _ => [rng.byte(), rng.byte(), 3, 4, 5, 6, rng.byte(), rng.byte()],
    };
    peer_bytes(wire::ping(ack, pl), json!({"t":"PING","ack":ack,"payload":pl}))
}

/// Control-plane ops (profile "control"): SETTINGS / PING bursts, unsolicited acknowledgements, GOAWAY sequences with
/// decreasing and increasing ids, user pings, graceful / abrupt shutdown, local SETTINGS changes, tight write budgets.
pub fn gen_control(rng: &mut Rng, d: &Driver, pv: &mut PeerView) -> Option<Value> {
    let client = d.cfg.role_client;
    match rng.below(100) {
        0..=13 => {
            // 1-4 SETTINGS back to back
            let k = rng.range(1, 4);
            for _ in 1..k { let op = control_settings(rng); pv.queue.push_back(op); }
            Some(control_settings(rng))
        }
        14..=25 => {
            // 1-4 PINGs back to back, possibly interleaved with a SETTINGS
            let k = rng.range(1, 4);
            for _ in 1..k {
                let op = if rng.chance(1, 5) { control_settings(rng) } else { control_ping(rng, false) };
                pv.queue.push_back(op);
            }
            Some(control_ping(rng, false))
        }
        26..=29 => Some(control_ping(rng, true)),      // unsolicited PONG
        30 => Some(peer_bytes(wire::settings_ack(), json!({"t":"SETTINGS","ack":true}))),   // possibly stray
        31..=35 => {
            // GOAWAY: mostly non-increasing ids, sometimes an increase; any code; debug data of various lengths
            let prev = pv.goaway_lasts.last().copied();
            let cands: [u32; 8] = [0, 1, 2, 3, 5, 9, 101, 0x7fff_ffff];
            let mut last = *rng.pick(&cands);
            if let Some(pr) = prev {
                if last > pr && rng.chance(3, 4) { last = if rng.chance(1, 2) { pr } else { pr.saturating_sub(2) }; }
            }
            let code = *rng.pick(&[0u32, 0, 0, 0, 0, 1, 2, 11, 0xdead_beef]);
            let n = *rng.pick(&[0usize, 0, 3, 8, 40]);
            let dbg: Vec<u8> = (0..n).map(|i| b'a' + (i % 26) as u8).collect();
            pv.goaway_lasts.push(last);
            pv.sent_goaway = true;
            let op = peer_bytes(wire::goaway(last, code, &dbg), json!({"t":"GOAWAY","last":last,"code":code,"debug":dbg}));
            if client && rng.chance(1, 3) {
                // the two-step shutdown of a server seen from the client: a GOAWAY covering everything in flight, then one
                // with a lower id; each followed by a PING (whose PONG proves the GOAWAY was processed) and polls of
                // every response future
                let hs: Vec<usize> = (0..d.handles.len()).filter(|&i| d.handles[i].resp.is_some()).collect();
                let top = hs.iter().map(|&i| d.handles[i].sid).max().unwrap_or(1);
                let first = *rng.pick(&[0x7fff_ffffu32, top, top]);
                let second = if top >= 3 { top - 2 * (1 + rng.below(((top - 1) / 2) as u64) as u32) } else { 0 };
                pv.goaway_lasts.pop();
                pv.goaway_lasts.push(first);
                pv.goaway_lasts.push(second);
                let p1 = [rng.byte(), 9, 9, 9, 9, 9, 9, rng.byte()];
                let p2 = [rng.byte(), 8, 8, 8, 8, 8, 8, rng.byte()];
                pv.queue.push_back(json!({"op":"write_mode","mode":"all"}));
                pv.queue.push_back(peer_bytes(wire::ping(false, p1), json!({"t":"PING","ack":false,"payload":p1})));
                pv.queue.push_back(json!({"op":"conn_poll"}));
                pv.queue.push_back(peer_bytes(wire::goaway(second, code, b"second"), json!({"t":"GOAWAY","last":second,"code":code,"debug":[115,101,99,111,110,100]})));
                pv.queue.push_back(peer_bytes(wire::ping(false, p2), json!({"t":"PING","ack":false,"payload":p2})));
                pv.queue.push_back(json!({"op":"conn_poll"}));
                pv.queue.push_back(json!({"op":"conn_poll"}));
                for &h in &hs { pv.queue.push_back(json!({"op":"poll_response","h":h})); }
                return Some(peer_bytes(wire::goaway(first, code, &dbg), json!({"t":"GOAWAY","last":first,"code":code,"debug":dbg})));
            }
            if rng.chance(1, 4) {
                // a second one right behind
                let last2 = if rng.chance(1, 4) { last.saturating_add(2) } else { last.saturating_sub(*rng.pick(&[0u32, 2, 4])) };
                pv.goaway_lasts.push(last2);
                pv.queue.push_back(peer_bytes(wire::goaway(last2, code, b"x"), json!({"t":"GOAWAY","last":last2,"code":code,"debug":[120]})));
            }
            Some(op)
        }
        36..=55 => {
            // user pings
            if d.ping_pong.is_none() { return Some(json!({"op":"take_ping_pong"})); }
            Some(match rng.below(10) {
                0..=4 => json!({"op":"send_ping"}),
                5..=8 => json!({"op":"poll_pong"}),
                _ => json!({"op":"take_ping_pong"}),
            })
        }
        56..=63 => Some(json!({"op":"set_initial_window","n": *rng.pick(&[0u32, 1, 1000, 65535, 100000, 0x7fff_ffff])})),
        64..=72 => {
            if client { return Some(json!({"op":"conn_poll"})); }
            Some(if rng.chance(3, 4) { json!({"op":"graceful_shutdown"}) } else { json!({"op":"abrupt_shutdown","code": *rng.pick(&[0u32, 0, 2, 8, 11])}) })
        }
        73..=86 => Some(json!({"op":"write_mode","mode":"budget","n": *rng.pick(&[0u64, 1, 8, 9, 10, 16, 17, 18, 25, 26, 34, 50, 100])})),
        87..=90 => Some(json!({"op":"write_mode","mode":"all"})),
        91..=95 => {
            // a large body so that MAX_FRAME_SIZE matters
            let cands: Vec<usize> = (0..d.handles.len()).filter(|&i| d.handles[i].send.is_some() && !d.handles[i].send_done).collect();
            if cands.is_empty() { return None; }
            let h = *rng.pick(&cands);
            Some(json!({"op":"send_data","h":h,"len": *rng.pick(&[16384u64, 16385, 20000, 40000]),"eos":false}))
        }
        _ => {
            if !client {
                // a new peer stream with a jump in the id (also after the endpoint's GOAWAY)
                let sid = pv.next_peer_sid + 2 * rng.below(3) as u32;
                pv.next_peer_sid = sid + 2;
                let block = req_block(rng, None);
                pv.streams.push(PStream { sid, peer_open: false, ep_open: true, reset: false, peer_head_sent: true, window: pv.ep_init_window, sent_off: 0, initiated_by_peer: true, lag: 0 });
                return Some(peer_bytes(wire::headers(sid, &block, true, 0), json!({"t":"HEADERS","sid":sid,"eos":true,"cl":null})));
            }
            None
        }
    }
}

pub fn gen_io_bp(rng: &mut Rng) -> Value {
    match rng.below(10) {
        0..=5 => json!({"op":"write_mode","mode":"budget","n": *rng.pick(&[0u64, 30, 100, 1000, 5000, 20000])}),
        6..=8 => json!({"op":"write_mode","mode":"all"}),
        _ => json!({"op":"write_chunk","n": *rng.pick(&[0u64, 1, 100, 4000])}),
    }
}

pub fn gen_io(rng: &mut Rng) -> Value {
    match rng.below(10) {
        0..=2 => json!({"op":"write_mode","mode":"budget","n": *rng.pick(&[0u64, 1, 5, 9, 10, 50, 500])}),
        3..=5 => json!({"op":"write_mode","mode":"all"}),
        6 => json!({"op":"write_chunk","n": *rng.pick(&[0u64, 1, 3, 17, 1000])}),
        7..=8 => json!({"op":"read_chunk","n": *rng.pick(&[0u64, 1, 2, 9, 100])}),
        _ => json!({"op":"sleep","ms":2}),
    }
}

/// C20: a connection poll with 1..3 handle operations run from the transport callback.  Half of the time the first one hits
/// the stream whose DATA frame is with the codec (reset it, drop every handle of it, or queue more data behind the tail).
pub fn gen_inject(rng: &mut Rng, d: &Driver, p: &Profile) -> Value {
    let mut ops: Vec<Value> = Vec::new();
    let owner: Option<usize> = d.snapshot().and_then(|s| {
        let sid = s.conn.iter().find(|(k, _)| *k == "in_flight_stream_id").map(|(_, v)| *v).unwrap_or(-1);
        if sid < 0 { None } else { d.handles.iter().position(|h| h.sid as i64 == sid) }
    });
    if let Some(h) = owner {
        if rng.chance(2, 3) {
            match rng.below(6) {
                0 | 1 => ops.push(json!({"op":"send_reset","h":h,"code":8})),
                2 => {
                    ops.push(json!({"op":"drop_send","h":h}));
                    ops.push(json!({"op":"drop_response","h":h}));
                    ops.push(json!({"op":"drop_recv","h":h}));
                    ops.push(json!({"op":"drop_respond","h":h}));
                }
                3 => ops.push(json!({"op":"send_data","h":h,"len": rng.range(1, 5000),"eos": rng.chance(1, 3)})),
                4 => ops.push(json!({"op":"reserve","h":h,"n": *rng.pick(&[0u64, 1, 5000, 100000])})),
                _ => ops.push(json!({"op":"poll_capacity","h":h})),
            }
        }
    }
    let n = rng.range(1, 3);
    for _ in 0..n {
        if let Some(o) = gen_app(rng, d, p) {
            ops.push(o);
        }
    }
    json!({"op":"conn_poll_inject","at": if rng.chance(2, 3) {"write"} else {"flush"},"nth": rng.range(1, 3),"ops": ops})
}

/// Generate and run `steps` ops; returns nothing (the trace is in `d.trace`).
pub fn run_random(d: &mut Driver, rng: &mut Rng, p: &Profile, steps: usize) {
    let mut pv = PeerView::new(&d.cfg);
    pv.race = p.race;
    pv.defer_incs = p.legal_peer;
    let mut ended = false;
    let mut done = 0usize;
    let mut tries = 0usize;
    while done < steps && tries < steps * 20 {
        tries += 1;
        pv.observe(d);
        if p.inject && rng.chance(1, 4) {
            let op = gen_inject(rng, d, p);
            log_op(&op);
            d.exec(&op);
            done += 1;
            continue;
        }
        if p.queue && d.cfg.role_client {
            if let Some(op) = pv.queue.pop_front() {
                log_op(&op);
                d.exec(&op);
                done += 1;
                continue;
            }
            if !ended && rng.chance(1, 25) {
                // C07: a task waits in poll_ready behind a queued request that the application then cancels, and the
                // connection ends (cleanly, abruptly, or by dropping the connection object)
                let sr_n = if let Endpoint::Client { sr, .. } = &d.ep { sr.len() } else { 1 };
                let sr = rng.below(sr_n as u64);
                let h0 = d.handles.len();
                let mut m = vec![json!({"op":"send_request","sr":sr,"eos":false,"method":"POST"}),
                                 json!({"op":"conn_poll"}),
                                 json!({"op":"send_request","sr":sr,"eos":false,"method":"POST"})];
                if rng.chance(2, 3) { m.push(json!({"op":"send_reset","h":h0 + 1,"code":8})); }
                m.push(json!({"op":"poll_ready","sr":sr}));
                if rng.chance(1, 2) { m.push(json!({"op":"conn_poll"})); }
                m.push(match rng.below(3) { 0 => json!({"op":"eof"}), 1 => json!({"op":"drop_conn"}), _ => json!({"op":"read_fail"}) });
                m.push(json!({"op":"conn_poll"}));
                ended = true;
                pv.queue.extend(m);
                continue;
            }
        }
        if p.w_chaos > 0 && !p.fuzz && d.cfg.role_client {
            if let Some(op) = pv.queue.pop_front() {
                log_op(&op);
                d.exec(&op);
                done += 1;
                continue;
            }
            if done == 1 && d.cfg.enable_push != Some(false) && !pv.goaway_seen && rng.chance(1, 6) {
                // C09, state-dependent violation (RFC 9113 6.6): a request whose body is still open gets its complete response
                // (END_STREAM on the response head), then a PUSH_PROMISE arrives on that stream: neither open nor
                // half-closed (local) from the client's point of view -> connection error PROTOCOL_ERROR
                let sid = d.handles.iter().map(|h| h.sid).filter(|s| s % 2 == 1).max().map(|s| s + 2).unwrap_or(1);
                let promised = pv.next_peer_sid;
                pv.next_peer_sid += 2;
                let head = resp_block(rng, 200);
                let block = wire::hpack_literal(&[
                    (b":method".to_vec(), b"GET".to_vec()),
                    (b":scheme".to_vec(), b"https".to_vec()),
                    (b":path".to_vec(), b"/pushed".to_vec()),
                    (b":authority".to_vec(), b"example.com".to_vec()),
                ]);
                pv.queue.extend(vec![
                    json!({"op":"write_mode","mode":"all"}),
                    json!({"op":"send_request","sr":0,"eos":false,"method":"POST"}),
                    json!({"op":"conn_poll"}),
                    peer_bytes(wire::headers(sid, &head, true, 0), json!({"t":"HEADERS","sid":sid,"eos":true})),
                    json!({"op":"conn_poll"}),
                    json!({"op":"peer","what":{"chaos":"push-on-half-closed-remote","sid":sid,"promised":promised},"bytes":wire::push_promise(sid, promised, &block)}),
                    json!({"op":"conn_poll"}),
                    json!({"op":"conn_poll"}),
                ]);
                continue;
            }
        }
        if p.idspace && d.cfg.role_client {
            if let Some(op) = pv.queue.pop_front() {
                log_op(&op);
                d.exec(&op);
                done += 1;
                continue;
            }
            if rng.chance(1, 8) {
                // a late frame for a stream that has finished in both directions (possibly forgotten), then another request
                let cand = pv.streams.iter().find(|s| !s.initiated_by_peer && !s.peer_open && !s.ep_open && s.peer_head_sent).map(|s| s.sid);
                if let Some(sid) = cand {
                    let late = if rng.chance(1, 2) {
                        peer_bytes(wire::data(sid, b"late", false, None), json!({"t":"DATA","sid":sid,"len":4,"eos":false,"pad":null,"late":true}))
                    } else {
                        let block = wire::hpack_literal(&[(b"x-late".to_vec(), b"t".to_vec())]);
                        peer_bytes(wire::headers(sid, &block, true, 0), json!({"t":"HEADERS","sid":sid,"eos":true,"trailers":true,"late":true}))
                    };
                    pv.queue.extend(vec![
                        late,
                        json!({"op":"conn_poll"}),
                        json!({"op":"send_request","sr":0,"eos":true,"method":"GET"}),
                        json!({"op":"conn_poll"}),
                    ]);
                    continue;
                }
            }
        }
        if p.pushlimit && d.cfg.role_client {
            if let Some(op) = pv.queue.pop_front() {
                log_op(&op);
                d.exec(&op);
                done += 1;
                continue;
            }
            if d.cfg.enable_push != Some(false) && !pv.goaway_seen && !pv.sent_goaway && rng.chance(1, 9) {
                // a burst of promises on one live request, then the pushed responses start (and stay open)
                let parent = pv.streams.iter().find(|s| !s.initiated_by_peer && s.peer_open && !s.reset && s.ep_open || (!s.initiated_by_peer && s.peer_open && !s.reset)).map(|s| s.sid);
                if let Some(parent) = parent {
                    let lim = d.cfg.max_concurrent_streams.unwrap_or(2) as u64;
                    let k = lim + rng.range(0, 2);
                    let ph = (0..d.handles.len()).find(|&h| d.handles[h].sid == parent);
                    let mut m: Vec<Value> = Vec::new();
                    let mut sids = Vec::new();
                    for _ in 0..k.max(1) {
                        let sid = pv.next_peer_sid;
                        pv.next_peer_sid += 2;
                        let block = wire::hpack_literal(&[
                            (b":method".to_vec(), b"GET".to_vec()),
                            (b":scheme".to_vec(), b"https".to_vec()),
                            (b":path".to_vec(), b"/pushed".to_vec()),
                            (b":authority".to_vec(), b"example.com".to_vec()),
                        ]);
                        pv.streams.push(PStream { sid, peer_open: true, ep_open: false, reset: false, peer_head_sent: true, window: pv.ep_init_window, sent_off: 0, initiated_by_peer: true, lag: 0 });
                        m.push(peer_bytes(wire::push_promise(parent, sid, &block), json!({"t":"PUSH_PROMISE","sid":parent,"promised":sid})));
                        sids.push(sid);
                    }
                    if rng.chance(1, 2) { m.push(json!({"op":"conn_poll"})); }
                    if let Some(h) = ph {
                        if d.handles[h].pushes.is_none() && d.handles[h].resp.is_some() { m.push(json!({"op":"push_promises","h":h})); }
                    }
                    for sid in sids {
                        let st = *rng.pick(&[200u32, 204, 404]);
                        let block = resp_block(rng, st);
                        m.push(peer_bytes(wire::headers(sid, &block, false, 0), json!({"t":"HEADERS","sid":sid,"eos":false})));
                        if rng.chance(1, 2) { m.push(json!({"op":"conn_poll"})); }
                        if let Some(h) = ph { if !p.idle && rng.chance(1, 2) { m.push(json!({"op":"poll_push","h":h})); } }
                    }
                    m.push(json!({"op":"conn_poll"}));
                    // (pushidle: the promises stay unpolled, so that handle drops find several of them queued on the request)
                    if let Some(h) = ph { if !p.idle { m.push(json!({"op":"poll_push","h":h})); m.push(json!({"op":"poll_push","h":h})); } }
                    pv.queue.extend(m);
                    continue;
                }
            }
        }
        if p.recv_heavy && d.cfg.role_client {
            if let Some(op) = pv.queue.pop_front() {
                log_op(&op);
                d.exec(&op);
                done += 1;
                continue;
            }
            if rng.chance(1, 18) {
                // C19: a stream that is queued for a WINDOW_UPDATE closes and loses its last handle before the connection
                // task runs again: the pop of that queue is then the only thing that can release the record
                let nh = d.handles.len();
                let cands: Vec<(usize, usize)> = (0..nh).filter_map(|h| {
                    let x = &d.handles[h];
                    if x.recv.is_none() || x.recv_done || !x.send_done || x.unreleased > 0 { return None; }
                    pv.streams.iter().position(|s| s.sid == x.sid && s.peer_open && s.peer_head_sent && !s.reset && s.window >= 2).map(|i| (h, i))
                }).collect();
                if !cands.is_empty() {
                    let (h, i) = *rng.pick(&cands);
                    let total = (pv.streams[i].window.min(pv.conn_window).min(40000)).max(0) as u64;
                    if total >= 2 {
                        let sid = pv.streams[i].sid;
                        let mut left = total;
                        let mut m: Vec<Value> = vec![];
                        let mut frames = 0;
                        while left > 0 {
                            let n = left.min(16384);
                            left -= n;
                            let eos = left == 0;
                            let off = pv.streams[i].sent_off;
                            let body: Vec<u8> = (0..n).map(|k| driver::pattern(sid, 1, off + k)).collect();
                            pv.streams[i].sent_off += n;
                            m.push(peer_bytes(wire::data(sid, &body, eos, None), json!({"t":"DATA","sid":sid,"len":n,"eos":eos,"pad":null})));
                            frames += 1;
                        }
                        pv.streams[i].window -= total as i64;
                        pv.conn_window -= total as i64;
                        pv.streams[i].peer_open = false;
                        m.push(json!({"op":"conn_poll"}));
                        for _ in 0..frames { m.push(json!({"op":"poll_data","h":h})); }
                        m.push(json!({"op":"release","h":h,"n":total}));
                        if rng.chance(1, 2) { m.push(json!({"op":"clone_fc","h":h})); }
                        m.push(json!({"op":"drop_response","h":h}));
                        m.push(json!({"op":"drop_send","h":h}));
                        m.push(json!({"op":"drop_recv","h":h}));
                        m.push(json!({"op":"drop_fc","h":h}));
                        m.push(json!({"op":"conn_poll"}));
                        pv.queue.extend(m);
                        continue;
                    }
                }
            }
        }
        if p.late_reset {
            if let Some(op) = pv.queue.pop_front() {
                log_op(&op);
                d.exec(&op);
                done += 1;
                continue;
            }
            if rng.chance(1, 7) {
                let nh = d.handles.len();
                let cands: Vec<usize> = (0..nh).filter(|&i| d.handles[i].send.is_some() && !d.handles[i].send_done).collect();
                let resp: Vec<usize> = (0..nh).filter(|&i| d.handles[i].respond.is_some() && d.handles[i].send.is_none() && !d.handles[i].send_done).collect();
                if !cands.is_empty() {
                    // prefer streams whose peer side has already ended: END_STREAM of our own then CLOSES the stream while
                    // frames are still queued / in the codec
                    let ended: Vec<usize> = cands.iter().copied().filter(|&i| d.handles[i].recv_done || pv.streams.iter().any(|s| s.sid == d.handles[i].sid && !s.peer_open)).collect();
                    let h = if !ended.is_empty() && rng.chance(3, 4) { *rng.pick(&ended) } else { *rng.pick(&cands) };
                    let code = *rng.pick(&[8u32, 0, 2, 11, 0xdead_beef]);
                    let big = rng.range(70000, 100000);
                    let m: Vec<Value> = match rng.below(6) {
                        0 => vec![json!({"op":"send_data","h":h,"len":big,"eos":true}), json!({"op":"send_reset","h":h,"code":code})],
                        1 => vec![json!({"op":"send_data","h":h,"len":big,"eos":true}), json!({"op":"conn_poll"}), json!({"op":"send_reset","h":h,"code":code})],
                        2 => vec![json!({"op":"write_mode","mode":"budget","n":rng.range(3, 40)}), json!({"op":"send_data","h":h,"len": if rng.chance(1, 2) { rng.range(100, 3000) } else { rng.range(17000, 60000) },"eos":true}),
                                  json!({"op":"conn_poll"}), json!({"op":"send_reset","h":h,"code":code}), json!({"op":"write_mode","mode":"all"})],
                        3 => vec![json!({"op":"send_data","h":h,"len":rng.range(0, 50),"eos":true}), json!({"op":"conn_poll"}), json!({"op":"send_reset","h":h,"code":code})],
                        4 => vec![json!({"op":"send_trailers","h":h}), json!({"op":"send_reset","h":h,"code":code})],
                        _ => vec![json!({"op":"send_data","h":h,"len":big,"eos":true}), json!({"op":"drop_send","h":h}), json!({"op":"drop_response","h":h}),
                                  json!({"op":"drop_recv","h":h}), json!({"op":"drop_respond","h":h})],
                    };
                    pv.queue.extend(m);
                    continue;
                } else if !resp.is_empty() {
                    let h = *rng.pick(&resp);
                    pv.queue.push_back(json!({"op":"send_response","h":h,"eos":false,"status":200}));
                    continue;
                }
            }
        }
        if p.control {
            if let Some(op) = pv.queue.pop_front() {
                log_op(&op);
                d.exec(&op);
                done += 1;
                continue;
            }
            if rng.chance(1, 4) {
                if let Some(op) = gen_control(rng, d, &mut pv) {
                    log_op(&op);
                    d.exec(&op);
                    done += 1;
                }
                continue;
            }
        }
        if p.abuse {
            if rng.chance(1, 2) {
                if let Some(op) = gen_abuse(rng, d, &mut pv) {
                    log_op(&op);
                    d.exec(&op);
                    done += 1;
                }
                continue;
            }
            if rng.chance(1, 12) {
                // write back-pressure: blocked for a while, then released
                let op = if rng.chance(2, 3) { json!({"op":"write_mode","mode":"budget","n":0}) } else { json!({"op":"write_mode","mode":"all"}) };
                d.exec(&op);
                done += 1;
                continue;
            }
        }
        let total = p.w_conn_poll + p.w_peer + p.w_app + p.w_io + p.w_chaos + p.w_end;
        let mut r = rng.below(total);
        let poll_op = |rng: &mut Rng| -> Value {
            if !d.cfg.role_client && rng.chance(1, 2) { json!({"op":"poll_accept"}) } else { json!({"op":"conn_poll"}) }
        };
        let op: Option<Value> = if d.conn_woken() && rng.chance(7, 10) {
            Some(poll_op(rng))
        } else if r < p.w_conn_poll {
            if d.conn_woken() || rng.chance(1, 10) { Some(poll_op(rng)) } else { None }
        } else {
            r -= p.w_conn_poll;
            if r < p.w_peer {
                gen_peer(rng, d, &mut pv, p)
            } else {
                r -= p.w_peer;
                if r < p.w_app {
                    gen_app(rng, d, p)
                } else {
                    r -= p.w_app;
                    if r < p.w_io {
                        Some(if p.backpressure { gen_io_bp(rng) } else { gen_io(rng) })
                    } else {
                        r -= p.w_io;
                        if r < p.w_chaos {
                            Some(if p.fuzz { gen_fuzz(rng, d, &mut pv, p) } else { gen_chaos(rng, d, &mut pv) })
                        } else if !ended && rng.chance(1, 4) {
                            ended = true;
                            Some(match rng.below(4) {
                                0 => json!({"op":"eof"}),
                                1 => if p.w_end >= 6 && rng.chance(1, 2) { json!({"op":"read_fail","kind":"unexpected_eof"}) } else { json!({"op":"read_fail"}) },
                                2 => json!({"op":"write_mode","mode":"fail"}),
                                _ => json!({"op":"drop_conn"}),
                            })
                        } else {
                            None
                        }
                    }
                }
            }
        };
        if let Some(op) = op {
            log_op(&op);
            d.exec(&op);
            done += 1;
        }
    }
    if p.idle {
        teardown(d, rng, &mut pv);
    }
}

/// Debug aid: with VERIF_OPS_LOG=<file> every generated op is appended to the file before it is executed, so that a run
/// that aborts the process (panic while panicking) can still be replayed.
fn log_op(op: &Value) {
    if let Ok(p) = std::env::var("VERIF_OPS_LOG") {
        use std::io::Write;
        if let Ok(mut f) = std::fs::OpenOptions::new().create(true).append(true).open(p) {
            let _ = writeln!(f, "{}", op);
        }
    }
}

/// Settle: unblock the transport and keep polling every woken task until nothing is woken (or a
/// step budget is hit).  Outstanding polls are re-issued only when their waker fired.
pub fn settle(d: &mut Driver, max_steps: usize) -> bool {
    d.exec(&json!({"op":"write_mode","mode":"all"}));
    d.exec(&json!({"op":"write_chunk","n":0}));
    d.exec(&json!({"op":"read_chunk","n":0}));
    for _ in 0..max_steps {
        if d.conn_woken() && d.conn_done.is_none() {
            let has_conn = match &d.ep { Endpoint::Client { conn, .. } => conn.is_some(), Endpoint::Server { conn } => conn.is_some() };
            if has_conn {
                d.exec(&json!({"op":"conn_poll"}));
                continue;
            }
        }
        return true;
    }
    false
}
