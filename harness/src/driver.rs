//! Deterministic single-threaded driver of one real h2 endpoint (client or server) against a
//! scripted raw peer.  An execution is a list of *ops* (JSON objects); each op is one harness-level
//! step: an application call on a handle, one poll of the connection, bytes from the peer, a
//! transport-script change, ...  After each step the driver records: the op's result, the hook
//! events emitted by the library (`h2::verif::drain`), the frames the endpoint wrote (parsed by
//! the independent parser of `wire`), the wakers that fired, and optionally the statistics
//! snapshot.  Every run is replayable from its op list.

use crate::exec::{Task, WakeLog};
use crate::pipe::{Pipe, WriteMode};
use crate::wire::{self, RawFrame};
use bytes::Bytes;
use h2::{client, server, RecvStream, SendStream};
use serde_json::{json, Value};
use std::future::Future;
use std::pin::Pin;
use std::sync::{Arc, Mutex};
use std::task::{Context, Poll};
use std::time::Duration;

pub const T_CONN: u32 = 1;
pub const T_READY: u32 = 2;
pub const T_PONG: u32 = 3;
// per stream handle h: 100 + 8*h + kind
pub const K_RESP: u32 = 0;
pub const K_DATA: u32 = 1;
pub const K_TRAILERS: u32 = 2;
pub const K_CAP: u32 = 3;
pub const K_RESET: u32 = 4;
pub const K_PUSH: u32 = 5;
pub const K_INFO: u32 = 6;

#[derive(Debug, Clone)]
pub struct Config {
    pub role_client: bool,
    pub initial_window_size: Option<u32>,
    pub initial_connection_window_size: Option<u32>,
    pub max_frame_size: Option<u32>,
    pub max_concurrent_streams: Option<u32>,
    pub initial_max_send_streams: Option<usize>,
    pub max_concurrent_reset_streams: Option<usize>,
    pub reset_stream_duration_ms: Option<u64>,
    pub max_pending_accept_reset_streams: Option<usize>,
    pub max_local_error_reset_streams: Option<Option<usize>>,
    pub max_send_buffer_size: Option<usize>,
    pub max_header_list_size: Option<u32>,
    pub enable_push: Option<bool>,
    pub initial_stream_id: Option<u32>,
    pub header_table_size: Option<u32>,
    /// SETTINGS the peer sends right after the preface: (id, value)
    pub peer_settings: Vec<(u16, u32)>,
}

impl Config {
    pub fn default_client() -> Config {
        Config {
            role_client: true,
            initial_window_size: None,
            initial_connection_window_size: None,
            max_frame_size: None,
            max_concurrent_streams: None,
            initial_max_send_streams: None,
            max_concurrent_reset_streams: None,
            reset_stream_duration_ms: None,
            max_pending_accept_reset_streams: None,
            max_local_error_reset_streams: None,
            max_send_buffer_size: None,
            max_header_list_size: None,
            enable_push: None,
            initial_stream_id: None,
            header_table_size: None,
            peer_settings: vec![],
        }
    }
    pub fn to_json(&self) -> Value {
        json!({
            "role": if self.role_client {"client"} else {"server"},
            "initial_window_size": self.initial_window_size,
            "initial_connection_window_size": self.initial_connection_window_size,
            "max_frame_size": self.max_frame_size,
            "max_concurrent_streams": self.max_concurrent_streams,
            "initial_max_send_streams": self.initial_max_send_streams,
            "max_concurrent_reset_streams": self.max_concurrent_reset_streams,
            "reset_stream_duration_ms": self.reset_stream_duration_ms,
            "max_pending_accept_reset_streams": self.max_pending_accept_reset_streams,
            "max_local_error_reset_streams": self.max_local_error_reset_streams.map(|o| o.map(|v| v as i64).unwrap_or(-1)),
            "max_send_buffer_size": self.max_send_buffer_size,
            "max_header_list_size": self.max_header_list_size,
            "enable_push": self.enable_push,
            "initial_stream_id": self.initial_stream_id,
            "header_table_size": self.header_table_size,
            "peer_settings": self.peer_settings.iter().map(|(a,b)| json!([a,b])).collect::<Vec<_>>(),
        })
    }
    pub fn from_json(v: &Value) -> Config {
        let mut c = Config::default_client();
        c.role_client = v["role"].as_str() != Some("server");
        let u = |k: &str| v[k].as_u64();
        c.initial_window_size = u("initial_window_size").map(|x| x as u32);
        c.initial_connection_window_size = u("initial_connection_window_size").map(|x| x as u32);
        c.max_frame_size = u("max_frame_size").map(|x| x as u32);
        c.max_concurrent_streams = u("max_concurrent_streams").map(|x| x as u32);
        c.initial_max_send_streams = u("initial_max_send_streams").map(|x| x as usize);
        c.max_concurrent_reset_streams = u("max_concurrent_reset_streams").map(|x| x as usize);
        c.reset_stream_duration_ms = u("reset_stream_duration_ms");
        c.max_pending_accept_reset_streams = u("max_pending_accept_reset_streams").map(|x| x as usize);
        c.max_local_error_reset_streams = v["max_local_error_reset_streams"].as_i64().map(|x| if x < 0 { None } else { Some(x as usize) });
        c.max_send_buffer_size = u("max_send_buffer_size").map(|x| x as usize);
        c.max_header_list_size = u("max_header_list_size").map(|x| x as u32);
        c.enable_push = v["enable_push"].as_bool();
        c.initial_stream_id = u("initial_stream_id").map(|x| x as u32);
        c.header_table_size = u("header_table_size").map(|x| x as u32);
        if let Some(a) = v["peer_settings"].as_array() {
            c.peer_settings = a.iter().map(|p| (p[0].as_u64().unwrap_or(0) as u16, p[1].as_u64().unwrap_or(0) as u32)).collect();
        }
        c
    }
}

pub enum Endpoint {
    Client {
        conn: Option<client::Connection<Pipe, Bytes>>,
        sr: Vec<Option<client::SendRequest<Bytes>>>,
    },
    Server {
        conn: Option<server::Connection<Pipe, Bytes>>,
    },
}

#[derive(Default)]
pub struct Handle {
    pub sid: u32,
    pub send: Option<SendStream<Bytes>>,
    pub recv: Option<RecvStream>,
    pub resp: Option<client::ResponseFuture>,
    pub respond: Option<server::SendResponse<Bytes>>,
    pub pushes: Option<client::PushPromises>,
    pub pushed_resp: Option<client::PushedResponseFuture>,
    pub pushed_respond: Option<server::SendPushedResponse<Bytes>>,
    /// bytes submitted with send_data so far (pattern offset)
    pub sent_off: u64,
    /// bytes delivered by poll_data so far
    pub recv_off: u64,
    /// bytes delivered and not yet released
    pub unreleased: u64,
    pub recv_fc: Option<h2::FlowControl>,
    /// harness view: the send half can no longer send (END_STREAM submitted, reset, or error seen)
    pub send_done: bool,
    /// harness view: poll_data has returned None or an error
    pub recv_done: bool,
    /// `ResponseFuture::push_promises` was called once (a second call is an API-misuse panic)
    pub pushes_taken: bool,
}

/// byte at offset `off` of the body sent on the stream whose wire id is `sid` by `who` (0 = the
/// endpoint under test, 1 = the scripted peer)
pub fn pattern(sid: u32, who: u8, off: u64) -> u8 {
    (((sid as u64).wrapping_mul(31) + off.wrapping_mul(7) + 13 + who as u64 * 101) % 251) as u8
}

pub struct Driver {
    pub cfg: Config,
    pub pipe: Pipe,
    pub ep: Endpoint,
    pub handles: Vec<Handle>,
    pub ping_pong: Option<h2::PingPong>,
    pub wake_log: WakeLog,
    pub conn_task: Task,
    pub tasks: std::collections::HashMap<u32, Task>,
    pub out_buf: Vec<u8>,
    pub decoder: h2::verif::hpack::Decoder,
    pub step: u64,
    pub want_snap: bool,
    pub conn_done: Option<String>,
    pub trace: Vec<Value>,
    /// all frames written by the endpoint so far (parsed)
    pub out_frames: Vec<Value>,
    pub preface_skipped: bool,
    pub pending_block: Option<Vec<u8>>,
    pub poisoned: bool,
    pub drop_after_accept: bool,
}

pub fn err_str(e: &h2::Error) -> String {
    let origin = if e.is_remote() {
        "remote"
    } else if e.is_library() {
        "library"
    } else {
        "user"
    };
    let kind = if e.is_io() {
        "io"
    } else if e.is_go_away() {
        "goaway"
    } else if e.is_reset() {
        "reset"
    } else {
        "other"
    };
    match e.reason() {
        Some(r) => format!("E({},{},{})", kind, u32::from(r), origin),
        None => format!("E({},-,{}:{})", kind, origin, e),
    }
}

fn noop_cx_poll<F: Future + Unpin>(f: &mut F, n: usize) -> Option<F::Output> {
    let log: WakeLog = Arc::new(Mutex::new(Vec::new()));
    let t = Task::new(0, &log);
    let w = t.waker();
    let mut cx = Context::from_waker(&w);
    for _ in 0..n {
        if let Poll::Ready(v) = Pin::new(&mut *f).poll(&mut cx) {
            return Some(v);
        }
    }
    None
}

impl Driver {
    pub fn new(cfg: Config, want_snap: bool) -> Result<Driver, String> {
        let pipe = Pipe::new();
        let wake_log: WakeLog = Arc::new(Mutex::new(Vec::new()));
        let conn_task = Task::new(T_CONN, &wake_log);
        h2::verif::start();
        let ep = if cfg.role_client {
            let mut b = client::Builder::new();
            if let Some(v) = cfg.initial_window_size { b.initial_window_size(v); }
            if let Some(v) = cfg.initial_connection_window_size { b.initial_connection_window_size(v); }
            if let Some(v) = cfg.max_frame_size { b.max_frame_size(v); }
            if let Some(v) = cfg.max_concurrent_streams { b.max_concurrent_streams(v); }
            if let Some(v) = cfg.initial_max_send_streams { b.initial_max_send_streams(v); }
            if let Some(v) = cfg.max_concurrent_reset_streams { b.max_concurrent_reset_streams(v); }
            if let Some(v) = cfg.reset_stream_duration_ms { b.reset_stream_duration(Duration::from_millis(v)); }
            if let Some(v) = cfg.max_pending_accept_reset_streams { b.max_pending_accept_reset_streams(v); }
            if let Some(v) = cfg.max_local_error_reset_streams { b.max_local_error_reset_streams(v); }
            if let Some(v) = cfg.max_send_buffer_size { b.max_send_buffer_size(v); }
            if let Some(v) = cfg.max_header_list_size { b.max_header_list_size(v); }
            if let Some(v) = cfg.enable_push { b.enable_push(v); }
            if let Some(v) = cfg.initial_stream_id { b.initial_stream_id(v); }
            if let Some(v) = cfg.header_table_size { b.header_table_size(v); }
            let mut fut = Box::pin(b.handshake::<_, Bytes>(pipe.clone()));
            let (sr, conn) = noop_cx_poll(&mut fut, 8)
                .ok_or_else(|| "client handshake did not complete".to_string())?
                .map_err(|e| format!("client handshake error {}", e))?;
            Endpoint::Client { conn: Some(conn), sr: vec![Some(sr)] }
        } else {
            let mut b = server::Builder::new();
            if let Some(v) = cfg.initial_window_size { b.initial_window_size(v); }
            if let Some(v) = cfg.initial_connection_window_size { b.initial_connection_window_size(v); }
            if let Some(v) = cfg.max_frame_size { b.max_frame_size(v); }
            if let Some(v) = cfg.max_concurrent_streams { b.max_concurrent_streams(v); }
            if let Some(v) = cfg.max_concurrent_reset_streams { b.max_concurrent_reset_streams(v); }
            if let Some(v) = cfg.reset_stream_duration_ms { b.reset_stream_duration(Duration::from_millis(v)); }
            if let Some(v) = cfg.max_pending_accept_reset_streams { b.max_pending_accept_reset_streams(v); }
            if let Some(v) = cfg.max_local_error_reset_streams { b.max_local_error_reset_streams(v); }
            if let Some(v) = cfg.max_send_buffer_size { b.max_send_buffer_size(v); }
            if let Some(v) = cfg.max_header_list_size { b.max_header_list_size(v); }
            if let Some(v) = cfg.header_table_size { b.header_table_size(v); }
            pipe.feed(wire::PREFACE);
            let mut fut = b.handshake::<_, Bytes>(pipe.clone());
            let conn = noop_cx_poll(&mut fut, 8)
                .ok_or_else(|| "server handshake did not complete".to_string())?
                .map_err(|e| format!("server handshake error {}", e))?;
            Endpoint::Server { conn: Some(conn) }
        };
        // the peer's initial SETTINGS
        pipe.feed(&wire::settings(&cfg.peer_settings));
        let table = cfg_peer_table_size(&cfg);
        let mut d = Driver {
            cfg,
            pipe,
            ep,
            handles: Vec::new(),
            ping_pong: None,
            wake_log,
            conn_task,
            tasks: std::collections::HashMap::new(),
            out_buf: Vec::new(),
            decoder: h2::verif::hpack::Decoder::new(table),
            step: 0,
            want_snap,
            conn_done: None,
            trace: Vec::new(),
            out_frames: Vec::new(),
            preface_skipped: false,
            pending_block: None,
            poisoned: false,
            drop_after_accept: false,
        };
        // record the handshake output as step 0
        let hs = json!({"op":"handshake"});
        d.finish_step(hs, json!("ok"));
        Ok(d)
    }

    pub fn task(&mut self, id: u32) -> Task {
        let log = self.wake_log.clone();
        self.tasks.entry(id).or_insert_with(|| Task::new(id, &log)).clone()
    }

    pub fn htask(&mut self, h: usize, kind: u32) -> Task {
        self.task(100 + 8 * h as u32 + kind)
    }

    pub fn snapshot(&self) -> Option<h2::verif::Snapshot> {
        match &self.ep {
            Endpoint::Client { conn: Some(c), .. } => Some(c.verif_snapshot()),
            Endpoint::Client { conn: None, sr } => sr.iter().flatten().next().map(|s| s.verif_snapshot()),
            Endpoint::Server { conn: Some(c) } => Some(c.verif_snapshot()),
            Endpoint::Server { conn: None } => None,
        }
    }

    fn collect_out(&mut self) -> Vec<Value> {
        let bytes = self.pipe.take_out();
        self.out_buf.extend_from_slice(&bytes);
        if self.cfg.role_client && !self.preface_skipped {
            if self.out_buf.len() >= wire::PREFACE.len() {
                let pre: Vec<u8> = self.out_buf.drain(..wire::PREFACE.len()).collect();
                self.preface_skipped = true;
                if pre != wire::PREFACE {
                    return vec![json!({"t":"BAD_PREFACE"})];
                }
            } else {
                return vec![];
            }
        }
        let frames = wire::parse_frames(&mut self.out_buf);
        let mut out = Vec::new();
        for f in frames {
            out.push(self.describe_out(&f));
        }
        out
    }

    fn decode_block(&mut self, block: &[u8]) -> Value {
        use std::io::Cursor;
        use std::ops::ControlFlow;
        let mut buf = bytes::BytesMut::from(block);
        let mut fields: Vec<Value> = Vec::new();
        let r = self.decoder.decode(&mut Cursor::new(&mut buf), |h| {
            let (n, v) = header_to_pair(&h);
            fields.push(json!([String::from_utf8_lossy(&n), String::from_utf8_lossy(&v)]));
            ControlFlow::Continue(())
        });
        match r {
            Ok(()) => json!(fields),
            Err(e) => json!(format!("hpack-error:{:?}", e)),
        }
    }

    fn describe_out(&mut self, f: &RawFrame) -> Value {
        let p = &f.payload;
        let be32 = |b: &[u8]| u32::from_be_bytes([b[0], b[1], b[2], b[3]]);
        match f.kind {
            wire::DATA => {
                let (pad, body): (i64, &[u8]) = if f.flags & wire::FLAG_PADDED != 0 && !p.is_empty() {
                    let pl = p[0] as usize;
                    (pl as i64, &p[1..p.len().saturating_sub(pl).max(1)])
                } else {
                    (-1, &p[..])
                };
                json!({"t":"DATA","sid":f.sid,"len":body.len(),"flen":p.len(),"eos":f.flags & wire::FLAG_END_STREAM != 0,"pad":pad,
                        "sum": body.iter().fold(0u64, |a,b| a.wrapping_mul(131).wrapping_add(*b as u64)), "first": body.first().copied()})
            }
            wire::HEADERS => {
                let mut off = 0usize;
                if f.flags & wire::FLAG_PADDED != 0 { off += 1; }
                if f.flags & wire::FLAG_PRIORITY != 0 { off += 5; }
                let eoh = f.flags & wire::FLAG_END_HEADERS != 0;
                let block = if p.len() >= off { p[off..].to_vec() } else { vec![] };
                let mut v = json!({"t":"HEADERS","sid":f.sid,"flen":p.len(),"eos":f.flags & wire::FLAG_END_STREAM != 0,"eoh":eoh});
                if eoh {
                    v["fields"] = self.decode_block(&block);
                } else {
                    self.pending_block = Some(block);
                }
                v
            }
            wire::CONTINUATION => {
                let eoh = f.flags & wire::FLAG_END_HEADERS != 0;
                let mut v = json!({"t":"CONTINUATION","sid":f.sid,"flen":p.len(),"eoh":eoh});
                let mut blk = self.pending_block.take().unwrap_or_default();
                blk.extend_from_slice(p);
                if eoh {
                    v["fields"] = self.decode_block(&blk);
                } else {
                    self.pending_block = Some(blk);
                }
                v
            }
            wire::PUSH_PROMISE => {
                let promised = if p.len() >= 4 { be32(&p[0..4]) & 0x7fff_ffff } else { 0 };
                let eoh = f.flags & wire::FLAG_END_HEADERS != 0;
                let block = if p.len() >= 4 { p[4..].to_vec() } else { vec![] };
                let mut v = json!({"t":"PUSH_PROMISE","sid":f.sid,"promised":promised,"flen":p.len(),"eoh":eoh});
                if eoh {
                    v["fields"] = self.decode_block(&block);
                } else {
                    self.pending_block = Some(block);
                }
                v
            }
            wire::RST_STREAM => json!({"t":"RST_STREAM","sid":f.sid,"code": if p.len()==4 {be32(p) as i64} else {-1}}),
            wire::SETTINGS => {
                let ack = f.flags & wire::FLAG_ACK != 0;
                let mut params = Vec::new();
                for c in p.chunks(6) {
                    if c.len() == 6 {
                        params.push(json!([u16::from_be_bytes([c[0], c[1]]), be32(&c[2..6])]));
                    }
                }
                json!({"t":"SETTINGS","sid":f.sid,"ack":ack,"params":params,"flen":p.len()})
            }
            wire::PING => json!({"t":"PING","sid":f.sid,"ack":f.flags & wire::FLAG_ACK != 0,"payload":p}),
            wire::GOAWAY => json!({"t":"GOAWAY","sid":f.sid,"last": if p.len()>=8 {(be32(&p[0..4]) & 0x7fff_ffff) as i64} else {-1},
                                    "code": if p.len()>=8 {be32(&p[4..8]) as i64} else {-1}, "debug": if p.len()>8 {p[8..].to_vec()} else {vec![]}}),
            wire::WINDOW_UPDATE => json!({"t":"WINDOW_UPDATE","sid":f.sid,"inc": if p.len()==4 {(be32(p) & 0x7fff_ffff) as i64} else {-1}}),
            wire::PRIORITY => json!({"t":"PRIORITY","sid":f.sid,"flen":p.len()}),
            k => json!({"t":"UNKNOWN","kind":k,"sid":f.sid,"flen":p.len()}),
        }
    }

    /// Close a step: gather events, output, wakes, snapshot; append to the trace.
    pub fn finish_step(&mut self, op: Value, res: Value) {
        let evs: Vec<Value> = h2::verif::drain()
            .into_iter()
            .map(|e| {
                let mut a = vec![json!(e.name), json!(e.depth)];
                a.extend(e.args.into_iter().map(|x| json!(x)));
                Value::Array(a)
            })
            .collect();
        let out = self.collect_out();
        for f in &out {
            self.out_frames.push(f.clone());
        }
        let wakes: Vec<u32> = std::mem::take(&mut *self.wake_log.lock().unwrap());
        let mut rec = json!({"i": self.step, "op": op, "res": res, "ev": evs, "out": out, "wakes": wakes});
        if self.want_snap && !self.poisoned {
            // after a panic inside the library its mutex is poisoned: no further snapshots
            match std::panic::catch_unwind(std::panic::AssertUnwindSafe(|| self.snapshot())) {
                Ok(Some(s)) => rec["snap"] = snap_json(&s),
                Ok(None) => {}
                Err(_) => self.poisoned = true,
            }
        }
        {
            let st = self.pipe.0.borrow();
            rec["io"] = json!({"shutdown": st.shutdown, "inbound": st.inbound.len()});
        }
        self.trace.push(rec);
        self.step += 1;
    }

    /// Execute one op; returns its result value (also recorded in the trace).
    pub fn exec(&mut self, op: &Value) -> Value {
        let res = match std::panic::catch_unwind(std::panic::AssertUnwindSafe(|| self.exec_inner(op))) {
            Ok(v) => v,
            Err(p) => {
                let msg = if let Some(s) = p.downcast_ref::<&str>() {
                    s.to_string()
                } else if let Some(s) = p.downcast_ref::<String>() {
                    s.clone()
                } else {
                    "?".to_string()
                };
                json!({"panic": msg})
            }
        };
        if self.drop_after_accept {
            // an accept loop ends on None / Err and drops the connection
            self.drop_after_accept = false;
            self.drop_conn_object();
        }
        self.note_result(op, &res);
        self.finish_step(op.clone(), res.clone());
        res
    }

    fn note_result(&mut self, op: &Value, res: &Value) {
        let name = op["op"].as_str().unwrap_or("");
        let h = op["h"].as_u64().unwrap_or(0) as usize;
        let is_err = res.as_str().map(|s| s.starts_with("E(")).unwrap_or(false);
        let eos = op["eos"].as_bool().unwrap_or(false);
        if let Some(hd) = self.handles.get_mut(h) {
            match name {
                "send_data" | "send_response" | "send_pushed_response" => {
                    if is_err || (eos && res.as_str() == Some("ok")) {
                        hd.send_done = true;
                    }
                }
                "send_trailers" | "send_reset" | "respond_reset" => hd.send_done = true,
                "poll_capacity" => {
                    if res.as_str() == Some("None") || is_err {
                        hd.send_done = true;
                    }
                }
                "poll_data" => {
                    if res.as_str() == Some("None") || is_err {
                        hd.recv_done = true;
                    }
                }
                "poll_reset" | "respond_poll_reset" => {
                    if res.is_object() || is_err {
                        hd.send_done = true;
                    }
                }
                _ => {}
            }
        }
        if name == "send_request" && op["eos"].as_bool() == Some(true) {
            if let Some(nh) = res["h"].as_u64() {
                if let Some(hd) = self.handles.get_mut(nh as usize) {
                    hd.send_done = true;
                }
            }
        }
    }

    fn exec_inner(&mut self, op: &Value) -> Value {
        let name = op["op"].as_str().unwrap_or("");
        let h = op["h"].as_u64().unwrap_or(0) as usize;
        match name {
            "conn_poll" => self.conn_poll(),
            "conn_poll_inject" => self.conn_poll_inject(op),
            "peer" => {
                let bytes: Vec<u8> = op["bytes"].as_array().map(|a| a.iter().map(|x| x.as_u64().unwrap_or(0) as u8).collect()).unwrap_or_default();
                self.pipe.feed(&bytes);
                json!("fed")
            }
            "write_mode" => {
                let m = match op["mode"].as_str().unwrap_or("all") {
                    "all" => WriteMode::All,
                    "budget" => WriteMode::Budget(op["n"].as_u64().unwrap_or(0) as usize),
                    "zero" => WriteMode::Zero,
                    "fail" => WriteMode::Fail,
                    _ => WriteMode::All,
                };
                self.pipe.set_write_mode(m);
                json!("set")
            }
            "write_chunk" => {
                self.pipe.0.borrow_mut().write_chunk = op["n"].as_u64().unwrap_or(0) as usize;
                json!("set")
            }
            "read_chunk" => {
                self.pipe.0.borrow_mut().read_chunk = op["n"].as_u64().unwrap_or(0) as usize;
                json!("set")
            }
            "eof" => {
                self.pipe.set_eof();
                json!("set")
            }
            "read_fail" => {
                self.pipe.set_read_fail_kind(op["kind"].as_str() == Some("unexpected_eof"));
                json!("set")
            }
            "sleep" => {
                std::thread::sleep(Duration::from_millis(op["ms"].as_u64().unwrap_or(1)));
                json!("slept")
            }
            // marker op of the generator's tear-down phase (no effect on the endpoint)
            "teardown" => json!("mark"),
            "drop_conn" => {
                match &mut self.ep {
                    Endpoint::Client { conn, .. } => { conn.take(); }
                    Endpoint::Server { conn } => { conn.take(); }
                }
                json!("dropped")
            }
            // ---- client
            "poll_ready" => {
                let i = op["sr"].as_u64().unwrap_or(0) as usize;
                let t = self.task(T_READY + 1000 * i as u32);
                t.clear();
                let w = t.waker();
                let mut cx = Context::from_waker(&w);
                if let Endpoint::Client { sr, .. } = &mut self.ep {
                    if let Some(Some(s)) = sr.get_mut(i) {
                        return match s.poll_ready(&mut cx) {
                            Poll::Pending => json!("Pending"),
                            Poll::Ready(Ok(())) => json!("Ready"),
                            Poll::Ready(Err(e)) => json!(err_str(&e)),
                        };
                    }
                }
                json!("no-handle")
            }
            "clone_sr" => {
                if let Endpoint::Client { sr, .. } = &mut self.ep {
                    let c = sr.iter().flatten().next().cloned();
                    if let Some(c) = c {
                        sr.push(Some(c));
                        return json!(sr.len() - 1);
                    }
                }
                json!("no-handle")
            }
            "drop_sr" => {
                let i = op["sr"].as_u64().unwrap_or(0) as usize;
                if let Endpoint::Client { sr, .. } = &mut self.ep {
                    if let Some(s) = sr.get_mut(i) {
                        s.take();
                        return json!("dropped");
                    }
                }
                json!("no-handle")
            }
            "send_request" => {
                let i = op["sr"].as_u64().unwrap_or(0) as usize;
                let eos = op["eos"].as_bool().unwrap_or(false);
                let req = build_request(op);
                if let Endpoint::Client { sr, .. } = &mut self.ep {
                    if let Some(Some(s)) = sr.get_mut(i) {
                        return match s.send_request(req, eos) {
                            Ok((resp, send)) => {
                                let sid = u32::from(send.stream_id());
                                let mut hd = Handle::default();
                                hd.sid = sid;
                                hd.resp = Some(resp);
                                hd.send = Some(send);
                                self.handles.push(hd);
                                json!({"h": self.handles.len() - 1, "sid": sid})
                            }
                            Err(e) => json!(err_str(&e)),
                        };
                    }
                }
                json!("no-handle")
            }
            "poll_response" => {
                let t = self.htask(h, K_RESP);
                t.clear();
                let w = t.waker();
                let mut cx = Context::from_waker(&w);
                let hd = match self.handles.get_mut(h) { Some(x) => x, None => return json!("no-handle") };
                match hd.resp.as_mut() {
                    None => json!("no-handle"),
                    Some(r) => match Pin::new(r).poll(&mut cx) {
                        Poll::Pending => json!("Pending"),
                        Poll::Ready(Ok(resp)) => {
                            let (parts, body) = resp.into_parts();
                            let st = parts.status.as_u16();
                            let fields = headermap_json(&parts.headers);
                            hd.recv = Some(body);
                            hd.resp = None;
                            json!({"status": st, "fields": fields})
                        }
                        Poll::Ready(Err(e)) => {
                            hd.resp = None;
                            json!(err_str(&e))
                        }
                    },
                }
            }
            "poll_informational" => {
                let t = self.htask(h, K_INFO);
                t.clear();
                let w = t.waker();
                let mut cx = Context::from_waker(&w);
                let hd = match self.handles.get_mut(h) { Some(x) => x, None => return json!("no-handle") };
                match hd.resp.as_mut() {
                    None => json!("no-handle"),
                    Some(r) => match r.poll_informational(&mut cx) {
                        Poll::Pending => json!("Pending"),
                        Poll::Ready(None) => json!("None"),
                        Poll::Ready(Some(Ok(resp))) => json!({"status": resp.status().as_u16(), "fields": headermap_json(resp.headers())}),
                        Poll::Ready(Some(Err(e))) => json!(err_str(&e)),
                    },
                }
            }
            "drop_response" => {
                if let Some(hd) = self.handles.get_mut(h) { hd.resp.take(); }
                json!("dropped")
            }
            "drop_pushes" => {
                if let Some(hd) = self.handles.get_mut(h) { hd.pushes.take(); }
                json!("dropped")
            }
            "drop_pushed_response" => {
                if let Some(hd) = self.handles.get_mut(h) { hd.pushed_resp.take(); }
                json!("dropped")
            }
            "push_promises" => {
                let hd = match self.handles.get_mut(h) { Some(x) => x, None => return json!("no-handle") };
                if hd.pushes_taken {
                    return json!("already-taken");
                }
                if let Some(r) = hd.resp.as_mut() {
                    hd.pushes = Some(r.push_promises());
                    hd.pushes_taken = true;
                    return json!("ok");
                }
                json!("no-handle")
            }
            "poll_push" => {
                let t = self.htask(h, K_PUSH);
                t.clear();
                let w = t.waker();
                let mut cx = Context::from_waker(&w);
                let r = {
                    let hd = match self.handles.get_mut(h) { Some(x) => x, None => return json!("no-handle") };
                    match hd.pushes.as_mut() {
                        None => return json!("no-handle"),
                        Some(p) => p.poll_push_promise(&mut cx),
                    }
                };
                match r {
                    Poll::Pending => json!("Pending"),
                    Poll::Ready(None) => json!("None"),
                    Poll::Ready(Some(Err(e))) => json!(err_str(&e)),
                    Poll::Ready(Some(Ok(pp))) => {
                        let (req, fut) = pp.into_parts();
                        let sid = u32::from(fut.stream_id());
                        let mut nh = Handle::default();
                        nh.sid = sid;
                        nh.pushed_resp = Some(fut);
                        self.handles.push(nh);
                        json!({"h": self.handles.len() - 1, "sid": sid, "method": req.method().as_str(), "uri": req.uri().to_string(), "fields": headermap_json(req.headers())})
                    }
                }
            }
            "poll_pushed_response" => {
                let t = self.htask(h, K_RESP);
                t.clear();
                let w = t.waker();
                let mut cx = Context::from_waker(&w);
                let hd = match self.handles.get_mut(h) { Some(x) => x, None => return json!("no-handle") };
                match hd.pushed_resp.as_mut() {
                    None => json!("no-handle"),
                    Some(r) => match Pin::new(r).poll(&mut cx) {
                        Poll::Pending => json!("Pending"),
                        Poll::Ready(Ok(resp)) => {
                            let (parts, body) = resp.into_parts();
                            hd.recv = Some(body);
                            hd.pushed_resp = None;
                            json!({"status": parts.status.as_u16(), "fields": headermap_json(&parts.headers)})
                        }
                        Poll::Ready(Err(e)) => {
                            hd.pushed_resp = None;
                            json!(err_str(&e))
                        }
                    },
                }
            }
            // ---- server
            "poll_accept" => {
                let t = self.conn_task.clone();
                t.clear();
                let w = t.waker();
                let mut cx = Context::from_waker(&w);
                if let Endpoint::Server { conn: Some(c) } = &mut self.ep {
                    return match c.poll_accept(&mut cx) {
                        Poll::Pending => json!("Pending"),
                        Poll::Ready(None) => {
                            self.conn_done = Some("accept:None".into());
                            self.drop_after_accept = true;
                            json!("None")
                        }
                        Poll::Ready(Some(Err(e))) => {
                            let s = err_str(&e);
                            self.conn_done = Some(s.clone());
                            self.drop_after_accept = true;
                            json!(s)
                        }
                        Poll::Ready(Some(Ok((req, respond)))) => {
                            let (parts, body) = req.into_parts();
                            let sid = u32::from(respond.stream_id());
                            let mut hd = Handle::default();
                            hd.sid = sid;
                            hd.recv = Some(body);
                            hd.respond = Some(respond);
                            self.handles.push(hd);
                            json!({"h": self.handles.len() - 1, "sid": sid, "method": parts.method.as_str(), "uri": parts.uri.to_string(),
                                   "fields": headermap_json(&parts.headers), "protocol": parts.extensions.get::<h2::ext::Protocol>().map(|p| p.as_str().to_string())})
                        }
                    };
                }
                json!("no-handle")
            }
            "send_response" => {
                let eos = op["eos"].as_bool().unwrap_or(false);
                let resp = build_response(op);
                let hd = match self.handles.get_mut(h) { Some(x) => x, None => return json!("no-handle") };
                match hd.respond.as_mut() {
                    None => json!("no-handle"),
                    Some(r) => match r.send_response(resp, eos) {
                        Ok(s) => {
                            hd.send = Some(s);
                            json!("ok")
                        }
                        Err(e) => json!(err_str(&e)),
                    },
                }
            }
            "send_informational" => {
                let resp = build_response(op);
                let hd = match self.handles.get_mut(h) { Some(x) => x, None => return json!("no-handle") };
                match hd.respond.as_mut() {
                    None => json!("no-handle"),
                    Some(r) => match r.send_informational(resp) {
                        Ok(()) => json!("ok"),
                        Err(e) => json!(err_str(&e)),
                    },
                }
            }
            "push_request" => {
                let req = build_request(op);
                let r = {
                    let hd = match self.handles.get_mut(h) { Some(x) => x, None => return json!("no-handle") };
                    match hd.respond.as_mut() {
                        None => return json!("no-handle"),
                        Some(r) => r.push_request(req),
                    }
                };
                match r {
                    Ok(pushed) => {
                        let sid = u32::from(pushed.stream_id());
                        let mut nh = Handle::default();
                        nh.sid = sid;
                        nh.pushed_respond = Some(pushed);
                        self.handles.push(nh);
                        json!({"h": self.handles.len() - 1, "sid": sid})
                    }
                    Err(e) => json!(err_str(&e)),
                }
            }
            "send_pushed_response" => {
                let eos = op["eos"].as_bool().unwrap_or(false);
                let resp = build_response(op);
                let hd = match self.handles.get_mut(h) { Some(x) => x, None => return json!("no-handle") };
                match hd.pushed_respond.as_mut() {
                    None => json!("no-handle"),
                    Some(r) => match r.send_response(resp, eos) {
                        Ok(s) => {
                            hd.send = Some(s);
                            json!("ok")
                        }
                        Err(e) => json!(err_str(&e)),
                    },
                }
            }
            "respond_reset" => {
                let code = op["code"].as_u64().unwrap_or(8) as u32;
                let hd = match self.handles.get_mut(h) { Some(x) => x, None => return json!("no-handle") };
                match hd.respond.as_mut() {
                    None => json!("no-handle"),
                    Some(r) => {
                        r.send_reset(h2::Reason::from(code));
                        json!("ok")
                    }
                }
            }
            "respond_poll_reset" => {
                let t = self.htask(h, K_RESET);
                t.clear();
                let w = t.waker();
                let mut cx = Context::from_waker(&w);
                let hd = match self.handles.get_mut(h) { Some(x) => x, None => return json!("no-handle") };
                match hd.respond.as_mut() {
                    None => json!("no-handle"),
                    Some(r) => match r.poll_reset(&mut cx) {
                        Poll::Pending => json!("Pending"),
                        Poll::Ready(Ok(r)) => json!({"reason": u32::from(r)}),
                        Poll::Ready(Err(e)) => json!(err_str(&e)),
                    },
                }
            }
            "drop_respond" => {
                if let Some(hd) = self.handles.get_mut(h) { hd.respond.take(); hd.pushed_respond.take(); }
                json!("dropped")
            }
            "graceful_shutdown" => {
                if let Endpoint::Server { conn: Some(c) } = &mut self.ep {
                    c.graceful_shutdown();
                    return json!("ok");
                }
                json!("no-handle")
            }
            "abrupt_shutdown" => {
                let code = op["code"].as_u64().unwrap_or(0) as u32;
                if let Endpoint::Server { conn: Some(c) } = &mut self.ep {
                    c.abrupt_shutdown(h2::Reason::from(code));
                    return json!("ok");
                }
                json!("no-handle")
            }
            // ---- send half
            "send_data" => {
                let len = op["len"].as_u64().unwrap_or(0);
                let eos = op["eos"].as_bool().unwrap_or(false);
                let hd = match self.handles.get_mut(h) { Some(x) => x, None => return json!("no-handle") };
                let sid = hd.sid;
                let off = hd.sent_off;
                match hd.send.as_mut() {
                    None => json!("no-handle"),
                    Some(s) => {
                        let body: Vec<u8> = (0..len).map(|i| pattern(sid, 0, off + i)).collect();
                        match s.send_data(Bytes::from(body), eos) {
                            Ok(()) => {
                                hd.sent_off += len;
                                json!("ok")
                            }
                            Err(e) => json!(err_str(&e)),
                        }
                    }
                }
            }
            "reserve" => {
                let n = op["n"].as_u64().unwrap_or(0) as usize;
                let hd = match self.handles.get_mut(h) { Some(x) => x, None => return json!("no-handle") };
                match hd.send.as_mut() {
                    None => json!("no-handle"),
                    Some(s) => {
                        s.reserve_capacity(n);
                        json!({"capacity": s.capacity()})
                    }
                }
            }
            "capacity" => {
                let hd = match self.handles.get_mut(h) { Some(x) => x, None => return json!("no-handle") };
                match hd.send.as_mut() {
                    None => json!("no-handle"),
                    Some(s) => json!({"capacity": s.capacity()}),
                }
            }
            "poll_capacity" => {
                let t = self.htask(h, K_CAP);
                t.clear();
                let w = t.waker();
                let mut cx = Context::from_waker(&w);
                let hd = match self.handles.get_mut(h) { Some(x) => x, None => return json!("no-handle") };
                match hd.send.as_mut() {
                    None => json!("no-handle"),
                    Some(s) => match s.poll_capacity(&mut cx) {
                        Poll::Pending => json!("Pending"),
                        Poll::Ready(None) => json!("None"),
                        Poll::Ready(Some(Ok(n))) => json!({"capacity": n}),
                        Poll::Ready(Some(Err(e))) => json!(err_str(&e)),
                    },
                }
            }
            "send_trailers" => {
                let hd = match self.handles.get_mut(h) { Some(x) => x, None => return json!("no-handle") };
                match hd.send.as_mut() {
                    None => json!("no-handle"),
                    Some(s) => {
                        let mut m = http::HeaderMap::new();
                        add_fields(&mut m, op);
                        if m.is_empty() {
                            m.insert("x-trailer", http::HeaderValue::from_static("t"));
                        }
                        match s.send_trailers(m) {
                            Ok(()) => json!("ok"),
                            Err(e) => json!(err_str(&e)),
                        }
                    }
                }
            }
            "send_reset" => {
                let code = op["code"].as_u64().unwrap_or(8) as u32;
                let hd = match self.handles.get_mut(h) { Some(x) => x, None => return json!("no-handle") };
                match hd.send.as_mut() {
                    None => json!("no-handle"),
                    Some(s) => {
                        s.send_reset(h2::Reason::from(code));
                        json!("ok")
                    }
                }
            }
            "poll_reset" => {
                let t = self.htask(h, K_RESET);
                t.clear();
                let w = t.waker();
                let mut cx = Context::from_waker(&w);
                let hd = match self.handles.get_mut(h) { Some(x) => x, None => return json!("no-handle") };
                match hd.send.as_mut() {
                    None => json!("no-handle"),
                    Some(s) => match s.poll_reset(&mut cx) {
                        Poll::Pending => json!("Pending"),
                        Poll::Ready(Ok(r)) => json!({"reason": u32::from(r)}),
                        Poll::Ready(Err(e)) => json!(err_str(&e)),
                    },
                }
            }
            "drop_send" => {
                if let Some(hd) = self.handles.get_mut(h) { hd.send.take(); }
                json!("dropped")
            }
            // ---- recv half
            "poll_data" => {
                let t = self.htask(h, K_DATA);
                t.clear();
                let w = t.waker();
                let mut cx = Context::from_waker(&w);
                let hd = match self.handles.get_mut(h) { Some(x) => x, None => return json!("no-handle") };
                let sid = hd.sid;
                match hd.recv.as_mut() {
                    None => json!("no-handle"),
                    Some(r) => match r.poll_data(&mut cx) {
                        Poll::Pending => json!("Pending"),
                        Poll::Ready(None) => json!("None"),
                        Poll::Ready(Some(Ok(b))) => {
                            let off = hd.recv_off;
                            let good = b.iter().enumerate().all(|(i, x)| *x == pattern(sid, 1, off + i as u64));
                            hd.recv_off += b.len() as u64;
                            hd.unreleased += b.len() as u64;
                            json!({"len": b.len(), "pattern_ok": good})
                        }
                        Poll::Ready(Some(Err(e))) => json!(err_str(&e)),
                    },
                }
            }
            "poll_trailers" => {
                let t = self.htask(h, K_TRAILERS);
                t.clear();
                let w = t.waker();
                let mut cx = Context::from_waker(&w);
                let hd = match self.handles.get_mut(h) { Some(x) => x, None => return json!("no-handle") };
                match hd.recv.as_mut() {
                    None => json!("no-handle"),
                    Some(r) => match r.poll_trailers(&mut cx) {
                        Poll::Pending => json!("Pending"),
                        Poll::Ready(Ok(None)) => json!("None"),
                        Poll::Ready(Ok(Some(m))) => json!({"fields": headermap_json(&m)}),
                        Poll::Ready(Err(e)) => json!(err_str(&e)),
                    },
                }
            }
            "is_end_stream" => {
                let hd = match self.handles.get_mut(h) { Some(x) => x, None => return json!("no-handle") };
                match hd.recv.as_ref() {
                    None => json!("no-handle"),
                    Some(r) => json!({"eos": r.is_end_stream()}),
                }
            }
            "release" => {
                let n = op["n"].as_u64().unwrap_or(0) as usize;
                let hd = match self.handles.get_mut(h) { Some(x) => x, None => return json!("no-handle") };
                let fc = if let Some(r) = hd.recv.as_mut() { Some(r.flow_control()) } else { hd.recv_fc.as_mut() };
                match fc {
                    None => json!("no-handle"),
                    Some(fc) => {
                        let r = fc.release_capacity(n);
                        let av = fc.available_capacity();
                        let us = fc.used_capacity();
                        match r {
                            Ok(()) => {
                                hd.unreleased = hd.unreleased.saturating_sub(n as u64);
                                json!({"ok": true, "available": av, "used": us})
                            }
                            Err(e) => json!({"ok": false, "err": err_str(&e), "available": av, "used": us}),
                        }
                    }
                }
            }
            "clone_fc" => {
                let hd = match self.handles.get_mut(h) { Some(x) => x, None => return json!("no-handle") };
                if let Some(r) = hd.recv.as_mut() {
                    hd.recv_fc = Some(r.flow_control().clone());
                    return json!("ok");
                }
                json!("no-handle")
            }
            "drop_fc" => {
                if let Some(hd) = self.handles.get_mut(h) { hd.recv_fc.take(); }
                json!("dropped")
            }
            "drop_recv" => {
                if let Some(hd) = self.handles.get_mut(h) { hd.recv.take(); }
                json!("dropped")
            }
            // ---- connection-level API
            "set_target_window" => {
                let n = op["n"].as_u64().unwrap_or(65535) as u32;
                match &mut self.ep {
                    Endpoint::Client { conn: Some(c), .. } => c.set_target_window_size(n),
                    Endpoint::Server { conn: Some(c) } => c.set_target_window_size(n),
                    _ => return json!("no-handle"),
                }
                json!("ok")
            }
            "set_initial_window" => {
                let n = op["n"].as_u64().unwrap_or(65535) as u32;
                let r = match &mut self.ep {
                    Endpoint::Client { conn: Some(c), .. } => c.set_initial_window_size(n),
                    Endpoint::Server { conn: Some(c) } => c.set_initial_window_size(n),
                    _ => return json!("no-handle"),
                };
                match r {
                    Ok(()) => json!("ok"),
                    Err(e) => json!(err_str(&e)),
                }
            }
            "take_ping_pong" => {
                let pp = match &mut self.ep {
                    Endpoint::Client { conn: Some(c), .. } => c.ping_pong(),
                    Endpoint::Server { conn: Some(c) } => c.ping_pong(),
                    _ => None,
                };
                let ok = pp.is_some();
                if ok { self.ping_pong = pp; }
                json!(ok)
            }
            "send_ping" => match self.ping_pong.as_mut() {
                None => json!("no-handle"),
                Some(p) => match p.send_ping(h2::Ping::opaque()) {
                    Ok(()) => json!("ok"),
                    Err(e) => json!(err_str(&e)),
                },
            },
            "poll_pong" => {
                let t = self.task(T_PONG);
                t.clear();
                let w = t.waker();
                let mut cx = Context::from_waker(&w);
                match self.ping_pong.as_mut() {
                    None => json!("no-handle"),
                    Some(p) => match p.poll_pong(&mut cx) {
                        Poll::Pending => json!("Pending"),
                        Poll::Ready(Ok(_)) => json!("Pong"),
                        Poll::Ready(Err(e)) => json!(err_str(&e)),
                    },
                }
            }
            "drop_ping_pong" => {
                self.ping_pong.take();
                json!("dropped")
            }
            _ => json!("unknown-op"),
        }
    }

    pub fn conn_poll(&mut self) -> Value {
        let t = self.conn_task.clone();
        t.clear();
        let w = t.waker();
        let mut cx = Context::from_waker(&w);
        if self.conn_done.is_some() {
            return json!({"done": self.conn_done.clone()});
        }
        let r = match &mut self.ep {
            Endpoint::Client { conn: Some(c), .. } => Pin::new(c).poll(&mut cx),
            Endpoint::Server { conn: Some(c) } => c.poll_closed(&mut cx),
            _ => return json!("no-handle"),
        };
        match r {
            Poll::Pending => json!("Pending"),
            Poll::Ready(Ok(())) => {
                self.conn_done = Some("Ok".into());
                self.drop_conn_object();
                json!("Ready(Ok)")
            }
            Poll::Ready(Err(e)) => {
                let s = err_str(&e);
                self.conn_done = Some(s.clone());
                self.drop_conn_object();
                json!(s)
            }
        }
    }

    /// A completed connection future is dropped by its executor; do the same so that the handles see it.
    fn drop_conn_object(&mut self) {
        match &mut self.ep {
            Endpoint::Client { conn, .. } => {
                conn.take();
            }
            Endpoint::Server { conn } => {
                conn.take();
            }
        }
    }

    /// C20: one poll of the connection during which the handle operations `ops` are executed from inside the transport's
    /// `poll_write` / `poll_flush` callback (`at`), at its `nth` call: exactly where the connection task has released the
    /// stream-state lock (before `poll_ready`'s flush, between `buffer_pending` and `reclaim_written_frame`).  The connection
    /// object is moved out of the driver for the duration of the poll, so the injected operations see every other handle.
    pub fn conn_poll_inject(&mut self, op: &Value) -> Value {
        use std::cell::{Cell, RefCell};
        use std::rc::Rc;
        if self.conn_done.is_some() {
            return json!({"done": self.conn_done.clone()});
        }
        let at = op["at"].as_str().unwrap_or("write").to_string();
        let nth = op["nth"].as_u64().unwrap_or(1);
        let ops: Vec<Value> = op["ops"].as_array().cloned().unwrap_or_default();
        let results: Rc<RefCell<Vec<Value>>> = Rc::new(RefCell::new(Vec::new()));
        let fired = Rc::new(Cell::new(0u64));
        let me: *mut Driver = self;
        {
            let (results, fired) = (results.clone(), fired.clone());
            let mut count = 0u64;
            let hook = Box::new(move |which: &'static str| {
                if which != at {
                    return;
                }
                count += 1;
                if count != nth {
                    return;
                }
                fired.set(count);
                for o in &ops {
                    let name = o["op"].as_str().unwrap_or("");
                    if name.starts_with("conn_poll") || name == "poll_accept" || name == "drop_conn" {
                        continue;
                    }
                    // SAFETY: the connection has been moved out of `*me` and `conn_poll_inject` does not touch `*me` while
                    // the poll (and therefore this callback) runs; the transport cell is not borrowed during the callback.
                    let d: &mut Driver = unsafe { &mut *me };
                    let r = match std::panic::catch_unwind(std::panic::AssertUnwindSafe(|| d.exec_inner(o))) {
                        Ok(v) => v,
                        Err(_) => json!({"panic": "injected operation panicked"}),
                    };
                    d.note_result(o, &r);
                    results.borrow_mut().push(json!({"op": o, "res": r}));
                }
            });
            self.pipe.0.borrow_mut().hook = crate::pipe::Hook(Some(hook));
        }
        let t = self.conn_task.clone();
        t.clear();
        let w = t.waker();
        let mut cx = Context::from_waker(&w);
        enum Taken {
            C(client::Connection<Pipe, Bytes>),
            S(server::Connection<Pipe, Bytes>),
            None,
        }
        let mut taken = match &mut self.ep {
            Endpoint::Client { conn, .. } => conn.take().map(Taken::C).unwrap_or(Taken::None),
            Endpoint::Server { conn } => conn.take().map(Taken::S).unwrap_or(Taken::None),
        };
        let r = match &mut taken {
            Taken::C(c) => Some(Pin::new(c).poll(&mut cx)),
            Taken::S(c) => Some(c.poll_closed(&mut cx)),
            Taken::None => None,
        };
        self.pipe.0.borrow_mut().hook = crate::pipe::Hook(None);
        match (&mut self.ep, taken) {
            (Endpoint::Client { conn, .. }, Taken::C(c)) => *conn = Some(c),
            (Endpoint::Server { conn }, Taken::S(c)) => *conn = Some(c),
            _ => {}
        }
        let poll = match r {
            None => json!("no-handle"),
            Some(Poll::Pending) => json!("Pending"),
            Some(Poll::Ready(Ok(()))) => {
                self.conn_done = Some("Ok".into());
                self.drop_conn_object();
                json!("Ready(Ok)")
            }
            Some(Poll::Ready(Err(e))) => {
                let s = err_str(&e);
                self.conn_done = Some(s.clone());
                self.drop_conn_object();
                json!(s)
            }
        };
        let injected = results.borrow().clone();
        json!({"poll": poll, "fired": fired.get(), "injected": injected})
    }

    pub fn conn_woken(&self) -> bool {
        self.conn_task.is_woken()
    }
}

fn cfg_peer_table_size(_cfg: &Config) -> usize {
    // the endpoint's encoder is bounded by min(peer's SETTINGS_HEADER_TABLE_SIZE, 4096); the peer
    // (our decoder) advertised the default, so 4096 accepts every legal size update
    4096
}

pub fn header_to_pair(h: &h2::verif::hpack::Header) -> (Vec<u8>, Vec<u8>) {
    use h2::verif::hpack::Header::*;
    match h {
        Field { name, value } => (name.as_str().as_bytes().to_vec(), value.as_bytes().to_vec()),
        Authority(v) => (b":authority".to_vec(), v.as_ref().to_vec()),
        Method(m) => (b":method".to_vec(), m.as_str().as_bytes().to_vec()),
        Scheme(v) => (b":scheme".to_vec(), v.as_ref().to_vec()),
        Path(v) => (b":path".to_vec(), v.as_ref().to_vec()),
        Protocol(p) => (b":protocol".to_vec(), p.as_str().as_bytes().to_vec()),
        Status(s) => (b":status".to_vec(), s.as_str().as_bytes().to_vec()),
    }
}

pub fn headermap_json(m: &http::HeaderMap) -> Value {
    let mut v = Vec::new();
    for (k, val) in m.iter() {
        v.push(json!([k.as_str(), String::from_utf8_lossy(val.as_bytes())]));
    }
    Value::Array(v)
}

fn add_fields(m: &mut http::HeaderMap, op: &Value) {
    if let Some(a) = op["fields"].as_array() {
        for f in a {
            if let (Some(k), Some(v)) = (f[0].as_str(), f[1].as_str()) {
                if let (Ok(k), Ok(v)) = (http::header::HeaderName::from_bytes(k.as_bytes()), http::HeaderValue::from_str(v)) {
                    m.append(k, v);
                }
            }
        }
    }
}

pub fn build_request(op: &Value) -> http::Request<()> {
    let method = op["method"].as_str().unwrap_or("GET");
    let uri = op["uri"].as_str().unwrap_or("https://example.com/");
    let mut b = http::Request::builder().method(method).uri(uri);
    if let Some(hm) = b.headers_mut() {
        add_fields(hm, op);
    }
    b.body(()).unwrap_or_else(|_| http::Request::new(()))
}

pub fn build_response(op: &Value) -> http::Response<()> {
    let status = op["status"].as_u64().unwrap_or(200) as u16;
    let mut b = http::Response::builder().status(status);
    if let Some(hm) = b.headers_mut() {
        add_fields(hm, op);
    }
    b.body(()).unwrap_or_else(|_| http::Response::new(()))
}

pub fn snap_json(s: &h2::verif::Snapshot) -> Value {
    let mut conn = serde_json::Map::new();
    for (k, v) in &s.conn {
        conn.insert(k.to_string(), json!(v));
    }
    let mut streams = Vec::new();
    for (v, st) in &s.streams {
        let mut m = serde_json::Map::new();
        for (k, x) in v {
            m.insert(k.to_string(), json!(x));
        }
        m.insert("state".into(), json!(st));
        streams.push(Value::Object(m));
    }
    let mut q = serde_json::Map::new();
    for (k, v) in &s.queues {
        q.insert(k.to_string(), json!(v));
    }
    json!({"conn": conn, "streams": streams, "queues": q})
}
