//! Shared helpers of the correspondence harness binaries (src/bin/*.rs).
//! Every random choice of a run derives from one `Rng` seeded by `VERIF_SEED`/argument, so that a
//! disagreement replays exactly.

/// SplitMix64: tiny deterministic PRNG (no external crate so that runs are stable across versions).
#[derive(Clone, Debug)]
pub struct Rng(pub u64);

impl Rng {
    pub fn new(seed: u64) -> Rng {
        // run the seed through the output mixer twice so that consecutive seeds give unrelated
        // states (state = seed * golden would make stream(seed+1) a shifted copy of stream(seed))
        let mut r = Rng(seed ^ 0x5851_F42D_4C95_7F2D);
        let a = r.next_u64();
        let b = r.next_u64();
        Rng(a ^ b.rotate_left(29) ^ seed.rotate_left(47))
    }
    pub fn next_u64(&mut self) -> u64 {
        self.0 = self.0.wrapping_add(0x9E37_79B9_7F4A_7C15);
        let mut z = self.0;
        z = (z ^ (z >> 30)).wrapping_mul(0xBF58_476D_1CE4_E5B9);
        z = (z ^ (z >> 27)).wrapping_mul(0x94D0_49BB_1331_11EB);
        z ^ (z >> 31)
    }
    /// uniform in 0..n (n > 0)
    pub fn below(&mut self, n: u64) -> u64 {
        self.next_u64() % n
    }
    pub fn range(&mut self, lo: u64, hi_incl: u64) -> u64 {
        lo + self.below(hi_incl - lo + 1)
    }
    pub fn chance(&mut self, num: u64, den: u64) -> bool {
        self.below(den) < num
    }
    pub fn byte(&mut self) -> u8 {
        self.next_u64() as u8
    }
    pub fn bytes(&mut self, n: usize) -> Vec<u8> {
        (0..n).map(|_| self.byte()).collect()
    }
    pub fn pick<'a, T>(&mut self, xs: &'a [T]) -> &'a T {
        &xs[self.below(xs.len() as u64) as usize]
    }
}

/// Render a byte slice as a JSON array of numbers.
pub fn json_bytes(b: &[u8]) -> String {
    let mut s = String::with_capacity(b.len() * 4 + 2);
    s.push('[');
    for (i, x) in b.iter().enumerate() {
        if i > 0 {
            s.push(',');
        }
        s.push_str(&x.to_string());
    }
    s.push(']');
    s
}

/// Parse `--key value` style arguments into a map (very small, no dependency).
pub fn args() -> std::collections::HashMap<String, String> {
    let mut m = std::collections::HashMap::new();
    let v: Vec<String> = std::env::args().skip(1).collect();
    let mut i = 0;
    while i < v.len() {
        if let Some(k) = v[i].strip_prefix("--") {
            if i + 1 < v.len() && !v[i + 1].starts_with("--") {
                m.insert(k.to_string(), v[i + 1].clone());
                i += 2;
                continue;
            }
            m.insert(k.to_string(), "true".to_string());
        }
        i += 1;
    }
    m
}

pub fn arg_u64(m: &std::collections::HashMap<String, String>, k: &str, d: u64) -> u64 {
    m.get(k).and_then(|s| s.parse().ok()).unwrap_or(d)
}

pub mod exec;
pub mod pipe;
pub mod wire;
pub mod driver;
pub mod gen;
