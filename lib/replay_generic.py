"""./check Cxx --replay <file> for plugins without a replay() of their own.

A replay file written by a check is one of
  * a connection scenario ({"scenario": {"cfg", "trace": [{"op"}, ...]}} or a corpus file with cfg/trace at top level):
    the op list is run again on the real crate (harness bin `conn --replay`, statistics snapshots on) and judged by the
    hook-independent oracles of the property; exit 1 with a VIOLATION line if they still object, 0 otherwise;
  * a record naming a theorem / correspondence that no longer checked, or a unit-level case of another harness binary:
    there is no single input to run, so the quick check of the property is run again (its verdict is the answer).
"""
import json
import os
import tempfile

import common


class _Collector:
    """Report look-alike: collects violations, writes nothing"""

    def __init__(self, prop):
        self.prop = prop
        self.violations = []
        self.oracle_runs = []
        self.correspondences = []
        self.partial = []
        self.assumptions = []
        self.extra = {}
        self.knowns = []

    def violation(self, kind, payload, no_input=False):
        self.violations.append((kind, payload))

    def known(self, *a, **k):
        self.knowns.append(a)


def _oracles(prop):
    if prop in ("C04", "C07", "C09", "C17"):
        from props import lifecycle_common
        return lambda rep, scs: lifecycle_common.run_oracles(rep, prop, scs)
    if prop in ("C02", "C16"):
        from props.parts import sendflow
        if prop == "C16":
            return lambda rep, scs: sendflow.oracle_sendflow(rep, scs, "C16") + sendflow.capacity_usable_oracle(rep, scs)
        return lambda rep, scs: sendflow.oracle_sendflow(rep, scs, "C02")
    if prop == "C03":
        from props.parts import recvflow
        return recvflow.oracle_recvflow
    if prop == "C05":
        from props.parts import counts
        return counts.oracle_counts
    if prop in ("C14", "C15"):
        from props.parts import control
        return lambda rep, scs: control.oracle_control(rep, scs, prop)
    if prop == "C18":
        from props.parts import bounds
        return bounds.oracle_bounds
    if prop == "C19":
        from props.parts import store
        return store.oracle_store
    if prop == "C08":
        def panics(rep, scs):
            n = 0
            for sc in scs:
                for st in sc["trace"]:
                    r = st.get("res")
                    if isinstance(r, dict) and "panic" in r and "self.slab.is_empty()" not in str(r["panic"]):
                        rep.violation("failing-input", {"step": st["i"], "panic": r["panic"]})
                        n += 1
                        break
                else:
                    if sc.get("settled") is False:
                        rep.violation("failing-input", {"why": "the connection task kept waking itself (busy loop)"})
                        n += 1
            return n
        return panics
    return None


def replay(prop, path):
    """returns an exit code, or None if the caller should run the ordinary quick check instead"""
    try:
        d = json.load(open(path))
    except Exception as ex:
        print("cannot read %s: %s" % (path, ex))
        return 2
    sc = d.get("scenario") if isinstance(d, dict) else None
    if sc is None and isinstance(d, dict) and "trace" in d and "cfg" in d:
        sc = d
    if sc is None and isinstance(d, dict) and isinstance(d.get("replay"), str) and d["replay"].endswith(".json") and os.path.exists(d["replay"]):
        return replay(prop, d["replay"])
    orc = _oracles(prop)
    if not (isinstance(sc, dict) and isinstance(sc.get("trace"), list) and "cfg" in sc) or orc is None:
        what = d.get("kind", "record") if isinstance(d, dict) else "record"
        print("replay %s: a %s without a connection-level op list (it names a theorem, a correspondence or a unit-level case): "
              "running ./check %s --tier quick instead" % (path, what, prop))
        return None
    from props.parts import sendflow
    with tempfile.NamedTemporaryFile("w", suffix=".json", delete=False, dir=os.path.join(common.VERIF, ".build")) as f:
        json.dump({"cfg": sc["cfg"], "seed": sc.get("seed"), "i": sc.get("i"), "profile": sc.get("profile"),
                   "trace": [{"op": st["op"]} for st in sc["trace"]]}, f)
        tmp = f.name
    try:
        rc, out = common.run_harness("conn", ["--replay", tmp], timeout=300)
    finally:
        os.unlink(tmp)
    scs, _ = sendflow.load_scenarios(out)
    if not scs:
        print("VIOLATION property=%s replay=%s" % (prop, path))
        print("the harness did not finish the replay (crash, abort or hang inside the library):\n" + out[-1500:])
        return 1
    rep = _Collector(prop)
    orc(rep, scs)
    for a in rep.knowns:
        print("KNOWN-FINDING: property=%s %s" % (prop, " ".join(str(x) for x in a)))
    if rep.violations:
        for kind, payload in rep.violations[:3]:
            print(json.dumps({k: v for k, v in payload.items() if k != "scenario"}, indent=1)[:3000])
        print("VIOLATION property=%s replay=%s" % (prop, path))
        return 1
    print("replay %s: %d steps run on the current tree, the oracles of %s do not object" % (path, sum(len(s["trace"]) for s in scs), prop))
    return 0
