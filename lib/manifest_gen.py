#!/usr/bin/env python3
"""Regenerate MANIFEST.json from the table below (keeps it valid at all times)."""
import json, os
V = os.path.dirname(os.path.dirname(os.path.abspath(__file__)))
props = [json.loads(l) for l in open(os.path.join(V, "properties.jsonl"))]

LC = "Trusted: Coq kernel + vm_compute; Ref/Rfc9113Stream.v as the reading of RFC 9113 5.1; the state facade hooks (feature verif-hooks); the independent frame parser/writer of the harness. PARTIAL: proved for the per-stream state machine (every state, every method, every argument); the callers (which method runs for which frame/API call), queues, emission order and wake-ups are NOT proved: they are explored on the real crate by deterministic connection scripts judged by a hook-independent wire/API oracle; that part is a search, not a theorem."

CLAIMED = {
 "C02": dict(technique="Coq proof: invariant by induction over labels + refinement to RFC 9113 6.9 accountant; lock-step correspondence of the Gallina model with /repo",
   text="Machine-checked theorems (Coq 8.16, closed under the global context) about an executable Gallina model of h2's send-side flow control: every label sequence (all send/reserve/reset/WINDOW_UPDATE/SETTINGS histories, all scheduling orders, all stream-state histories) is accepted by a wire-level RFC 9113 6.9 accountant; no flow-control assert can fire. The model is tied to /repo on every run by a lock-step check (hook events of the real crate replayed through the model inside Coq, pre-state/outputs/final snapshot compared) and a hook-independent wire ledger run on the bytes the real endpoint wrote.",
   note="Trusted: Coq kernel + vm_compute; Ref/Accountant.v as the reading of RFC 9113 6.9; hook events (feature verif-hooks) report arguments faithfully; harness/generator quality bounds the correspondence. Proved for histories without a model-level connection error; stream-state machine and queue order are universally quantified observed inputs, guards (Stuck) checked at run time.", design="5/C02"),
 "C16": dict(technique="Coq proof: conservation invariant (assigned + unassigned = window) and refinement to the wire accountant; lock-step correspondence",
   text="Machine-checked theorems about the same Gallina model as C02: reported capacity <= assigned <= remaining wire credit of the stream, total assigned <= remaining connection credit, exact conservation of capacity across reserve/send/reset/SETTINGS while no connection error occurs (inequality afterwards), poll_capacity never yields 0. Tied to /repo by the lock-step (incl. capacity()/poll_capacity results and wake/notify events) and by a conservation oracle on the statistics snapshot after every step.",
   note="Trusted as C02. Not proved: same-step wake-up of a parked poll_capacity task and FIFO redistribution order (explored by the lock-step only).", design="5/C16"),
 "C05": dict(technique="Coq proof: counter invariants by induction over calls into counts.rs; lock-step correspondence; wire/snapshot oracles",
   text="Machine-checked theorems about an executable Gallina model of counts.rs: for every sequence of calls (all limits incl. 0/1/unlimited and mid-connection SETTINGS changes, all stream-state histories as universally quantified inputs) a local stream is admitted only below the limit in force, the counted peer-initiated streams never exceed the advertised limit, transition_after gives a closed stream's slot back exactly once, counters equal the number of counted records, no assert of counts.rs fires. Tied to /repo by a lock-step on every counts.rs call (ten counters, is_counted flag, every can_inc_* result compared inside Coq) plus oracles on real traces: wire-level concurrency vs the peer's acknowledged limit, REFUSED_STREAM never accepted, no closed-and-flushed record still counted after any step.",
   note="Trusted as C02. The callers' query-then-increment discipline is a Stuck guard checked by the lock-step (it exposed the push-promise panic repaired in /repo). Not proved: that every closing path reaches transition_after, and progress of queued requests — explored by the oracles only.", design="5/C05"),
 "C11": dict(technique="Coq proof: Huffman table-walk decoder = RFC 7541 bit-level decoder on every input (induction + finite cell sweep); generated tables = RFC tables; differential run vs hpack::huffman",
   text="Machine-checked: the regenerated ENCODE/DECODE tables of /repo equal the RFC 7541 Appendix B code; the model of h2's table-driven Huffman decoder agrees with the RFC bit-level reference on EVERY byte string (so EOS in the string, padding > 7 bits and non-EOS padding are rejected), decode(encode s) = s for all s. The models are tied to /repo by regenerating the tables on every run and by differential runs of hpack::huffman::{encode,decode} against the model evaluated inside Coq. The header-block decoder (integers, representations, dynamic table, chunk independence) is being added to this check; until then that part of C11 is covered only by the statement in DESIGN.md.",
   note="Trusted: Coq kernel, the transcription of RFC 7541 Appendix B in Ref/Rfc7541HuffTable.v (taken from the RFC text embedded in /repo/util/genhuff), translator for the tables. http-crate validators are predicates.", design="5/C11"),
 "C03": dict(technique="Coq proof: receive-window conservation invariant by induction over recv.rs labels + ledger theorems; lock-step correspondence; wire/snapshot oracles",
   text="Machine-checked theorems about an executable Gallina model of h2's receive-side flow control (recv.rs/flow_control.rs: recv_data exits, release_capacity, clear queue, release_closed, set_target_connection_window, SETTINGS_INITIAL_WINDOW_SIZE changes, WINDOW_UPDATE emission): for every label sequence the invariant 'advertised = window + in-flight (+ pending), connection level and per stream' is preserved, the advertised window never exceeds what the peer may legally assume, releasing everything restores the full window, and no flow-control assert/overflow fires. Tied to /repo by a lock-step over the hook events of recv.rs (pre-state and outputs compared inside Coq), a wire ledger on the bytes written, and snapshot oracles; the repaired window stall (fix 6962309) is replayed from the corpus on every run.",
   note="Trusted as C02. Stream-level conservation is proved for records whose RecvStream handle is alive; after the handle is dropped the code stops maintaining the stream ledger (known finding KF-C03-1). Which exit a DATA frame takes where it depends on content-length/state is an observed input; teardown is outside the lock-step.", design="5/C03"),
 "C13": dict(technique="Coq proof: the message checks of h2 (model of frame/headers.rs load_hpack, recv_headers/recv_trailers/recv_data length accounting, server/client convert_poll_message, send check_headers) refine the RFC 9113 section 8 malformedness predicate; differential correspondence; reference oracle",
   text="Machine-checked theorems: whatever field list the decoder yields, the model hands a request/response/interim response/pushed request/trailers to the application only if the RFC 9113 8.x reference predicate does not flag it (except three explicitly characterised known classes, each with a refutation lemma and a witness), the content-length ledger ends cleanly iff the DATA octets equal the declared length, and the send API model emits no block with connection-specific fields. Tied to /repo by running the real endpoint against a scripted raw peer on a corpus, structured mostly-valid messages with injected defects, and random field lists, comparing byte-exactly everything handed to the application and every RST_STREAM/GOAWAY with the model evaluated inside Coq, plus the reference predicate as oracle.",
   note="Trusted as C02 plus Ref/Rfc9113Http.v as the reading of RFC 9113 8.x; http-crate validators are universally quantified booleans or modelled predicates (HttpTokens.v). Eight genuine defects found this way were repaired in /repo (fix: commits); KF-C13-1..3 remain as known findings.", design="5/C13"),
 "C04": dict(technique="Coq proof: state.rs transition function refines the RFC 9113 5.1 automaton (send side); differential correspondence with state.rs; wire-level sender oracle on real connection scripts",
   text="Machine-checked theorems about an executable model of proto/streams/state.rs: every accepted send-side transition is one RFC 9113 figure 2 permits, nothing can be sent after END_STREAM or after a reset (closed is absorbing, the recorded cause never changes), only send_open leaves idle, a state that reports is_send_streaming is one in which the RFC lets DATA be sent. Tied to /repo by running every (state, method, argument) combination and random walks on the real State via a test facade and comparing with the model inside Coq. The connection-level part (frames actually written per stream, order, DATA after END_STREAM, frames on idle/closed streams) is judged by a hook-independent oracle over the bytes the real endpoint writes under thousands of generated scripts.",
   note=LC, design="5/C04"),
 "C09": dict(technique="Coq proof: state.rs receive transitions vs RFC 9113 5.1 (accept what is required, refuse what is forbidden, with the required error class); differential correspondence; wire-level reaction/tolerance oracles",
   text="Machine-checked theorems about the model of state.rs: recv_open/recv_close/recv_reset accept exactly the transitions RFC 9113 5.1 permits and refuse the forbidden ones with a connection error, a locally reset stream is flagged so that late frames are tolerated, is_local_error is true exactly for locally caused closure. Tied to /repo as C04. How the endpoint reacts on the wire to frames on idle/half-closed/closed/reset streams (STREAM_CLOSED vs PROTOCOL_ERROR, stream vs connection error, tolerance window after its own RST_STREAM) is judged by oracles on real connection scripts.",
   note=LC, design="5/C09"),
 "C17": dict(technique="Coq proof: every error-recording transition of state.rs stores reason, initiator and debug data intact and the first cause wins; differential correspondence; API-surface oracle on real connection scripts",
   text="Machine-checked theorems about the model of state.rs: recv_reset, handle_error, recv_go_away/recv_eof, set_reset and set_scheduled_reset record exactly the code/initiator/debug data they were given, ensure_recv_open/ensure_reason/poll_reset's view return that cause afterwards, the cause persists over every later transition and an earlier cause is never overwritten. Tied to /repo as C04. That the code reaching the application (poll_reset, body errors, send errors, connection error) is the one on the wire is judged by an oracle over real connection scripts.",
   note=LC, design="5/C17"),
 "C07": dict(technique="Coq proof: connection end closes every stream state for good and a completely received message keeps its clean end; differential correspondence; ending oracle on real connection scripts",
   text="Machine-checked theorems about the model of state.rs: handle_error/recv_eof/go_away close every state, closed is absorbing, no closed state reports a pending condition, a message whose END_STREAM was received keeps ending cleanly after the connection ends (repaired in /repo by fix 804dd22; C07_state_fix_needed shows the old behaviour violates it). Tied to /repo as C04. That every handle operation of every stream resolves (never stays Pending) once the connection has ended is judged by an oracle over real connection scripts which drops the connection and polls every handle; one known finding (KF-C07-1: poll_reset on a cleanly completed stream stays Pending).",
   note=LC, design="5/C07"),
}

NA_REASON = "check not built yet (work in progress in this round; will be claimed once its theorem and correspondence run end to end)"

checks = []
for p in props:
    pid = p["id"]
    if pid in CLAIMED:
        c = CLAIMED[pid]
        checks.append({
            "property_id": pid,
            "quick_cmd": "./check %s --tier quick" % pid,
            "thorough_cmd": "./check %s --tier thorough" % pid,
            "evidence_file": "/verif/evidence/%s.json" % pid,
            "replay_cmd_template": "./check %s --replay {path}" % pid,
            "engine": "coq+harness",
            "level_claimed": {"category": "proof", "text": c["text"], "design_ref": c["design"]},
            "level_note": c["note"],
            "technique": c["technique"],
        })
m = {
 "version": 1,
 "setup_cmd": "./setup.sh",
 "hooks": {"guard": "cargo feature verif-hooks (implies unstable)",
           "enable": "h2 = { path = \"/repo\", features = [\"unstable\", \"verif-hooks\"] } in /verif/harness/Cargo.toml",
           "baseline_off_cmd": "cd /repo && cargo nextest run --workspace --no-fail-fast --tool-config-file pb:/w/lib/nextest.toml --profile pb --test-threads 8 --offline",
           "source_commits": [l.split()[0] for l in os.popen("git -C /repo log --format='%h %s' | grep verif-hooks").read().splitlines()],
           "add_only": True},
 "engines": [
   {"name": "coq", "path": "coq", "serves_properties": sorted(CLAIMED), "kind_free_text": "Coq 8.16.1 development: Gallina model of h2, RFC reference specs, theorems (Properties/*.v)"},
   {"name": "harness", "path": "harness", "serves_properties": sorted(CLAIMED), "kind_free_text": "Rust correspondence harness driving /repo (features unstable,verif-hooks): deterministic driver, scripted transport and peer, unit-level codec runners"},
   {"name": "translator", "path": "translator", "serves_properties": sorted(CLAIMED), "kind_free_text": "regenerates coq/Gen/*.v (tables, constants) from /repo's working tree on every run"}],
 "checks": checks,
 "notes": "See DESIGN.md. Every check: translator -> make Properties/<id>.vo -> forbidden-construct grep on the dependency closure -> Print Assumptions audit -> lock-step correspondence (model evaluated inside Coq) -> property oracle on implementation traces -> evidence.",
 "not_applicable": [{"property_id": p["id"], "reason": NA_REASON} for p in props if p["id"] not in CLAIMED],
}
json.dump(m, open(os.path.join(V, "MANIFEST.json"), "w"), indent=1)
print("claimed", sorted(CLAIMED))
