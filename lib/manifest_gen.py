#!/usr/bin/env python3
"""Regenerate MANIFEST.json from the table below (keeps it valid at all times)."""
import json, os
V = os.path.dirname(os.path.dirname(os.path.abspath(__file__)))
props = [json.loads(l) for l in open(os.path.join(V, "properties.jsonl"))]

LC = "Trusted: Coq kernel + vm_compute; Ref/Rfc9113Stream.v as the reading of RFC 9113 5.1; the state facade hooks (feature verif-hooks); the independent frame parser/writer of the harness. PARTIAL: proved for the per-stream state machine (every state, every method, every argument); the callers (which method runs for which frame/API call), queues, emission order and wake-ups are NOT proved: they are explored on the real crate by deterministic connection scripts judged by a hook-independent wire/API oracle; that part is a search, not a theorem."

CLAIMED = {
 "C02": dict(technique="Coq proof: invariant by induction over labels + refinement to RFC 9113 6.9 accountant; lock-step correspondence of the Gallina model with /repo",
   text="Machine-checked theorems (Coq 8.16, closed under the global context) about an executable Gallina model of h2's send-side flow control: every label sequence (all send/reserve/reset/WINDOW_UPDATE/SETTINGS histories, all scheduling orders, all stream-state histories) is accepted by a wire-level RFC 9113 6.9 accountant; no flow-control assert can fire. The model is tied to /repo on every run by a lock-step check (hook events of the real crate replayed through the model inside Coq, pre-state/outputs/final snapshot compared) and a hook-independent wire ledger run on the bytes the real endpoint wrote.",
   note="Trusted: Coq kernel + vm_compute; Ref/Accountant.v as the reading of RFC 9113 6.9; hook events (feature verif-hooks) report arguments faithfully; harness/generator quality bounds the correspondence. Proved for histories without a model-level connection error; stream-state machine and queue order are universally quantified observed inputs, guards (Stuck) checked at run time.", design="5/C02"),
 "C16": dict(technique="Coq proof: conservation invariant (assigned + unassigned = window) and refinement to the wire accountant; lock-step correspondence",
   text="Machine-checked theorems about the same Gallina model as C02: reported capacity <= assigned <= remaining wire credit of the stream, total assigned <= remaining connection credit, exact conservation of capacity across reserve/send/reset/SETTINGS while no connection error occurs (inequality afterwards), poll_capacity never yields 0. Tied to /repo by the lock-step (incl. capacity()/poll_capacity results and wake/notify events) and by a conservation oracle on the statistics snapshot after every step.",
   note="Trusted as C02. Not proved: same-step wake-up of a parked poll_capacity task and FIFO redistribution order (explored by the lock-step only).", design="5/C16"),
 "C05": dict(technique="Coq proof: counter invariants by induction over calls into counts.rs; lock-step correspondence; wire/snapshot oracles",
   text="Machine-checked theorems about an executable Gallina model of counts.rs: for every sequence of calls (all limits incl. 0/1/unlimited and mid-connection SETTINGS changes, all stream-state histories as universally quantified inputs) a local stream is admitted only below the limit in force, the counted peer-initiated streams never exceed the advertised limit, transition_after gives a closed stream's slot back exactly once, counters equal the number of counted records, no assert of counts.rs fires. Tied to /repo by a lock-step on every counts.rs call (ten counters, is_counted flag, every can_inc_* result compared inside Coq) plus oracles on real traces: wire-level concurrency vs the peer's acknowledged limit, REFUSED_STREAM never accepted, no closed-and-flushed record still counted after any step.",
   note="Trusted as C02. The callers' query-then-increment discipline is a Stuck guard checked by the lock-step (it exposed the push-promise panic repaired in /repo). Not proved: that every closing path reaches transition_after, and progress of queued requests — explored by the oracles only.", design="5/C05"),
 "C11": dict(technique="Coq proof: Huffman decoder = RFC 7541 bit-level decoder on every input; header-block decoder (prefix integers, all representations, dynamic table, size updates) sound and complete w.r.t. an RFC 7541 reference relation, independent of fragmentation; generated tables = RFC tables; differential runs vs hpack::huffman and hpack::Decoder",
   text="Machine-checked: the regenerated Huffman ENCODE/DECODE tables and the static table of /repo equal RFC 7541 Appendices A/B; the model of h2's table-driven Huffman decoder agrees with the RFC bit-level reference on EVERY byte string; the model of hpack::Decoder::decode (integer decoding with h2's 4-continuation-octet limit, indexed/literal/size-update representations, eviction, size accounting) accepts a block only if the RFC reference relation derives the same field list and table (soundness), accepts every block the reference accepts whose fields pass the http validators (completeness), keeps the table within the largest advertised limit after every history, never runs out of fuel, and gives the same result for every fragmentation of a block, each except two exactly characterised known classes (KF-C11-1, KF-C11-3) that come with refutation lemmas and concrete witnesses. Tied to /repo by regenerating tables/constants on every run and by differential histories (valid, mutated, random, the hpack-test-case fixture stories, an integer sweep) run on the real decoder and on the model inside Coq, plus an RFC reference oracle.",
   note="Trusted: Coq kernel, the transcriptions of RFC 7541 in Ref/Rfc7541*.v, translator for tables/constants. http-crate validators (HeaderName/HeaderValue/Method/StatusCode) are modelled predicates tied by correspondence only. Soundness/completeness assume octet inputs.", design="5/C11"),
 "C14": dict(technique="Coq proof: invariants by induction over control-plane labels (settings.rs, ping_pong.rs, go_away.rs, Connection::poll2 order); lock-step correspondence; wire oracle",
   text="Machine-checked theorems about an executable Gallina model of h2's control plane for every label sequence and every observed input: every SETTINGS frame taken is acknowledged exactly once and every PING is answered once with its payload, in order; the order goaway -> pong -> ping -> ack -> local settings inside one poll2 iteration is what makes the single-slot asserts unreachable (no SPanic for any sequence); remote settings take effect exactly at the moment the ACK is emitted, local settings exactly when the peer's ACK arrives, a stray ACK is a PROTOCOL_ERROR connection error and nothing else changes; the user-ping cell never loses a state under any interleaving of its atomic operations. Tied to /repo by a lock-step over hook events of settings.rs/ping_pong.rs/go_away.rs/connection.rs evaluated inside Coq (pre-state and outputs), and frame-by-frame comparison of emissions with the wire.",
   note="Trusted as C02. What apply_remote_settings/apply_local_settings enforce in the stream layer is an output of this model (covered by C02/C03/C05); waker behaviour is outputs only; traces depend on timers (reset expiry) so replays are by op list.", design="5/C14"),
 "C15": dict(technique="Coq proof: GOAWAY log monotone, graceful-shutdown state machine, idle close; lock-step correspondence; wire oracle; one known class with refutation lemma",
   text="Machine-checked theorems about the same control-plane model: the last-stream ids of the GOAWAY frames an endpoint emits never increase and each covers every stream processed before it; HEADERS above the announced id are ignored; a peer GOAWAY with an increased id is refused; graceful shutdown sends GOAWAY(2^31-1)+PING, then on the PONG the final GOAWAY and lowers the accept bound in the same step, and closes once idle (except known class KF-C15-1: last id = 2^31-1, with refutation lemma); close_now closes; take_error reports the peer's reason. Tied to /repo as C14; corpus replays of the three repaired defects (push after GOAWAY, GOAWAY with queued PUSH_PROMISE, user reset resurfacing) and of KF-C15-1 run first on every check.",
   note="Trusted as C02. 'Streams above the peer's last id fail with its reason / streams below run to completion' is an output (OStreamsGoAway) explored by the wire oracle, not proved.", design="5/C15"),
}

NA_REASON = "check not built yet (work in progress in this round; will be claimed once its theorem and correspondence run end to end)"

checks = []
for p in props:
    pid = p["id"]
    if pid in CLAIMED:
        c = CLAIMED[pid]
        checks.append({
            "property_id": pid,
            "quick_cmd": "./check %s --tier quick" % pid,
            "thorough_cmd": "./check %s --tier thorough" % pid,
            "evidence_file": "/verif/evidence/%s.json" % pid,
            "replay_cmd_template": "./check %s --replay {path}" % pid,
            "engine": "coq+harness",
            "level_claimed": {"category": "proof", "text": c["text"], "design_ref": c["design"]},
            "level_note": c["note"],
            "technique": c["technique"],
        })
m = {
 "version": 1,
 "setup_cmd": "./setup.sh",
 "hooks": {"guard": "cargo feature verif-hooks (implies unstable)",
           "enable": "h2 = { path = \"/repo\", features = [\"unstable\", \"verif-hooks\"] } in /verif/harness/Cargo.toml",
           "baseline_off_cmd": "cd /repo && cargo nextest run --workspace --no-fail-fast --tool-config-file pb:/w/lib/nextest.toml --profile pb --test-threads 8 --offline",
           "source_commits": [l.split()[0] for l in os.popen("git -C /repo log --format='%h %s' | grep verif-hooks").read().splitlines()],
           "add_only": True},
 "engines": [
   {"name": "coq", "path": "coq", "serves_properties": sorted(CLAIMED), "kind_free_text": "Coq 8.16.1 development: Gallina model of h2, RFC reference specs, theorems (Properties/*.v)"},
   {"name": "harness", "path": "harness", "serves_properties": sorted(CLAIMED), "kind_free_text": "Rust correspondence harness driving /repo (features unstable,verif-hooks): deterministic driver, scripted transport and peer, unit-level codec runners"},
   {"name": "translator", "path": "translator", "serves_properties": sorted(CLAIMED), "kind_free_text": "regenerates coq/Gen/*.v (tables, constants) from /repo's working tree on every run"}],
 "checks": checks,
 "notes": "See DESIGN.md. Every check: translator -> make Properties/<id>.vo -> forbidden-construct grep on the dependency closure -> Print Assumptions audit -> lock-step correspondence (model evaluated inside Coq) -> property oracle on implementation traces -> evidence.",
 "not_applicable": [{"property_id": p["id"], "reason": NA_REASON} for p in props if p["id"] not in CLAIMED],
}
json.dump(m, open(os.path.join(V, "MANIFEST.json"), "w"), indent=1)
print("claimed", sorted(CLAIMED))
