#!/usr/bin/env python3
"""Regenerate MANIFEST.json from the table below (keeps it valid at all times)."""
import json, os
V = os.path.dirname(os.path.dirname(os.path.abspath(__file__)))
props = [json.loads(l) for l in open(os.path.join(V, "properties.jsonl"))]

CLAIMED = {
 "C02": dict(technique="Coq proof: invariant by induction over labels + refinement to RFC 9113 6.9 accountant; lock-step correspondence of the Gallina model with /repo",
   text="Machine-checked theorems (Coq 8.16, closed under the global context) about an executable Gallina model of h2's send-side flow control: every label sequence (all send/reserve/reset/WINDOW_UPDATE/SETTINGS histories, all scheduling orders, all stream-state histories) is accepted by a wire-level RFC 9113 6.9 accountant; no flow-control assert can fire. The model is tied to /repo on every run by a lock-step check (hook events of the real crate replayed through the model inside Coq, pre-state/outputs/final snapshot compared) and a hook-independent wire ledger run on the bytes the real endpoint wrote.",
   note="Trusted: Coq kernel + vm_compute; Ref/Accountant.v as the reading of RFC 9113 6.9; hook events (feature verif-hooks) report arguments faithfully; harness/generator quality bounds the correspondence. Proved for histories without a model-level connection error; stream-state machine and queue order are universally quantified observed inputs, guards (Stuck) checked at run time.", design="5/C02"),
 "C16": dict(technique="Coq proof: conservation invariant (assigned + unassigned = window) and refinement to the wire accountant; lock-step correspondence",
   text="Machine-checked theorems about the same Gallina model as C02: reported capacity <= assigned <= remaining wire credit of the stream, total assigned <= remaining connection credit, exact conservation of capacity across reserve/send/reset/SETTINGS while no connection error occurs (inequality afterwards), poll_capacity never yields 0. Tied to /repo by the lock-step (incl. capacity()/poll_capacity results and wake/notify events) and by a conservation oracle on the statistics snapshot after every step.",
   note="Trusted as C02. Not proved: same-step wake-up of a parked poll_capacity task and FIFO redistribution order (explored by the lock-step only).", design="5/C16"),
}

NA_REASON = "check not built yet (work in progress in this round; will be claimed once its theorem and correspondence run end to end)"

checks = []
for p in props:
    pid = p["id"]
    if pid in CLAIMED:
        c = CLAIMED[pid]
        checks.append({
            "property_id": pid,
            "quick_cmd": "./check %s --tier quick" % pid,
            "thorough_cmd": "./check %s --tier thorough" % pid,
            "evidence_file": "/verif/evidence/%s.json" % pid,
            "replay_cmd_template": "./check %s --replay {path}" % pid,
            "engine": "coq+harness",
            "level_claimed": {"category": "proof", "text": c["text"], "design_ref": c["design"]},
            "level_note": c["note"],
            "technique": c["technique"],
        })
m = {
 "version": 1,
 "setup_cmd": "./setup.sh",
 "hooks": {"guard": "cargo feature verif-hooks (implies unstable)",
           "enable": "h2 = { path = \"/repo\", features = [\"unstable\", \"verif-hooks\"] } in /verif/harness/Cargo.toml",
           "baseline_off_cmd": "cd /repo && cargo nextest run --workspace --no-fail-fast --tool-config-file pb:/w/lib/nextest.toml --profile pb --test-threads 8 --offline",
           "source_commits": [l.split()[0] for l in os.popen("git -C /repo log --format='%h %s' | grep verif-hooks").read().splitlines()],
           "add_only": True},
 "engines": [
   {"name": "coq", "path": "coq", "serves_properties": sorted(CLAIMED), "kind_free_text": "Coq 8.16.1 development: Gallina model of h2, RFC reference specs, theorems (Properties/*.v)"},
   {"name": "harness", "path": "harness", "serves_properties": sorted(CLAIMED), "kind_free_text": "Rust correspondence harness driving /repo (features unstable,verif-hooks): deterministic driver, scripted transport and peer, unit-level codec runners"},
   {"name": "translator", "path": "translator", "serves_properties": sorted(CLAIMED), "kind_free_text": "regenerates coq/Gen/*.v (tables, constants) from /repo's working tree on every run"}],
 "checks": checks,
 "notes": "See DESIGN.md. Every check: translator -> make Properties/<id>.vo -> forbidden-construct grep on the dependency closure -> Print Assumptions audit -> lock-step correspondence (model evaluated inside Coq) -> property oracle on implementation traces -> evidence.",
 "not_applicable": [{"property_id": p["id"], "reason": NA_REASON} for p in props if p["id"] not in CLAIMED],
}
json.dump(m, open(os.path.join(V, "MANIFEST.json"), "w"), indent=1)
print("claimed", sorted(CLAIMED))
