#!/usr/bin/env python3
"""Regenerate MANIFEST.json from the table below (keeps it valid at all times)."""
import json, os
V = os.path.dirname(os.path.dirname(os.path.abspath(__file__)))
props = [json.loads(l) for l in open(os.path.join(V, "properties.jsonl"))]

CLAIMED = {
 "C02": dict(technique="Coq proof: invariant by induction over labels + refinement to RFC 9113 6.9 accountant; lock-step correspondence of the Gallina model with /repo",
   text="Machine-checked theorems (Coq 8.16, closed under the global context) about an executable Gallina model of h2's send-side flow control: every label sequence (all send/reserve/reset/WINDOW_UPDATE/SETTINGS histories, all scheduling orders, all stream-state histories) is accepted by a wire-level RFC 9113 6.9 accountant; no flow-control assert can fire. The model is tied to /repo on every run by a lock-step check (hook events of the real crate replayed through the model inside Coq, pre-state/outputs/final snapshot compared) and a hook-independent wire ledger run on the bytes the real endpoint wrote.",
   note="Trusted: Coq kernel + vm_compute; Ref/Accountant.v as the reading of RFC 9113 6.9; hook events (feature verif-hooks) report arguments faithfully; harness/generator quality bounds the correspondence. Proved for histories without a model-level connection error; stream-state machine and queue order are universally quantified observed inputs, guards (Stuck) checked at run time.", design="5/C02"),
 "C16": dict(technique="Coq proof: conservation invariant (assigned + unassigned = window) and refinement to the wire accountant; lock-step correspondence",
   text="Machine-checked theorems about the same Gallina model as C02: reported capacity <= assigned <= remaining wire credit of the stream, total assigned <= remaining connection credit, exact conservation of capacity across reserve/send/reset/SETTINGS while no connection error occurs (inequality afterwards), poll_capacity never yields 0. Tied to /repo by the lock-step (incl. capacity()/poll_capacity results and wake/notify events) and by a conservation oracle on the statistics snapshot after every step.",
   note="Trusted as C02. Not proved: same-step wake-up of a parked poll_capacity task and FIFO redistribution order (explored by the lock-step only).", design="5/C16"),
 "C05": dict(technique="Coq proof: counter invariants by induction over calls into counts.rs; lock-step correspondence; wire/snapshot oracles",
   text="Machine-checked theorems about an executable Gallina model of counts.rs: for every sequence of calls (all limits incl. 0/1/unlimited and mid-connection SETTINGS changes, all stream-state histories as universally quantified inputs) a local stream is admitted only below the limit in force, the counted peer-initiated streams never exceed the advertised limit, transition_after gives a closed stream's slot back exactly once, counters equal the number of counted records, no assert of counts.rs fires. Tied to /repo by a lock-step on every counts.rs call (ten counters, is_counted flag, every can_inc_* result compared inside Coq) plus oracles on real traces: wire-level concurrency vs the peer's acknowledged limit, REFUSED_STREAM never accepted, no closed-and-flushed record still counted after any step.",
   note="Trusted as C02. The callers' query-then-increment discipline is a Stuck guard checked by the lock-step (it exposed the push-promise panic repaired in /repo). Not proved: that every closing path reaches transition_after, and progress of queued requests — explored by the oracles only.", design="5/C05"),
 "C11": dict(technique="Coq proof: Huffman table-walk decoder = RFC 7541 bit-level decoder on every input (induction + finite cell sweep); generated tables = RFC tables; differential run vs hpack::huffman",
   text="Machine-checked: the regenerated ENCODE/DECODE tables of /repo equal the RFC 7541 Appendix B code; the model of h2's table-driven Huffman decoder agrees with the RFC bit-level reference on EVERY byte string (so EOS in the string, padding > 7 bits and non-EOS padding are rejected), decode(encode s) = s for all s. The models are tied to /repo by regenerating the tables on every run and by differential runs of hpack::huffman::{encode,decode} against the model evaluated inside Coq. The header-block decoder (integers, representations, dynamic table, chunk independence) is being added to this check; until then that part of C11 is covered only by the statement in DESIGN.md.",
   note="Trusted: Coq kernel, the transcription of RFC 7541 Appendix B in Ref/Rfc7541HuffTable.v (taken from the RFC text embedded in /repo/util/genhuff), translator for the tables. http-crate validators are predicates.", design="5/C11"),
}

NA_REASON = "check not built yet (work in progress in this round; will be claimed once its theorem and correspondence run end to end)"

checks = []
for p in props:
    pid = p["id"]
    if pid in CLAIMED:
        c = CLAIMED[pid]
        checks.append({
            "property_id": pid,
            "quick_cmd": "./check %s --tier quick" % pid,
            "thorough_cmd": "./check %s --tier thorough" % pid,
            "evidence_file": "/verif/evidence/%s.json" % pid,
            "replay_cmd_template": "./check %s --replay {path}" % pid,
            "engine": "coq+harness",
            "level_claimed": {"category": "proof", "text": c["text"], "design_ref": c["design"]},
            "level_note": c["note"],
            "technique": c["technique"],
        })
m = {
 "version": 1,
 "setup_cmd": "./setup.sh",
 "hooks": {"guard": "cargo feature verif-hooks (implies unstable)",
           "enable": "h2 = { path = \"/repo\", features = [\"unstable\", \"verif-hooks\"] } in /verif/harness/Cargo.toml",
           "baseline_off_cmd": "cd /repo && cargo nextest run --workspace --no-fail-fast --tool-config-file pb:/w/lib/nextest.toml --profile pb --test-threads 8 --offline",
           "source_commits": [l.split()[0] for l in os.popen("git -C /repo log --format='%h %s' | grep verif-hooks").read().splitlines()],
           "add_only": True},
 "engines": [
   {"name": "coq", "path": "coq", "serves_properties": sorted(CLAIMED), "kind_free_text": "Coq 8.16.1 development: Gallina model of h2, RFC reference specs, theorems (Properties/*.v)"},
   {"name": "harness", "path": "harness", "serves_properties": sorted(CLAIMED), "kind_free_text": "Rust correspondence harness driving /repo (features unstable,verif-hooks): deterministic driver, scripted transport and peer, unit-level codec runners"},
   {"name": "translator", "path": "translator", "serves_properties": sorted(CLAIMED), "kind_free_text": "regenerates coq/Gen/*.v (tables, constants) from /repo's working tree on every run"}],
 "checks": checks,
 "notes": "See DESIGN.md. Every check: translator -> make Properties/<id>.vo -> forbidden-construct grep on the dependency closure -> Print Assumptions audit -> lock-step correspondence (model evaluated inside Coq) -> property oracle on implementation traces -> evidence.",
 "not_applicable": [{"property_id": p["id"], "reason": NA_REASON} for p in props if p["id"] not in CLAIMED],
}
json.dump(m, open(os.path.join(V, "MANIFEST.json"), "w"), indent=1)
print("claimed", sorted(CLAIMED))
