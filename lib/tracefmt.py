#!/usr/bin/env python3
"""Pretty-print conn traces (debug aid): python3 lib/tracefmt.py file [index]"""
import json, sys
def fmt(o):
    print("cfg", {k:v for k,v in o['cfg'].items() if v not in (None,[])})
    for st in o['trace']:
        op=dict(st['op']); name=op.pop('op'); op.pop('bytes',None)
        outs=[ (f['t'],f.get('sid'),{k:v for k,v in f.items() if k in('len','eos','inc','code','ack','last','params')}) for f in st['out']]
        print(st['i'],name,op,'->',st['res'], 'OUT',outs if outs else '', 'W',st['wakes'] if st['wakes'] else '', 'EV',[e[0] for e in st['ev']] if st['ev'] else '')
if __name__=="__main__":
    lines=[json.loads(l) for l in open(sys.argv[1])]
    lines=[l for l in lines if 'trace' in l]
    idx=int(sys.argv[2]) if len(sys.argv)>2 else 0
    fmt(lines[idx])
