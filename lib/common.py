"""Shared machinery of the /verif checks.

A check (`./check Cxx --tier quick|thorough`) does, in this order:
  1. translator: regenerate coq/Gen/*.v from /repo's working tree;
  2. proof obligations: `make` the property's .vo (re-checks every theorem that depends on a
     regenerated file), forbidden-construct grep, `Print Assumptions` audit against the allow-list;
  3. correspondence: build the harness against /repo's working tree (hook feature on), run the
     implementation on generated inputs, evaluate the model's executable definitions on the same
     inputs inside Coq (`vm_compute`) and compare;
  4. oracle: the boolean form of the property run directly on implementation behaviour
     (used to *search* for a failing input when 2 or 3 breaks, and always run as a cheap extra);
  5. verdict + evidence file.
"""
import concurrent.futures as cf
import hashlib
import json
import os
import re
import shutil
import subprocess
import sys
import time

VERIF = os.path.dirname(os.path.dirname(os.path.abspath(__file__)))
REPO = os.environ.get("H2_REPO", "/repo")
COQ = os.path.join(VERIF, "coq")
BUILD = os.path.join(VERIF, ".build")
# per process: several checks may run at the same time (different properties share case tags such as "dispatch" or "sendflow")
CASES = os.path.join(BUILD, "cases", "p%d" % os.getpid())


def _cleanup_cases():
    import shutil as _sh
    _sh.rmtree(CASES, ignore_errors=True)


import atexit as _atexit
_atexit.register(_cleanup_cases)
REPLAYS = os.path.join(VERIF, "replays")
EVIDENCE = os.path.join(VERIF, "evidence")
HARNESS = os.path.join(VERIF, "harness")
NPROC = 16

ALLOWED_AXIOMS = set()  # target: every property theorem is closed under the global context

FORBIDDEN = re.compile(
    r"\b(Admitted|admit|Axiom|Axioms|Parameter|Parameters|Conjecture|Conjectures|Hypothesis|Hypotheses|Variable|Variables"
    r"|Unset\s+Guard|bypass_check|type-in-type|impredicative-set|Admit\s+Obligations|native_compute)\b")


def sh(cmd, cwd=None, timeout=None, env=None, input=None):
    e = dict(os.environ)
    e.setdefault("CARGO_NET_OFFLINE", "true")
    if env:
        e.update(env)
    t0 = time.time()
    try:
        p = subprocess.run(cmd, cwd=cwd, shell=isinstance(cmd, str), stdout=subprocess.PIPE,
                           stderr=subprocess.STDOUT, timeout=timeout, env=e, input=input)
        out = p.stdout.decode("utf-8", "replace")
        rc = p.returncode
    except subprocess.TimeoutExpired as ex:
        out = (ex.stdout or b"").decode("utf-8", "replace") + "\n[timeout after %ss]" % timeout
        rc = 124
    return rc, out, time.time() - t0


# ----------------------------------------------------------------------------------------------
# translator + Coq build

def regen():
    """Run the translator; returns dict of changed Gen files (or raises with the message)."""
    rc, out, _ = sh([sys.executable, os.path.join(VERIF, "translator", "gen.py")], timeout=300,
                    env={"H2_REPO": REPO})
    if rc != 0:
        return {"ok": False, "log": out}
    try:
        info = json.loads(out.strip().splitlines()[-1])
    except Exception:
        return {"ok": False, "log": out}
    rc, out2, _ = sh(["sh", os.path.join(COQ, "files.sh")], timeout=120)
    if rc != 0:
        return {"ok": False, "log": out2}
    info["ok"] = True
    return info


def coq_make(targets, timeout=1500):
    """Build .vo targets (paths relative to coq/). Returns (ok, log, failing_file)."""
    rc, out, dt = sh(["make", "-j%d" % NPROC, "-k"] + list(targets), cwd=COQ, timeout=timeout)
    failing = None
    if rc != 0:
        m = re.search(r'File "\./([^"]+)", line (\d+)', out)
        if m:
            failing = "%s:%s" % (m.group(1), m.group(2))
        else:
            m = re.search(r"\*\*\* \[[^\]]*?: ([^\]]+\.vo)\]", out)
            failing = m.group(1) if m else "unknown"
    return rc == 0, out, failing


def coq_deps(targets):
    """Transitive .v dependencies (inside coq/) of the given .vo targets, from coq_makefile's .Makefile.d"""
    depfile = os.path.join(COQ, ".Makefile.d")
    graph = {}
    if os.path.exists(depfile):
        with open(depfile) as f:
            text = f.read().replace("\\\n", " ")
        for line in text.splitlines():
            if ":" not in line:
                continue
            lhs, rhs = line.split(":", 1)
            outs = [x for x in lhs.split() if x.endswith(".vo")]
            deps = [x for x in rhs.split() if x.endswith(".vo") and not x.startswith("/")]
            for o in outs:
                graph.setdefault(o, set()).update(deps)
    seen = set()
    todo = list(targets)
    while todo:
        t = todo.pop()
        if t in seen:
            continue
        seen.add(t)
        todo.extend(graph.get(t, ()))
    return sorted(x[:-1] for x in seen)   # .vo -> .v


def grep_forbidden(targets=None):
    """Return list of (file, line, text) of forbidden constructs in the files the targets depend on
    (all of coq/ when targets is None).  Comments are stripped first."""
    hits = []
    if targets is None:
        files = []
        for root, _, fs in os.walk(COQ):
            files.extend(os.path.relpath(os.path.join(root, fn), COQ) for fn in fs if fn.endswith(".v"))
    else:
        files = coq_deps(targets)
    for rel in files:
        p = os.path.join(COQ, rel)
        if not os.path.exists(p):
            continue
        with open(p, errors="replace") as f:
            text = strip_coq_comments(f.read())
        for i, line in enumerate(text.splitlines(), 1):
            if FORBIDDEN.search(line):
                hits.append((rel, i, line.strip()))
    return hits


def strip_coq_comments(s):
    out = []
    depth = 0
    i = 0
    n = len(s)
    instr = False
    while i < n:
        if depth == 0 and s[i] == '"':
            instr = not instr
            out.append(s[i]); i += 1; continue
        if not instr and s.startswith("(*", i):
            depth += 1; i += 2; continue
        if not instr and depth > 0 and s.startswith("*)", i):
            depth -= 1; i += 2; continue
        if depth == 0:
            out.append(s[i])
        elif s[i] == "\n":
            out.append("\n")
        i += 1
    return "".join(out)


def audit_assumptions(module, theorems, pins=None):
    """Print Assumptions for each theorem of a compiled module.  Returns
    (ok, {theorem: [axioms]}, log).  `pins` optionally maps theorem -> statement text that is
    re-checked with `Check (thm : stmt)` so statements cannot be silently weakened."""
    os.makedirs(CASES, exist_ok=True)
    name = "Audit_" + module.replace(".", "_")
    path = os.path.join(CASES, name + ".v")
    lines = ["Require Import %s." % module]
    for t in theorems:
        lines.append('Goal True. idtac "@@BEGIN %s". Abort.' % t)
        lines.append("Print Assumptions %s." % t)
        lines.append('Goal True. idtac "@@END %s". Abort.' % t)
    with open(path, "w") as f:
        f.write("\n".join(lines) + "\n")
    rc, out, _ = sh(["coqc", "-noglob", "-Q", COQ, "H2V", path], cwd=CASES, timeout=600)
    res = {}
    ok = rc == 0
    for t in theorems:
        m = re.search(r"@@BEGIN %s\n(.*?)@@END %s" % (re.escape(t), re.escape(t)), out, re.S)
        if not m:
            res[t] = ["<no output>"]
            ok = False
            continue
        body = m.group(1).strip()
        if body.startswith("Closed under the global context"):
            res[t] = []
        else:
            axs = re.findall(r"^([A-Za-z_][\w.']*)\s*:", body, re.M)
            res[t] = axs or [body[:200]]
            for a in axs or ["?"]:
                if a not in ALLOWED_AXIOMS:
                    ok = False
    return ok, res, out


# ----------------------------------------------------------------------------------------------
# harness

_harness_built = {}


def cargo_build(binname, profile="debug", timeout=1500):
    """Build one harness binary (src/bin/<binname>.rs) against /repo's current working tree."""
    key = (binname, profile)
    if key in _harness_built:
        return _harness_built[key]
    cmd = ["cargo", "build", "--offline", "--quiet", "--bin", binname] + (["--release"] if profile == "release" else [])
    rc, out, dt = sh(cmd, cwd=HARNESS, timeout=timeout, env={"CARGO_NET_OFFLINE": "true"})
    binp = os.path.join(BUILD, "cargo", profile, binname)
    res = (rc == 0 and os.path.exists(binp), binp, out)
    _harness_built[key] = res
    return res


def run_harness(binname, args, profile="debug", timeout=600, input=None):
    """Returns (rc, stdout+stderr).  Raises HarnessBuildError when the binary does not build."""
    ok, binp, log = cargo_build(binname, profile)
    if not ok:
        raise HarnessBuildError(log)
    rc, out, dt = sh([binp] + [str(a) for a in args], timeout=timeout, input=input,
                     env={"RUST_BACKTRACE": "0"})
    return rc, out


class HarnessBuildError(Exception):
    pass


# ----------------------------------------------------------------------------------------------
# evaluating the model inside Coq on harness cases

def coq_list(items):
    return "[" + "; ".join(items) + "]"


def coq_N_list(xs):
    return "[" + "; ".join(str(int(x)) for x in xs) + "]"


def coq_bool(b):
    return "true" if b else "false"


def coq_opt(x, f=str):
    return "None" if x is None else "(Some %s)" % f(x)


def coq_eval_failing(tag, preamble, check_fn, cases, shard=250, timeout=900):
    """`cases` is a list of Coq terms (strings).  For each shard writes a file
         <preamble>  Definition cases := [...].  Eval vm_compute in (failing check_fn cases).
       runs coqc in parallel, and returns (failing_indices, error_log or None)."""
    d = os.path.join(CASES, tag)
    shutil.rmtree(d, ignore_errors=True)
    os.makedirs(d, exist_ok=True)
    jobs = []
    # the callers' shard sizes suit the quick tier; for thousands of cases keep the number of coqc start-ups bounded
    shard = max(shard, -(-len(cases) // (NPROC * 8)))
    for si in range(0, len(cases), shard):
        chunk = cases[si:si + shard]
        fn = os.path.join(d, "cases_%s_%d.v" % (re.sub(r"\W", "_", tag), si // shard))
        with open(fn, "w") as f:
            f.write(preamble + "\n")
            f.write("Definition the_cases := [\n  " + ";\n  ".join(chunk) + "\n].\n")
            f.write('Goal True. idtac "@@RESULT". Abort.\n')
            f.write("Eval vm_compute in (H2V.Base.Bytes.failing (%s) the_cases).\n" % check_fn)
        jobs.append((si, fn))

    def run(job):
        si, fn = job
        rc, out, dt = sh(["coqc", "-noglob", "-Q", COQ, "H2V", fn], cwd=d, timeout=timeout)
        return si, rc, out

    failing = []
    err = None
    with cf.ThreadPoolExecutor(max_workers=NPROC) as ex:
        for si, rc, out in ex.map(run, jobs):
            if rc != 0 or "@@RESULT" not in out:
                err = (err or "") + out[-3000:]
                continue
            body = out.split("@@RESULT", 1)[1]
            m = re.search(r"=\s*\[(.*?)\]\s*:\s*list N", body.replace("\n", " "), re.S)
            if not m:
                err = (err or "") + "unparsed: " + body[-1000:]
                continue
            for tok in re.findall(r"\d+", m.group(1)):
                failing.append(si + int(tok))
    return sorted(failing), err


def coq_eval_raw(tag, text, timeout=900):
    """Run one file of Coq commands, return (rc, output)."""
    d = os.path.join(CASES, tag)
    os.makedirs(d, exist_ok=True)
    fn = os.path.join(d, re.sub(r"\W", "_", tag) + "_raw.v")
    with open(fn, "w") as f:
        f.write(text)
    rc, out, dt = sh(["coqc", "-noglob", "-Q", COQ, "H2V", fn], cwd=d, timeout=timeout)
    return rc, out


# ----------------------------------------------------------------------------------------------
# verdicts, replays, evidence, known findings

def load_known_findings():
    p = os.path.join(VERIF, "known_findings.json")
    if not os.path.exists(p):
        return {"known": [], "fixed": []}
    with open(p) as f:
        return json.load(f)


def write_replay(prop, kind, payload):
    os.makedirs(REPLAYS, exist_ok=True)
    body = {"property": prop, "kind": kind}
    body.update(payload)
    h = hashlib.sha1(json.dumps(body, sort_keys=True, default=str).encode()).hexdigest()[:12]
    p = os.path.join(REPLAYS, "%s_%s_%s.json" % (prop, kind, h))
    with open(p, "w") as f:
        json.dump(body, f, indent=1, default=str)
    return p


class Report:
    """Collects what a check did; prints verdict lines; writes the evidence file."""

    def __init__(self, prop, tier, seed):
        self.prop = prop
        self.tier = tier
        self.seed = seed
        self.t0 = time.time()
        self.obligations = []       # (name, discharged: bool)
        self.correspondences = []   # dict(name, cases, disagreements, distribution)
        self.oracle_runs = []       # dict(name, cases, nontrivial, failures)
        self.violations = []        # (replay_path, note)
        self.known_hits = []        # strings
        self.samples = []
        self.assumptions = []
        self.trusted = []
        self.extra = {}
        self.partial = []
        self.checker_cmd = ""

    def obligation(self, name, ok):
        self.obligations.append((name, bool(ok)))

    def violation(self, kind, payload, no_input=False):
        path = write_replay(self.prop, kind, payload)
        self.violations.append((path, no_input))

    def known(self, text):
        if text not in self.known_hits:
            self.known_hits.append(text)

    def finish(self):
        wall = time.time() - self.t0
        n_obl = len(self.obligations)
        n_dis = sum(1 for _, ok in self.obligations if ok)
        evals = sum(c.get("cases", 0) for c in self.correspondences) + sum(o.get("cases", 0) for o in self.oracle_runs)
        nontriv = sum(c.get("nontrivial", 0) for c in self.correspondences) + sum(o.get("nontrivial", 0) for o in self.oracle_runs)
        cov = {
            "obligations": n_obl,
            "discharged": n_dis,
            "checker_cmd": self.checker_cmd or "make -C /verif/coq Properties/%s.vo (coqc 8.16.1, full .vo build) + Print Assumptions audit" % self.prop,
            "trusted_base": self.trusted,
            "obligation_names": [n for n, _ in self.obligations],
            "undischarged": [n for n, ok in self.obligations if not ok],
            "traces_validated_against_impl": sum(c.get("cases", 0) for c in self.correspondences),
            "evaluations": max(evals, 0),
            "distinct_nontrivial": nontriv,
            "rule": self.extra.get("rule", "see correspondences[].rule"),
            "correspondences": self.correspondences,
            "oracles": self.oracle_runs,
            "samples": self.samples[:12] if self.samples else [n for n, _ in self.obligations][:12],
            "partial": self.partial,
            "known_findings_hit": self.known_hits,
        }
        for k, v in self.extra.items():
            if k not in cov:
                cov[k] = v
        ev = {
            "property_id": self.prop,
            "tier": self.tier,
            "seed": int(self.seed),
            "level": "proof",
            "coverage": cov,
            "assumptions": self.assumptions,
            "wall_s": round(wall, 2),
            "violations": len(self.violations),
        }
        os.makedirs(EVIDENCE, exist_ok=True)
        with open(os.path.join(EVIDENCE, "%s.json" % self.prop), "w") as f:
            json.dump(ev, f, indent=1, default=str)
        for k in self.known_hits:
            print("KNOWN-FINDING: property=%s %s" % (self.prop, k))
        if self.violations:
            for path, no_input in self.violations:
                print("VIOLATION property=%s replay=%s%s" % (self.prop, path, " no-failing-input-found" if no_input else ""))
            return 1
        print("OK property=%s tier=%s obligations=%d/%d correspondence_cases=%d oracle_cases=%d wall=%.1fs" % (
            self.prop, self.tier, n_dis, n_obl,
            sum(c.get("cases", 0) for c in self.correspondences),
            sum(o.get("cases", 0) for o in self.oracle_runs), wall))
        return 0


TRUSTED_COMMON = [
    "Coq 8.16.1 kernel (coqc) incl. vm_compute; no native_compute; no axioms declared by the development",
    "statements in coq/Properties/*.v and reference specs in coq/Ref/*.v (RFC transcriptions)",
    "translator /verif/translator/gen.py (renders tables/constants of /repo into coq/Gen/*.v)",
    "correspondence harness /verif/harness (Rust, hooks feature verif-hooks) and /verif/lib (Python): trusted for silence only; comparison is evaluated inside Coq",
    "modelled, not verified: bytes/BytesMut, http crate validators, tokio-util length-delimited codec, slab/indexmap, std Mutex/atomics, async runtime",
]
