"""C09 — see lifecycle_common.py (state-machine theorems + trace oracles)."""
from props import lifecycle_common as L
from props.parts import streamstate

VO_TARGETS = L.VO_TARGETS
AUDIT = [("H2V.Properties.StreamState", streamstate.THEOREMS["C09"])]


def correspond(rep, tier, seed):
    rep.partial.append("PARTIAL: the theorems are about the per-stream state machine (state.rs) only; which caller invokes which transition, "
                       "queues, frame emission order and wake-ups are explored by the trace oracles on the real crate, not proved")
    ss_bad, n = L.correspond(rep, "C09", tier, seed)
    if ss_bad and n == 0:
        L.search(rep, "C09", tier, seed)


def search(rep, tier, seed, reason=""):
    return L.search(rep, "C09", tier, seed)
