"""C11 — HPACK/Huffman decoding agrees with RFC 7541 on every input, however split."""
import os
import common
from props.parts import huffman

HAVE_HPACK = os.path.exists(os.path.join(common.COQ, "Properties", "C11_hpack.v")) and \
    os.path.exists(os.path.join(common.VERIF, "lib", "props", "parts", "hpackdec.py")) and \
    os.path.exists(os.path.join(common.VERIF, "lib", "props", "parts", "hpackdec.READY"))

VO_TARGETS = ["Properties/C11_huffman.vo"] + (["Properties/C11_hpack.vo"] if HAVE_HPACK else [])
AUDIT = [("H2V.Properties.C11_huffman",
          ["C11_huff_table_is_rfc", "C11_huff_ref_is_rfc_grammar", "C11_huff_exact", "C11_huff_roundtrip"])]
if HAVE_HPACK:
    from props.parts import hpackdec
    AUDIT.append(("H2V.Properties.C11_hpack", hpackdec.THEOREMS))


def correspond(rep, tier, seed):
    rep.assumptions.append("http crate validators (HeaderName/HeaderValue/Method/StatusCode) are modelled as predicates, tied by correspondence only")
    huffman.correspond_huffman(rep, tier, seed)
    if HAVE_HPACK:
        hpackdec.correspond_hpackdec(rep, tier, seed)
    else:
        rep.partial.append("header-block decoder (integers, representations, dynamic table, chunking) not yet included in this check")


def search(rep, tier, seed, reason=""):
    found = huffman.search_huffman(rep, tier, seed)
    if HAVE_HPACK and not found:
        found = hpackdec.search_hpackdec(rep, tier, seed)
    return found
