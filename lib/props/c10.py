"""C10 — HPACK encoder and decoder stay in sync: decode(encode(h)) = h for every history."""
from props.parts import hpackenc

THEOREMS = hpackenc.THEOREMS


def correspond(rep, tier, seed):
    hpackenc.correspond_hpackenc(rep, tier, seed)


def search(rep, tier, seed, reason=""):
    return hpackenc.search_hpackenc(rep, tier, seed, reason=reason) if "reason" in hpackenc.search_hpackenc.__code__.co_varnames else hpackenc.search_hpackenc(rep, tier, seed)
