"""C03 — receive windows are conserved: never over-credited, never leaked."""
import json
import os
import common
from props.parts import recvflow

THEOREMS = ["C03_step_invariant", "C03_conservation", "C03_conservation_after_error", "C03_no_panic", "C03_never_over_advertised",
            "C03_window_bounds", "C03_conn_ledger", "C03_restores", "C03_stream_window_update_emits", "C03_fix_needed",
            "C03_nofix_differs_only_on_decrease", "C03_fix_repairs", "C03_nonvacuous_labels", "C03_nonvacuous_run", "C03_nonvacuous_restores"]
PARTIAL = [
    "stream-level conservation (R3) and restoration are proved for records whose receive handle is alive; after the RecvStream is dropped "
    "the code stops maintaining the stream-level ledger (known finding KF-C03-1), the model mirrors that and the theorems exclude those records",
    "which exit a DATA frame takes where that depends on content-length / state checks is an observed input; teardown (connection error, "
    "abrupt shutdown, transport end) is outside the lock-step comparison",
]


def run_corpus(rep):
    """the replay of the repaired window stall must now end with the window restored"""
    p = os.path.join(common.VERIF, "corpus", "conn", "f1_window_stall.json")
    ok, binp, log = common.cargo_build("conn")
    if not ok:
        raise common.HarnessBuildError(log)
    rc, out, _ = common.sh([binp, "--replay", p], timeout=120)
    try:
        o = json.loads(out.strip().splitlines()[-1])
    except Exception:
        rep.violation("broken-correspondence", {"what": "corpus replay did not run", "log": out[-2000:]}, no_input=True)
        return
    wus = [f for st in o["trace"] for f in st["out"] if f["t"] == "WINDOW_UPDATE" and f["sid"] == 1]
    fin = [s for s in o["trace"][-1]["snap"]["streams"] if s["id"] == 1]
    good = bool(wus) and fin and fin[0]["recv_window"] == 10000
    rep.oracle_runs.append({"name": "corpus:f1_window_stall", "cases": 1, "nontrivial": 1, "failures": 0 if good else 1})
    if not good:
        rep.violation("failing-input", {"oracle": "corpus replay: window must be restored after a lowered SETTINGS_INITIAL_WINDOW_SIZE is acknowledged",
                                        "replay": p, "window_updates_for_stream_1": wus, "final_stream": fin})


def run_known_corpus(rep):
    """KF-C03-1 is replayed on every run: it must still behave as recorded (then it is printed as a known finding);
    if it no longer does, the entry is stale and that is reported"""
    p = os.path.join(common.VERIF, "corpus", "conn", "kf_c03_1_stream_window_after_recv_drop.json")
    ok, binp, log = common.cargo_build("conn")
    if not ok:
        raise common.HarnessBuildError(log)
    rc, out, _ = common.sh([binp, "--replay", p], timeout=120)
    try:
        o = json.loads(out.strip().splitlines()[-1])
    except Exception:
        rep.violation("broken-correspondence", {"what": "corpus replay did not run", "log": out[-2000:]}, no_input=True)
        return
    sent = sum(st["op"]["what"]["len"] for st in o["trace"] if st["op"].get("op") == "peer" and st["op"].get("what", {}).get("t") == "DATA")
    stream_wu = [f for st in o["trace"] for f in st["out"] if f["t"] == "WINDOW_UPDATE" and f["sid"] == 1]
    refused = [f for st in o["trace"] for f in st["out"] if f["t"] in ("RST_STREAM", "GOAWAY")]
    listed = any(k.get("id") == "KF-C03-1" for k in common.load_known_findings().get("known", []))
    still = sent > 65535 and not stream_wu and not refused
    rep.oracle_runs.append({"name": "corpus:kf_c03_1", "cases": 1, "nontrivial": 1, "failures": 0, "still_reproduces": still})
    if still and listed:
        rep.known("KF-C03-1 after the RecvStream is dropped the stream-level window is neither enforced nor re-credited "
                  "(%d bytes accepted on a 65535-byte stream window, no stream WINDOW_UPDATE)" % sent)
    elif still:
        rep.violation("failing-input", {"oracle": "stream window after the receive handle was dropped", "replay": p, "bytes_accepted": sent})


def correspond(rep, tier, seed):
    rep.partial.extend(PARTIAL)
    run_corpus(rep)
    run_known_corpus(rep)
    scs, failing = recvflow.correspond_recvflow(rep, tier, seed)
    n_viol = recvflow.oracle_recvflow(rep, scs)
    if failing and n_viol == 0:
        if not search(rep, tier, seed, reason="correspondence"):
            recvflow.report_disagreements(rep, scs, failing)


def search(rep, tier, seed, reason=""):
    from props.parts import sendflow
    run_corpus(rep)
    if rep.violations:
        return True
    for k in range(4 if tier == "quick" else 12):
        for prof in ("recv", "mixed"):
            scs, _ = sendflow.gen_scenarios(seed * 9173 + k * 11 + len(prof), 150, 140, prof, snap=True)
            before = len(rep.violations)
            if recvflow.oracle_recvflow(rep, scs) > 0 and len(rep.violations) > before:
                return True
    return False
