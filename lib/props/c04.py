"""C04 — see lifecycle_common.py (state-machine theorems + trace oracles)."""
from props import lifecycle_common as L
from props.parts import streamstate, dispatch

VO_TARGETS = L.VO_TARGETS + [dispatch.TARGETS["C04"]]
AUDIT = [("H2V.Properties.StreamState", streamstate.THEOREMS["C04"]),
         (dispatch.MODULES["C04"], dispatch.THEOREMS["C04"])]


def correspond(rep, tier, seed):
    rep.partial.append("PARTIAL: two layers of theorems - the per-stream state machine (state.rs, Properties/StreamState.v) and the dispatch layer "
                       "(which caller invokes which transition for which frame / API call, what is queued, what leaves the queues: "
                       "Properties/C04_wire.v, lock-stepped against streams.rs / recv.rs / send.rs / prioritize.rs); wake-ups are C06; see the "
                       "next entry for what the dispatch layer leaves open")
    ss_bad, n = L.correspond(rep, "C04", tier, seed)
    if ss_bad and n == 0:
        L.search(rep, "C04", tier, seed)
    dispatch.correspond_for(rep, "C04", tier, seed, lambda r, t, s: L.search(r, "C04", t, s))


def search(rep, tier, seed, reason=""):
    return L.search(rep, "C04", tier, seed)
