"""C06 — progress: with a cooperating peer every operation completes (no lost wakeup)."""
import common
from props.parts import wake

THEOREMS = ["C06_no_lost_wake", "C06_no_lost_wake_any_table", "C06_table_complete", "C06_wake_in_same_label", "C06_connection_woken_by_work",
            "C06_push_fix_needed", "C06_push_fix_repairs", "C06_reserve_fix_needed", "C06_reserve_fix_repairs", "C06_open_fix_needed",
            "C06_open_fix_repairs", "C06_nonvacuous_wake", "C06_send_pop_enabled", "C06_send_pop_decreases", "C06_owed_update_is_queued",
            "C06_owed_update_pop_settles", "C06_f1_fix_needed"]
PARTIAL = [
    "the property is a liveness statement over an unmodelled executor, transport, peer and application; it is DECOMPOSED, not proved end to end. "
    "PROVED for all label sequences: (1) wake discipline of Model/Wake.v as an invariant -- in every run in which no waker slot is used by two tasks at "
    "once, a task that was told to wait and whose wait is over has a wake pending, the wake is emitted by the very label at which the wait ends, and the "
    "connection task is woken by every entry through which a handle leaves it work (C06_no_lost_wake, C06_table_complete, C06_wake_in_same_label, "
    "C06_connection_woken_by_work); (2) enabledness + variant on the lock-stepped flow models -- buffered DATA with an empty head frame or assigned "
    "capacity can always be popped without Stuck/Panic and every pop strictly decreases a non-negative measure (queued octets + frames), an owed stream "
    "WINDOW_UPDATE is queued, can always be popped and the pop settles the debt (C06_send_pop_*, C06_owed_update_*); cooperative facts used: the codec "
    "accepts a frame of positive length (0 < mx), the application released what it read (r_infl = 0); (3) for each of the four repaired stalls "
    "(F1 6962309, push wait a67af12, reservation b730a71, readiness slot f1e4dd0) the pre-repair step violates (1)/(2) and the current one satisfies it",
    "NOT proved, explored on the real crate by the waker-only executor oracle (harness/src/bin/coop.rs, every run): that enabled work is eventually taken "
    "and that the decomposition is complete -- i.e. that the sites / work entries of Model/Wake.v are ALL the places where a wait ends or a handle leaves "
    "work (the per-step `connection-not-woken` check on the statistics snapshot and the quiescence oracle would expose a missing one), fairness, the "
    "variant for the other connection-task work (SETTINGS/PING acknowledgements, pending_open, RST/GOAWAY emission: enabledness of those is covered by "
    "C14/C15's poll2-order theorems, not restated here)",
    "modelled-not-verified: which slot a site notifies is tied to the code by the lock-step (notification pattern per site + identity and order of the "
    "named wakers that fired in the harness, compared inside Coq); that a *site event* is recorded exactly where the awaited condition changes is by "
    "construction of the add-only hooks (hooks/apply_wake_hooks.py) and was reviewed by hand; waker slots shared by two tasks (poll_capacity and poll_reset, "
    "or poll_data and poll_trailers, of one handle polled from different tasks) are outside the hypothesis of C06_no_lost_wake: one slot, one task",
    "oracle exclusions (by the property text / recorded findings): a reset wait on a stream that ends without reset need not complete (KF-C07-1, reset "
    "waits are not closure tasks); a push wait whose parent's RecvStream was dropped early is not counted (h2 ignores the rest of the message, END_STREAM "
    "included: the `!is_recv` exit recorded as KF-C03-1); runs whose scripted peer violated the protocol in the prefix only check acknowledgements and "
    "teardown; a closure that exhausts its step budget without the connection task spinning is inconclusive (counted, not a violation)",
]


def correspond(rep, tier, seed):
    rep.partial.extend(PARTIAL)
    rep.assumptions.append("executor discipline of the oracle: a task is polled only if its waker fired since its last poll (one free first poll per application task at the "
                           "start of the closure; the connection task gets none unless its owner called a connection-level API); random fair order")
    n_viol = wake.run_corpus(rep)
    scs, failing = wake.correspond_wake(rep, tier, seed)
    n_viol += wake.oracle_coop(rep, scs, name="coop-closure(traced)")
    # more closures without traces (cheap)
    more = []
    per = 50 if tier == "quick" else 900
    for pi, prof in enumerate(("legal", "queue", "bufcap", "starve", "flow", "limits", "recv", "bp", "mixed", "reset", "shutdown", "control")):
        s2, _ = wake.run_coop(seed * 104729 + 17 * pi + 3, per, 110 if tier == "quick" else 150, prof, trace=False, budget=4000 if tier == "quick" else 8000)
        more.extend(s2)
    n_viol += wake.oracle_coop(rep, more, name="coop-closure")
    n_viol += wake.oracle_ready_without_wake(rep, tier, seed)
    if failing and n_viol == 0:
        if not search(rep, tier, seed, reason="correspondence"):
            wake.report_disagreements(rep, scs, failing)


def search(rep, tier, seed, reason=""):
    if wake.run_corpus(rep) > 0:
        return True
    for k in range(2 if tier == "quick" else 6):
        if wake.oracle_ready_without_wake(rep, "quick", seed * 13 + k + 1, name="ready-without-wake-search") > 0:
            return True
        # push-promise, response and reset waits live on the client side; they are rare in mixed scripts, so look at many
        if wake.oracle_ready_without_wake(rep, "quick", seed * 17 + k + 5, profiles=("mixed", "pushlimit", "reset", "lastframe", "mixed", "pushlimit"),
                                          name="ready-without-wake-search(client)", per=200, role="client") > 0:
            return True
    for k in range(3 if tier == "quick" else 12):
        for pi, prof in enumerate(("queue", "bufcap", "starve", "legal", "limits", "flow", "recv", "mixed", "bp")):
            scs, _ = wake.run_coop(seed * 15485863 + k * 131 + pi, 80, 130, prof, trace=False, budget=5000)
            before = len(rep.violations)
            if wake.oracle_coop(rep, scs, name="coop-search") > 0 and len(rep.violations) > before:
                return True
    return False


def replay(path):
    return wake.replay(path)
