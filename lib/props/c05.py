"""C05 — concurrent-stream limits are honoured in both directions and slots are recycled."""
import common
from props.parts import counts

THEOREMS = ["C05_counts_invariant", "C05_initial_state_ok", "C05_send_admission", "C05_recv_limit", "C05_slot_recycled", "C05_nonvacuous", "C05_reset_slot_returned", "C05_reset_slot_fix_needed"]
PARTIAL = [
    "proved on the model of counts.rs: admission only below the limit, receive count within the advertised limit, a closed stream's slot "
    "is given back exactly once, counters = number of counted records, no assert of counts.rs can fire;",
    "NOT proved, explored by the oracles on real traces: that every path that closes a stream reaches transition_after, that a queued "
    "request is opened as soon as a slot frees (progress), and the relation between 'counted' and 'open on the wire'",
]


def correspond(rep, tier, seed):
    rep.partial.extend(PARTIAL)
    rep.assumptions.append("callers query can_inc_* before inc_* with nothing in between and never count a record twice: Stuck guards of the model, checked by the lock-step on every run")
    scs, failing = counts.correspond_counts(rep, tier, seed)
    n_viol = counts.oracle_counts(rep, scs)
    if failing and n_viol == 0:
        if not search(rep, tier, seed, reason="correspondence"):
            counts.report_disagreements(rep, scs, failing)


def search(rep, tier, seed, reason=""):
    from props.parts import sendflow
    for k in range(4 if tier == "quick" else 12):
        for prof in ("queue", "limits", "pushlimit", "reset"):
            scs, _ = sendflow.gen_scenarios(seed * 7907 + k * 13 + len(prof), 150, 140, prof, snap=True)
            before = len(rep.violations)
            if counts.oracle_counts(rep, scs) > 0 and len(rep.violations) > before:
                return True
    return False
