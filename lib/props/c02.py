"""C02 — never sends more DATA than the peer's stream and connection windows allow."""
import common
from props.parts import sendflow

THEOREMS = ["C02_never_exceeds_credit", "C02_step_simulation", "C02_flow_code_never_panics", "C02_nonvacuous"]
PARTIAL = [
    "proved for histories on which the model reports no connection error (after a failed SETTINGS decrease the "
    "connection is being torn down; that phase is explored by the wire oracle only)",
    "stream-state predicates and the visiting order of assign_connection_capacity are universally quantified inputs; "
    "guards on unmodelled state (Stuck outcomes) are checked by the lock-step correspondence, not proved",
]


def correspond(rep, tier, seed):
    rep.partial.extend(PARTIAL)
    rep.assumptions.append("WINDOW_UPDATE increments and SETTINGS_INITIAL_WINDOW_SIZE are <= 2^31-1 (enforced by the frame parser, C12)")
    scs, failing = sendflow.correspond_sendflow(rep, tier, seed)
    n_viol = sendflow.oracle_sendflow(rep, scs, "C02")
    if failing and n_viol == 0:
        # model and implementation disagree: look harder for a real violation before giving up
        found = search(rep, tier, seed, reason="correspondence")
        if not found:
            sendflow.report_disagreements(rep, scs, failing)


def search(rep, tier, seed, reason=""):
    """Search for a concrete failing input with the wire ledger on fresh, deeper runs."""
    total = 0
    for k in range(4 if tier == "quick" else 12):
        for prof in ("bp", "flow", "mixed", "reset"):
            scs, _ = sendflow.gen_scenarios(seed * 104729 + k * 17 + len(prof), 150, 140, prof, snap=False)
            total += len(scs)
            before = len(rep.violations)
            if sendflow.oracle_sendflow(rep, scs, "C02") > 0 and len(rep.violations) > before:
                return True
    rep.extra["search_scenarios"] = total
    return False
