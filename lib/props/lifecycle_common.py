"""Shared body of the C04 / C07 / C09 / C17 plugins: state-machine theorems (coq/Properties/StreamState.v, tied to
/repo/src/proto/streams/state.rs by an exhaustive correspondence) + property oracles on connection-level traces of the
real crate (lib/props/parts/wireview.py)."""
import json
import os
import common
from props.parts import streamstate, sendflow, wireview

VO_TARGETS = ["Properties/StreamState.vo"]

PROFILES = {
    "C04": ("mixed", "reset", "limits", "shutdown", "queue", "bp", "idspace"),
    "C17": ("reset", "lastframe", "mixed", "lastframe", "queue", "lastframe", "shutdown", "limits"),
    "C07": ("shutdown", "reset", "queue", "mixed", "flow", "queue"),
    "C09": ("chaos", "legal", "race", "chaos", "race", "legal", "mixed"),
}


def known_class(prop, v):
    if prop == "C07" and v.get("class") == "reset-wait-on-cleanly-closed-stream":
        return "KF-C07-1 poll_reset on a stream that had completed cleanly stays Pending after the connection ended"
    return None


def run_oracles(rep, prop, scs):
    n_viol, nontriv, known = 0, 0, 0
    for sc in scs:
        if prop == "C09":
            vs = [x for x in (wireview.reaction_oracle(sc), wireview.tolerance_oracle(sc)) if x]
            if any("chaos" in (st["op"].get("what") or {}) for st in sc["trace"] if isinstance(st["op"].get("what"), dict)) or sc.get("profile") in ("legal", "race"):
                nontriv += 1
        else:
            wv = wireview.WireView(sc)
            vs = {"C04": wv.sender_oracle, "C17": wv.reset_oracle, "C07": lambda: wv.ending_oracle()[0]}[prop]()
            if len(sc["trace"]) > 20:
                nontriv += 1
        real = []
        for v in vs:
            k = known_class(prop, v)
            if k:
                known += 1
                rep.known(k)
            else:
                real.append(v)
        if real:
            n_viol += 1
            if n_viol <= 3:
                rep.violation("failing-input", {"oracle": "wire/API oracle of %s (lib/props/parts/wireview.py)" % prop, "violations": real[:4],
                                                "scenario": {"cfg": sc["cfg"], "seed": sc.get("seed"), "i": sc.get("i"), "profile": sc.get("profile"),
                                                             "trace": [{"op": st["op"]} for st in sc["trace"]]}})
    rep.oracle_runs.append({"name": "%s-trace-oracle" % prop, "cases": len(scs), "nontrivial": nontriv, "failures": n_viol, "known_finding_hits": known})
    return n_viol


def gen(prop, tier, seed, per=None, steps=None):
    per = per or (45 if tier == "quick" else 1200)
    steps = steps or (110 if tier == "quick" else 150)
    scs = []
    for pi, prof in enumerate(PROFILES[prop]):
        s, _ = sendflow.gen_scenarios(seed * 4447 + pi * 7 + ord(prop[-1]), per, steps, prof, snap=(prop == "C17"))
        scs.extend(s)
    return scs


def run_corpus(rep, prop):
    """replays of repaired defects must stay repaired: the property oracle is run on each corpus trace"""
    cdir = os.path.join(common.VERIF, "corpus")
    ok, binp, log = common.cargo_build("conn")
    if not ok:
        raise common.HarnessBuildError(log)
    n = bad = 0
    for sub in ("conn", "control"):
        d = os.path.join(cdir, sub)
        if not os.path.isdir(d):
            continue
        for fn in sorted(os.listdir(d)):
            if not fn.endswith(".json"):
                continue
            rc, out, _ = common.sh([binp, "--replay", os.path.join(d, fn)], timeout=120)
            try:
                o = json.loads(out.strip().splitlines()[-1])
            except Exception:
                continue
            o["settled"] = True
            n += 1
            panicked = any(isinstance(st["res"], dict) and "panic" in st["res"] for st in o["trace"])
            if prop == "C09":
                vs = []
            else:
                wv = wireview.WireView(o)
                vs = {"C04": wv.sender_oracle, "C17": wv.reset_oracle, "C07": lambda: wv.ending_oracle()[0]}[prop]()
                for v in vs:
                    kc = known_class(prop, v)
                    if kc:
                        rep.known(kc)
                vs = [v for v in vs if not known_class(prop, v)]
            if vs or panicked:
                bad += 1
                rep.violation("failing-input", {"oracle": "corpus replay %s" % fn, "violations": vs[:3], "panicked": panicked, "replay": os.path.join(d, fn)})
    rep.oracle_runs.append({"name": "corpus-replays", "cases": n, "nontrivial": n, "failures": bad})


def correspond(rep, prop, tier, seed):
    streamstate.correspond_streamstate(rep, tier, seed)
    ss_bad = sum(c.get("disagreements", 0) for c in rep.correspondences)
    n1 = streamstate.search_streamstate(rep, tier, seed, prop)
    run_corpus(rep, prop)
    scs = gen(prop, tier, seed)
    n2 = run_oracles(rep, prop, scs)
    return ss_bad, n1 + n2


def search(rep, prop, tier, seed):
    before = len(rep.violations)
    streamstate.search_streamstate(rep, tier, seed, prop)
    if len(rep.violations) > before:
        return True
    for k in range(3 if tier == "quick" else 10):
        scs = gen(prop, tier, seed * 31 + k + 1, per=120, steps=140)
        if run_oracles(rep, prop, scs) > 0 and len(rep.violations) > before:
            return True
    return False
