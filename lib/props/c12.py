"""C12 — frame codec: parse(serialize(f)) = f under any I/O chunking, within size limits."""
from props.parts import framecodec

THEOREMS = framecodec.THEOREMS


def correspond(rep, tier, seed):
    framecodec.correspond_framecodec(rep, tier, seed)


def search(rep, tier, seed, reason=""):
    before = len(rep.violations)
    framecodec.search_framecodec(rep, tier, seed)
    return len(rep.violations) > before
