"""C13 — malformed HTTP messages are neither delivered nor generated."""
from props.parts import httprules

THEOREMS = httprules.THEOREMS


def run_corpus(rep):
    """the repaired fragmentation case: the block is malformed whether it arrives whole or split mid-field"""
    import json, os, common
    p = os.path.join(common.VERIF, "corpus", "conn", "connection_header_split_across_continuation.json")
    ok, binp, log = common.cargo_build("conn")
    if not ok:
        raise common.HarnessBuildError(log)
    rc, out, _ = common.sh([binp, "--replay", p], timeout=120)
    try:
        o = json.loads(out.strip().splitlines()[-1])
    except Exception:
        rep.violation("broken-correspondence", {"what": "corpus replay did not run", "log": out[-2000:]}, no_input=True)
        return
    accepted = [st["res"] for st in o["trace"] if st["op"].get("op") == "poll_accept" and isinstance(st["res"], dict)]
    rst = [f for st in o["trace"] for f in st["out"] if f["t"] == "RST_STREAM" and f["sid"] == 1 and f.get("code") == 1]
    good = not accepted and bool(rst)
    rep.oracle_runs.append({"name": "corpus:connection_header_split_across_continuation", "cases": 1, "nontrivial": 1, "failures": 0 if good else 1})
    if not good:
        rep.violation("failing-input", {"oracle": "corpus replay: a request with `connection: close` whose HEADERS fragment ends mid-field must be refused "
                                                  "(RST_STREAM PROTOCOL_ERROR), not delivered", "replay": p, "accepted": accepted, "rst": rst})


def correspond(rep, tier, seed):
    run_corpus(rep)
    rep.assumptions.append("the field list checked is the one the HPACK decoder yields (C11's model); one header block per frame")
    httprules.correspond_httprules(rep, tier, seed)


def search(rep, tier, seed, reason=""):
    return httprules.search_httprules(rep, tier, seed, reason=reason)


def replay(path):
    return httprules.replay(path)
