"""C13 — malformed HTTP messages are neither delivered nor generated."""
from props.parts import httprules

THEOREMS = httprules.THEOREMS


def correspond(rep, tier, seed):
    rep.assumptions.append("the field list checked is the one the HPACK decoder yields (C11's model); one header block per frame")
    httprules.correspond_httprules(rep, tier, seed)


def search(rep, tier, seed, reason=""):
    return httprules.search_httprules(rep, tier, seed, reason=reason)


def replay(path):
    return httprules.replay(path)
