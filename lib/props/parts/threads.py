"""C20 — handles used from other threads while the connection is polled.

Three correspondences and their oracles:

  * `inject`   deterministic single-threaded runs (harness `conn`, profile `inject`): handle operations executed from inside
               the transport's poll_write / poll_flush callback of a connection poll, i.e. exactly where `poll_complete` has
               released the stream-state lock, preferably on the stream that owns the DATA frame in flight.  Lock-step against
               Model/Handover.v (`check_handover`), Model/SendFlow.v and Model/Counts.v; wire oracles.
  * `threads`  REAL parallel runs (harness `threads`): one thread polls the connection, one is the scripted peer, 2-4 hammer
               handles.  The global, sequence-numbered event log is a linearisation witness: its locked sections must be
               contiguous per thread (atomicity oracle), and projected exactly like a single-threaded trace it must be
               accepted by `check_sendflow`, `check_counts`, `check_recvflow`, `check_handover` (pre-states, outputs, final
               snapshot).  A rejected order is dumped with its Coq case so that it can be re-evaluated without threads.
               Watchdog (deadlock), captured panics, wire oracles (no DATA after RST_STREAM, byte pattern = no duplication /
               loss / reordering, RFC 9113 6.9 credit ledger), user-ping cell linearisability against Control.frun.
  * `poison`   child-process probes: a panic under the lock (user `Buf::remaining`) with handles on the stack.
"""
import json
import os
import re
import sys

sys.path.insert(0, os.path.dirname(os.path.dirname(os.path.dirname(os.path.abspath(__file__)))))
import common  # noqa: E402
from props.parts import sendflow, counts, recvflow  # noqa: E402

B = common.coq_bool
LOCKED_PREFIXES = ("prio.", "send.", "recv.", "counts.", "store.", "stream.", "inner.", "queue.")
HANDOVER = {"prio.drop_promised", "prio.buffer_pending", "prio.reclaim_written", "prio.stage", "prio.reclaim", "prio.push_back", "prio.clear_queue",
            "prio.clear_in_flight", "prio.pop_data", "prio.send_data", "store.slot", "store.free", "codec.data_done",
            "codec.buffer_data", "prio.pop_scheduled_reset"}


def Z(v):
    v = int(v)
    return "(%d)" % v if v < 0 else str(v)


def chain_threshold():
    """the codec's threshold for the in-memory transports of the harness (not vectored) as rendered by the translator"""
    p = os.path.join(common.COQ, "Gen", "FrameConsts.v")
    m = re.search(r"Definition CHAIN_THRESHOLD_WITHOUT_VECTORED_IO : N := (\d+)\.", open(p).read())
    return int(m.group(1)) if m else 1024


# ------------------------------------------------------------------------------------------------------------------
# events: (seq, thread, depth, name, args)

def events_of_trace(trace):
    """single-threaded driver trace -> event tuples (thread 0, seq = running index) + step of each event"""
    evs, step_of = [], {}
    k = 0
    for st in trace:
        for e in st.get("ev", []):
            evs.append((k, 0, e[1], e[0], e[2:]))
            step_of[k] = st["i"]
            k += 1
    return evs, step_of


def events_of_log(log):
    return [(e[0], e[1], e[2], e[3], e[4:]) for e in log]


class Node:
    __slots__ = ("name", "args", "kids", "seq", "tid", "last")

    def __init__(self, seq, tid, name, args):
        self.seq, self.tid, self.name, self.args = seq, tid, name, args
        self.kids = []
        self.last = seq


def forest(evs, family):
    """per-thread forests of the events selected by `family(name)` (other scopes are transparent), roots merged by the
    sequence number of their first event"""
    roots = []
    stacks = {}
    for (seq, tid, depth, name, args) in evs:
        st = stacks.setdefault(tid, [])
        while st and st[-1][0] >= depth:
            st.pop()
        if family(name):
            n = Node(seq, tid, name, args)
            parent = None
            for d, p in reversed(st):
                if p is not None:
                    parent = p
                    break
            if parent is None:
                roots.append(n)
            else:
                parent.kids.append(n)
                # propagate the span
                for d, p in st:
                    if p is not None:
                        p.last = max(p.last, seq)
            st.append((depth, n))
        else:
            st.append((depth, None))
    roots.sort(key=lambda n: n.seq)
    return roots


def flatten(node, depth, out):
    out.append([node.name, depth] + list(node.args))
    for k in node.kids:
        flatten(k, depth + 1, out)


def atomicity_violations(evs):
    """Events emitted under the stream-state lock: between the first and the last event of one root scope of one thread no
    other thread may have emitted a locked event (the log is appended under the lock)."""
    roots = forest(evs, lambda n: n.startswith(LOCKED_PREFIXES))
    bad = []
    for i in range(1, len(roots)):
        a, b = roots[i - 1], roots[i]
        if a.tid != b.tid and a.last > b.seq:
            bad.append({"section": a.name, "thread": a.tid, "first": a.seq, "last": a.last, "intruder": b.name,
                        "intruder_thread": b.tid, "at": b.seq})
    switches = sum(1 for i in range(1, len(roots)) if roots[i - 1].tid != roots[i].tid)
    return bad, len(roots), switches


# ------------------------------------------------------------------------------------------------------------------
# Handover projection

def key(slot, sid):
    return "(%d%%N, %d%%N)" % (slot, sid)


def handover_labels(evs, final_snap=None):
    """-> (labels with expectations, final, label histogram, notes)"""
    roots = forest(evs, lambda n: n in HANDOVER)
    slot_of = {}        # serial -> (slot, sid)
    labels, hist = [], {}
    chain_len = [None]

    def add(lbl, fl=None, buf=None, outs=None):
        e = "(mkHE %s %s %s)" % (fl or "None", buf or "None", "(Some [%s])" % "; ".join(outs) if outs is not None else "None")
        labels.append("(%s, %s)" % (lbl, e))
        k = lbl.split()[0]
        hist[k] = hist.get(k, 0) + 1

    def fl_exp(tag, fsid, fslot):
        return "(Some (%d%%N, %s))" % (tag, "Some %s" % key(fslot, fsid) if tag == 1 else "None")

    def reclaim_outs(nodes, i):
        """nodes[i] is prio.reclaim; returns (outs, next index)"""
        a = nodes[i].args     # ksid, kslot, tail, eos, live, tag, fsid, fslot
        k = key(a[1], a[0])
        j = i + 1
        if a[5] == 2:
            return ["ODiscard %s %s" % (k, Z(a[2]))], j
        if a[5] == 1 and a[2] > 0:
            if j < len(nodes) and nodes[j].name == "prio.push_back" and nodes[j].args[1] == a[0] and nodes[j].args[2] == a[1]:
                return ["ORequeue %s %s" % (k, Z(a[2]))], j + 1
            return ["OLost %s" % k], j            # the tail vanished: no push_back event (does not type-check: reported)
        if a[5] == 1:
            return ["ODone %s" % k], j
        return ["OPanic"], j

    def visit(n):
        a, nm = n.args, n.name
        if nm == "store.slot":
            slot_of[a[0]] = (a[2], a[1])
            add("HNew %s" % key(a[2], a[1]))
        elif nm == "store.free":
            slot_of.pop(a[0], None)
            add("HRemove %s" % key(a[2], a[1]))
        elif nm == "prio.send_data":
            if a[12] <= 2147483647 and a[2] == 1 and a[0] in slot_of:
                s = slot_of[a[0]]
                add("HSendData %s %s" % (key(*s), Z(a[12])), None, "(Some (%s, %s))" % (key(*s), Z(a[9])))
        elif nm in ("prio.clear_queue", "prio.pop_scheduled_reset"):
            cq = n if nm == "prio.clear_queue" else next((k for k in n.kids if k.name == "prio.clear_queue"), None)
            if cq is None:
                return
            # promised streams whose PUSH_PROMISE is dropped with this queue lose their own queue on the spot (repair cc6ac6c of /repo)
            for dp in (k for k in cq.kids if k.name == "prio.drop_promised"):
                if dp.args[0] in slot_of:
                    add("HClear %s" % key(*slot_of[dp.args[0]]))
            cf = next((k for k in cq.kids if k.name == "prio.clear_in_flight"), None)
            if cf is None:
                add("HUnexpected_clear_without_in_flight_event")
                return
            c = cf.args   # serial, sid, slot, tag, fsid, fslot
            add("HClear %s" % key(c[2], c[1]), fl_exp(c[3], c[4], c[5]), "(Some (%s, %s))" % (key(c[2], c[1]), Z(cq.args[9])))
        elif nm in ("prio.buffer_pending", "prio.reclaim_written"):
            items, outs = [], []
            kids = n.kids
            i = 0
            while i < len(kids):
                k = kids[i]
                if k.name == "prio.reclaim":
                    o, i = reclaim_outs(kids, i)
                    outs += o
                    continue
                if k.name == "prio.pop_data":
                    pa = k.args
                    # pop_frame's own transition_after may release the record between the pop and the staging
                    j = i + 1
                    freed = []
                    while j < len(kids) and kids[j].name == "store.free":
                        freed.append(kids[j])
                        j += 1
                    stg = kids[j] if j < len(kids) and kids[j].name == "prio.stage" else None
                    cb = kids[j + 1] if j + 1 < len(kids) and kids[j + 1].name == "codec.buffer_data" else None
                    if stg is None or cb is None:
                        items.append("IUnexpected_pop_without_stage")
                        i += 1
                        continue
                    sa = stg.args    # sid, slot, limit, remaining, eos, live
                    items.append("IData %s %s %s" % (key(sa[1], sa[0]), Z(pa[12]), Z(pa[14])))
                    chained = cb.args[1] == 1
                    outs.append("OStaged %s %s %s" % (key(sa[1], sa[0]), Z(pa[14]), B(chained)))
                    if chained:
                        chain_len[0] = pa[14]
                    i = j + 2
                    # the reclaim that follows a small frame belongs to this item: it precedes the release in the model's order
                    if i < len(kids) and kids[i].name == "prio.reclaim":
                        o, i = reclaim_outs(kids, i)
                        outs += o
                    for fr in freed:
                        slot_of.pop(fr.args[0], None)
                        items.append("IRemove %s" % key(fr.args[2], fr.args[1]))
                    continue
                if k.name == "prio.pop_scheduled_reset":
                    cq = next((x for x in k.kids if x.name == "prio.clear_queue"), None)
                    cf = next((x for x in cq.kids if x.name == "prio.clear_in_flight"), None) if cq else None
                    if cf is not None:
                        items.append("IClear %s" % key(cf.args[2], cf.args[1]))
                    i += 1
                    continue
                if k.name == "store.free":
                    slot_of.pop(k.args[0], None)
                    items.append("IRemove %s" % key(k.args[2], k.args[1]))
                    i += 1
                    continue
                if k.name == "store.slot":
                    items.append("IUnexpected_insert_in_buffer_pending")
                i += 1
            if nm == "prio.buffer_pending":
                add("HBufferPending [%s]" % "; ".join(items), "(Some (%d%%N, None))" % a[0], None, outs)
            else:
                add("HReclaimWritten", "(Some (%d%%N, None))" % a[0], None, outs)
        elif nm == "codec.data_done":
            add("HWrite %s" % Z(chain_len[0] if chain_len[0] is not None else -1))
            chain_len[0] = None
        elif nm in ("prio.reclaim", "prio.stage", "prio.push_back", "prio.pop_data", "codec.buffer_data", "prio.clear_in_flight"):
            add("HUnexpected_%s_outside_a_section" % nm.replace(".", "_"))
        if nm in ("prio.send_data", "store.slot", "store.free", "codec.data_done"):
            for k in n.kids:
                visit(k)

    for n in roots:
        visit(n)
    fin = "(@None (N * list (key * Z)))"
    if final_snap:
        c = final_snap["conn"]
        ss = []
        ok = True
        for s in final_snap["streams"]:
            if s["serial"] not in slot_of:
                ok = False
                break
            ss.append("(%s, %s)" % (key(*slot_of[s["serial"]]), Z(s["buffered_send_data"])))
        if ok and "in_flight_data_frame" in c:
            fin = "(Some (%d%%N, [%s]))" % (c["in_flight_data_frame"], "; ".join(ss))
    return labels, fin, hist


HPRE = "From H2V Require Import Base.Tac Base.Bytes Model.Handover.\nLocal Open Scope Z_scope.\n"


def handover_case(evs, final_snap=None):
    labels, fin, hist = handover_labels(evs, final_snap)
    return "(%s, [%s], %s)" % (Z(chain_threshold()), ";\n    ".join(labels), fin), hist, len(labels)


def handover_interest(hist_evs):
    """what a scenario exercised: tails re-queued, tails dropped because the owner was cleared meanwhile, chained frames"""
    return {"requeued": sum(1 for e in hist_evs if e[3] == "prio.push_back"),
            "dropped": sum(1 for e in hist_evs if e[3] == "prio.reclaim" and e[4][5] == 2),
            "dropped_with_tail": sum(1 for e in hist_evs if e[3] == "prio.reclaim" and e[4][5] == 2 and e[4][2] > 0),
            "chained": sum(1 for e in hist_evs if e[3] == "codec.buffer_data" and e[4][1] == 1),
            "cleared_in_flight": sum(1 for e in hist_evs if e[3] == "prio.clear_in_flight" and e[4][3] == 1 and e[4][1] == e[4][4])}


# ------------------------------------------------------------------------------------------------------------------
# wire oracles shared by both kinds of runs

def pattern_byte(sid, who, off):
    return ((sid * 31 + off * 7 + 13 + who * 101) % 251)


def wire_order_oracle(frames):
    """on the endpoint's own frames: no DATA after RST_STREAM on a stream"""
    viol = []
    rst = set()
    for f in frames:
        t, sid = f.get("t"), f.get("sid")
        if t == "RST_STREAM":
            rst.add(sid)
        elif t == "DATA" and sid in rst:
            viol.append({"why": "DATA after RST_STREAM on the stream", "sid": sid, "frame": f})
    return viol


def stuck_reset_oracle(snap):
    """a stream that was reset (locally or by the peer) must not be left with frames in its send queue and nobody to send them:
    its RST_STREAM needs no flow-control credit, and DATA of a reset stream must not be (re-)queued"""
    viol = []
    if not snap or snap.get("conn", {}).get("conn_error"):
        return viol
    for st in snap.get("streams", []):
        # frames queued on a reset stream that is neither scheduled (pending_send) nor waiting to be opened can never be sent:
        # nothing will schedule a reset stream again
        if ("Closed(Error(Reset(" in st.get("state", "") and st.get("pending_send_len", 0) > 0 and not st.get("is_pending_send", 1)
                and not st.get("is_pending_open", 1)):
            viol.append({"why": "a reset stream has frames queued but is not scheduled (DATA re-queued on a reset stream / its RST_STREAM is stuck)",
                         "stream": st})
    return viol


def lost_tail_oracle(snap):
    """buffered_send_data counts queued DATA plus the tail that is with the codec: bytes that are counted while the queue is empty
    and nothing is in flight were lost in the hand-over (the stream can never finish)"""
    viol = []
    if not snap or snap.get("conn", {}).get("in_flight_data_frame", 1) != 0:
        return viol
    for st in snap.get("streams", []):
        if st.get("buffered_send_data", 0) > 0 and st.get("pending_send_len", 1) == 0:
            viol.append({"why": "buffered_send_data > 0 but nothing is queued and no DATA frame is in flight: an unwritten tail was lost",
                         "stream": st.get("id"), "buffered_send_data": st.get("buffered_send_data"), "state": st.get("state")})
    return viol


def driver_pattern_oracle(sc):
    """driver traces carry a polynomial checksum and the first byte of every DATA frame: recompute both from the byte pattern
    at the running offset of the stream (a duplicated, lost or reordered byte changes them)"""
    viol = []
    offs = {}
    for st in sc["trace"]:
        for f in st["out"]:
            if f["t"] != "DATA":
                continue
            sid, n = f["sid"], f["len"]
            off = offs.get(sid, 0)
            s = 0
            for i in range(n):
                s = (s * 131 + pattern_byte(sid, 0, off + i)) & 0xFFFFFFFFFFFFFFFF
            if s != f["sum"] or (n > 0 and f.get("first") != pattern_byte(sid, 0, off)):
                viol.append({"step": st["i"], "sid": sid, "offset": off, "len": n, "why": "DATA payload is not the next bytes of the body"})
            offs[sid] = off + n
    return viol


# ------------------------------------------------------------------------------------------------------------------
# inject correspondence (deterministic)

def run_inject(rep, seed, n, steps, role="both"):
    """scenarios of profile `inject`; a harness that does not come back is a deadlock: a handle operation run from the transport
    callback blocked on the stream-state lock, i.e. the connection task called the transport while holding it"""
    rc, out = common.run_harness("conn", ["--seed", seed, "--n", n, "--steps", steps, "--profile", "inject", "--role", role, "--snap", 2],
                                 timeout=240)
    scs, _ = sendflow.load_scenarios(out)
    if rc == 124:
        rep.violation("failing-input", {
            "oracle": "C20 inject: the single-threaded driver hung (deadlock)",
            "what": "a handle operation executed from inside the transport's poll_write / poll_flush callback never returned: the "
                    "connection task holds the stream-state lock while it calls the transport (std Mutex is not re-entrant)",
            "rerun": "harness/conn --seed %s --first %d --n %d --steps %d --profile inject --role %s  (hangs in scenario %d)" %
                     (seed, len(scs), len(scs) + 1, steps, role, len(scs)),
            "completed_scenarios_before_the_hang": len(scs)})
    return scs


def correspond_inject(rep, tier, seed):
    per = 32 if tier == "quick" else 900
    steps = 160 if tier == "quick" else 200
    scs = []
    for role_i, role in enumerate(("client", "server")):
        scs += run_inject(rep, seed * 4099 + role_i, per, steps, role)
    corpus = corpus_scenarios("inject")
    scs = corpus + scs
    hcases, fcases, ccases, keep = [], [], [], []
    hist, interest = {}, {"requeued": 0, "dropped": 0, "dropped_with_tail": 0, "chained": 0, "cleared_in_flight": 0, "injected_ops": 0, "fired": 0}
    for sc in scs:
        evs, _ = events_of_trace(sc["trace"])
        snap = sc["trace"][-1].get("snap") if sc["trace"] else None
        lib_panic = any(isinstance(st["res"], dict) and "panic" in st["res"] for st in sc["trace"])
        case, h, nl = handover_case(evs, None if lib_panic else snap)
        hcases.append(case)
        fc, _, _ = sendflow.coq_case(sc)
        fcases.append(fc)
        cc, _, ncl = counts.coq_case(sc)
        ccases.append(cc if cc else None)
        keep.append(sc)
        for k, v in h.items():
            hist[k] = hist.get(k, 0) + v
        for k, v in handover_interest(evs).items():
            interest[k] += v
        for st in sc["trace"]:
            if st["op"].get("op") == "conn_poll_inject" and isinstance(st["res"], dict):
                interest["fired"] += 1 if st["res"].get("fired") else 0
                interest["injected_ops"] += len(st["res"].get("injected", []))
    failing_h, err = common.coq_eval_failing("c20_inject_handover", HPRE, "check_handover", hcases, shard=10)
    if err:
        rep.violation("broken-correspondence", {"what": "coqc failed on generated handover cases", "log": err[-3000:]}, no_input=True)
    failing_f, err = common.coq_eval_failing("c20_inject_sendflow", sendflow.PREAMBLE, "check_sendflow", fcases, shard=10)
    if err:
        rep.violation("broken-correspondence", {"what": "coqc failed on generated sendflow cases (inject)", "log": err[-3000:]}, no_input=True)
    idx = [i for i, c in enumerate(ccases) if c]
    failing_c0, err = common.coq_eval_failing("c20_inject_counts", counts.PREAMBLE, "check_counts", [ccases[i] for i in idx], shard=10)
    failing_c = [idx[i] for i in failing_c0]
    if err:
        rep.violation("broken-correspondence", {"what": "coqc failed on generated counts cases (inject)", "log": err[-3000:]}, no_input=True)
    nontrivial = sum(1 for sc in keep if any(st["op"].get("op") == "conn_poll_inject" and isinstance(st["res"], dict) and st["res"].get("fired")
                                              for st in sc["trace"]))
    rep.correspondences.append({
        "name": "inject-lockstep (handover + sendflow + counts)", "cases": len(keep), "nontrivial": nontrivial,
        "disagreements": len(failing_h) + len(failing_f) + len(failing_c),
        "distribution": {"handover_labels": hist, "exercised": interest, "corpus": len(corpus)},
        "rule": "single-threaded driver, profile `inject` (client and server, big bodies, tiny write budgets): 1-3 handle operations "
                "run from inside the transport's poll_write/poll_flush callback of a connection poll (where poll_complete holds no lock), "
                "half of the time aimed at the stream owning the DATA frame in flight (reset, drop of all its handles, more data, "
                "reserve); projected to labels of Model/Handover.v (lock sections, codec completion, handle operations) and compared "
                "with in_flight_data_frame / buffered_send_data observed at each label, every re-queue / drop / done decision and the "
                "final snapshot; the same traces through check_sendflow and check_counts; non-trivial = an injection fired"})
    return keep, {"handover": failing_h, "sendflow": failing_f, "counts": failing_c}, (hcases, fcases, ccases)


def oracle_inject(rep, scs):
    n_viol = 0
    stats = {"data_frames": 0, "rst": 0, "hung": 0}
    for sc in scs:
        frames = [f for st in sc["trace"] for f in st["out"]]
        v = wire_order_oracle(frames) + driver_pattern_oracle(sc)
        for st in sc["trace"][-3:]:
            v += lost_tail_oracle(st.get("snap"))
        if sc.get("settled") and sc["trace"] and not any(st["op"].get("op") in ("eof", "read_fail", "drop_conn") or
                                                        (st["op"].get("op") == "write_mode" and st["op"].get("mode") in ("fail", "zero"))
                                                        for st in sc["trace"]):
            v += stuck_reset_oracle(sc["trace"][-1].get("snap"))
        lv, ls = sendflow.wire_ledger(sc)
        v += lv
        stats["data_frames"] += ls["data_frames"]
        stats["rst"] += sum(1 for f in frames if f["t"] == "RST_STREAM")
        for st in sc["trace"]:
            r = st["res"]
            if isinstance(r, dict) and "panic" in r and not known_panic(r["panic"]):
                v.append({"step": st["i"], "why": "panic", "panic": r["panic"], "op": st["op"]})
            if st["op"].get("op") == "conn_poll_inject" and isinstance(r, dict):
                for inj in r.get("injected", []):
                    ir = inj.get("res")
                    if isinstance(ir, dict) and "panic" in ir:
                        v.append({"step": st["i"], "why": "panic in an operation injected between the lock sections", "op": inj.get("op")})
        if v:
            n_viol += 1
            if n_viol <= 3:
                rep.violation("failing-input", {"oracle": "C20 inject: wire order / byte pattern / credit ledger / panics", "violations": v[:5],
                                                "scenario": {"cfg": sc["cfg"], "seed": sc.get("seed"), "i": sc.get("i"),
                                                             "trace": [{"op": st["op"]} for st in sc["trace"]]}})
    rep.oracle_runs.append({"name": "inject wire oracles (no DATA after RST_STREAM, byte pattern, credit ledger, no panic)", "cases": len(scs),
                            "nontrivial": sum(1 for sc in scs if any(f["t"] == "DATA" and f["flen"] > 0 for st in sc["trace"] for f in st["out"])),
                            "failures": n_viol, "stats": stats})
    return n_viol


def known_panic(msg):
    # the `unstable`-only debug assertions in Drop for Store / Drop for Counts (records left when the whole connection is
    # dropped mid-flight) are feature-unification artefacts of the harness build, not library behaviour
    return "assertion failed: self.slab.is_empty()" in msg or "assertion failed: !self.has_streams()" in msg


def corpus_scenarios(area):
    d = os.path.join(common.VERIF, "corpus", "threads", area)
    out = []
    if os.path.isdir(d):
        for fn in sorted(os.listdir(d)):
            if fn.endswith(".json"):
                with open(os.path.join(d, fn)) as f:
                    v = json.load(f)
                out.append(v.get("scenario", v))
    # re-run corpus op lists on the current tree
    res = []
    for sc in out:
        p = os.path.join(common.CASES, "c20_corpus_replay.json")
        os.makedirs(common.CASES, exist_ok=True)
        with open(p, "w") as f:
            json.dump(sc, f)
        rc, o = common.run_harness("conn", ["--replay", p], timeout=120)
        for line in o.splitlines():
            if line.startswith("{"):
                try:
                    v = json.loads(line)
                except ValueError:
                    continue
                if "trace" in v:
                    res.append(v)
    return res


# ------------------------------------------------------------------------------------------------------------------
# threaded correspondence

def load_runs(out):
    runs, summary = [], {}
    for line in out.splitlines():
        line = line.strip()
        if not line.startswith("{"):
            continue
        try:
            o = json.loads(line)
        except ValueError:
            continue
        if "summary" in o:
            summary = o["summary"]
        else:
            runs.append(o)
    return runs, summary


def pseudo_scenario(run, family):
    """the global log projected to `family`, as a driver-style scenario: one step per root scope, in log order, with the
    operation (and its result) of the thread that emitted it; last step carries the final snapshot"""
    evs = events_of_log(run["log"])
    roots = forest(evs, family)
    ops = sorted(run.get("ops", []), key=lambda o: o["b"])
    by_thread = {}
    for o in ops:
        by_thread.setdefault(o["t"], []).append(o)
    trace = []

    def op_of(tid, seq):
        for o in by_thread.get(tid, []):
            if o["b"] <= seq <= o["e"]:
                return o
        return None
    for i, n in enumerate(roots):
        ev = []
        flatten(n, 0, ev)
        o = op_of(n.tid, n.seq)
        trace.append({"i": i, "op": (o or {}).get("op", {"op": "?"}), "res": (o or {}).get("res"), "ev": ev, "out": [], "wakes": [],
                      "thread": n.tid, "seq": n.seq})
    last = {"i": len(trace), "op": {"op": "final"}, "res": None, "ev": [], "out": [], "wakes": []}
    if run.get("snap"):
        last["snap"] = run["snap"]
    trace.append(last)
    return {"cfg": run["cfg"], "seed": run.get("seed"), "i": run.get("i"), "trace": trace}


def ledger_scenario(run):
    """feeds of the peer and frames of the endpoint merged by sequence number, in the shape sendflow.wire_ledger reads"""
    items = []
    for e in run["log"]:
        if e[3] == "io.feed":
            kind, sid, val = e[4], e[5], e[6]
            if kind == 8:
                items.append((e[0], 0, {"op": "peer", "what": {"t": "WINDOW_UPDATE", "sid": sid, "inc": val}}))
    for f in run.get("frames", []):
        items.append((f["seq"], 1, f))
    items.sort(key=lambda x: (x[0], x[1]))
    trace = []
    for i, (seq, kind, x) in enumerate(items):
        if kind == 0:
            trace.append({"i": i, "op": x, "out": []})
        else:
            trace.append({"i": i, "op": {"op": "write"}, "out": [x]})
    return {"cfg": run["cfg"], "trace": trace}


def cell_history(run):
    """atomic operations on the user-ping cell, in log order: (seq, thread, fop, previous value, inv) where inv is the sequence
    number of the `op.begin` marker of the harness operation during which the event was emitted (the atomic operation happened
    between inv and seq)"""
    h = []
    begins = {}
    for o in run.get("ops", []):
        begins.setdefault(o["t"], []).append((o["b"], o["e"]))

    def inv_of(tid, seq):
        for b, e in begins.get(tid, []):
            if b <= seq <= e:
                return b
        return 0
    for e in run["log"]:
        nm, a = e[3], e[4:]
        if nm == "ping.user_send":
            h.append((e[0], e[1], "FUserSend", a[0], inv_of(e[1], e[0])))
        elif nm == "ping.user_poll_pong":
            h.append((e[0], e[1], "FUserPoll", a[0], inv_of(e[1], e[0])))
        elif nm == "ping.user_receive_pong":
            h.append((e[0], e[1], "FReceivePong", a[0], inv_of(e[1], e[0])))
        elif nm == "ping.emit_ping" and a[2] == 1:
            h.append((e[0], e[1], "FLoadStore", 1, inv_of(e[1], e[0])))
        elif nm == "ping.user_closed":
            h.append((e[0], e[1], "FDrop", a[0], inv_of(e[1], e[0])))
    return h


CELL = {0: "UEmpty", 1: "UPendingPing", 2: "UPendingPong", 3: "UReceivedPong", 4: "UClosed"}


def cell_apply(c, op):
    if op == "FUserSend":
        return 1 if c == 0 else c
    if op == "FUserPoll":
        return 0 if c == 3 else c
    if op == "FReceivePong":
        return 3 if c == 2 else c
    if op == "FLoadStore":
        return 2
    if op == "FDrop":
        return 4
    return c


def linearise_cell(h):
    """linearisability: find an order of the recorded operations, consistent with every thread's own order AND with real time
    (an operation whose event was logged before another operation was even invoked precedes it), in which each operation saw
    the value it reported.  Events are emitted after the atomic operation, so the log order itself may be off."""
    per = {}
    for x in h:
        per.setdefault(x[1], []).append(x)
    tids = sorted(per)
    seen = set()

    def go(pos, c, acc):
        if all(pos[t] == len(per[t]) for t in tids):
            return acc
        st = (tuple(pos[t] for t in tids), c)
        if st in seen:
            return None
        seen.add(st)
        cand = sorted((per[t][pos[t]] for t in tids if pos[t] < len(per[t])), key=lambda x: x[0])
        first_resp = min(x[0] for x in cand)
        for x in cand:
            if x[4] > first_resp:
                continue          # some pending operation completed before this one was invoked
            if x[3] != c and not (x[2] == "FLoadStore" and c == 1):
                continue
            if x[2] == "FLoadStore" and c != 1:
                continue
            pos2 = dict(pos)
            pos2[x[1]] += 1
            r = go(pos2, cell_apply(c, x[2]), acc + [x])
            if r is not None:
                return r
        return None
    sys.setrecursionlimit(10000)
    return go({t: 0 for t in tids}, 0, [])


CELLPRE = ("From H2V Require Import Base.Tac Base.Bytes Model.Control.\nLocal Open Scope N_scope.\n"
           "Definition cell_ok (c : list (fop * ucell)) : bool :=\n"
           "  (fix go (f : fcell) (l : list (fop * ucell)) : bool :=\n"
           "     match l with [] => true | (o, before) :: l' => ucell_eqb (f_cell f) before &&\n"
           "       match fstep f o with Some f1 => go f1 l' | None => false end end) (mkF UEmpty false) c.\n")


def cell_case(order):
    items = []
    for x in order:
        if x[2] == "FLoadStore":
            items.append("(FLoad, UPendingPing)")
            items.append("(FStore, UPendingPing)")
        else:
            items.append("(%s, %s)" % (x[2], CELL.get(x[3], "UClosed")))
    return "[%s]" % "; ".join(items)


def correspond_threads(rep, tier, seed):
    n = 18 if tier == "quick" else 400
    nops = 90 if tier == "quick" else 150
    runs = []
    dist = {"workers": {}}
    for wi, workers in enumerate((2, 3, 4)):
        rc, out = common.run_harness("threads", ["--seed", seed * 8191 + wi, "--n", n // 3, "--workers", workers, "--ops", nops], timeout=900)
        rs, _ = load_runs(out)
        if rc not in (0,):
            rs.append({"harness_exit": rc, "tail": out[-1500:], "cfg": {}, "log": [], "ops": [], "frames": [], "panics": [], "deadlock": rc == 3})
        runs += rs
        dist["workers"][workers] = len(rs)
    cases = {"sendflow": [], "counts": [], "recvflow": [], "handover": [], "cell": []}
    index = {k: [] for k in cases}
    stats = {"events": 0, "locked_sections": 0, "thread_switches_between_sections": 0, "ops": 0, "conn_polls": 0, "pings_linearised": 0,
             "out_of_order_cell_events": 0}
    interest = {"requeued": 0, "dropped": 0, "dropped_with_tail": 0, "chained": 0, "cleared_in_flight": 0}
    hard = []          # deadlocks, panics, atomicity, wire
    for ri, run in enumerate(runs):
        if run.get("deadlock") or run.get("harness_exit"):
            hard.append((ri, {"why": "deadlock: no progress for 20 s with unfinished workers" if run.get("deadlock") else "harness died",
                              "detail": {k: run.get(k) for k in ("harness_exit", "tail", "last_events", "ops_done", "cfg", "seed", "i", "workers")}}))
            continue
        if run.get("error"):
            hard.append((ri, {"why": "harness error", "detail": run.get("error")}))
            continue
        evs = events_of_log(run["log"])
        stats["events"] += len(evs)
        stats["ops"] += len(run["ops"])
        stats["conn_polls"] += run.get("stats", {}).get("polls", 0)
        for p in run.get("panics", []):
            hard.append((ri, {"why": "panic on a thread", "detail": p}))
        if run.get("panics"):
            continue
        bad, nsec, sw = atomicity_violations(evs)
        stats["locked_sections"] += nsec
        stats["thread_switches_between_sections"] += sw
        for b in bad[:2]:
            hard.append((ri, {"why": "events of another thread inside a lock-atomic section", "detail": b}))
        v = wire_order_oracle(run.get("frames", []))
        v += [{"why": "DATA payload is not the next bytes of the body", "frame": f} for f in run.get("frames", []) if f.get("t") == "DATA" and not f.get("pattern_ok")]
        lv, _ = sendflow.wire_ledger(ledger_scenario(run))
        v += lv
        if run.get("settled"):
            v += stuck_reset_oracle(run.get("snap"))
        v += lost_tail_oracle(run.get("snap"))
        for o in run["ops"]:
            r = o.get("res")
            if isinstance(r, dict) and r.get("pattern_ok") is False:
                v.append({"why": "received body bytes out of pattern", "op": o})
        for x in v[:3]:
            hard.append((ri, {"why": "wire oracle", "detail": x}))
        for k, vv in handover_interest(evs).items():
            interest[k] += vv
        settled = run.get("settled") and not (run.get("snap") or {}).get("conn", {}).get("conn_error")
        # projections
        sc = pseudo_scenario(run, lambda nme: nme in sendflow.FLOW)
        c, _, nl = sendflow.coq_case(sc)
        if nl:
            cases["sendflow"].append(c)
            index["sendflow"].append(ri)
        sc = pseudo_scenario(run, lambda nme: nme.startswith("counts."))
        c, _, nl = counts.coq_case(sc)
        if c and nl:
            cases["counts"].append(c)
            index["counts"].append(ri)
        sc = pseudo_scenario(run, lambda nme: nme in recvflow.FAMILY)
        c, _, nl = recvflow.coq_case(sc)
        if nl:
            cases["recvflow"].append(c)
            index["recvflow"].append(ri)
        c, _, nl = handover_case(evs, run.get("snap") if settled else None)
        if nl:
            cases["handover"].append(c)
            index["handover"].append(ri)
        h = cell_history(run)
        if h:
            order = linearise_cell(h)
            if order is None:
                hard.append((ri, {"why": "no linearisation of the user-ping cell operations explains the observed values", "detail": h[:40]}))
            else:
                stats["pings_linearised"] += sum(1 for x in order if x[2] == "FLoadStore")
                stats["out_of_order_cell_events"] += sum(1 for a, b in zip(order, order[1:]) if a[0] > b[0])
                cases["cell"].append(cell_case(order))
                index["cell"].append(ri)
    failing = {}
    for name, pre, fn in (("sendflow", sendflow.PREAMBLE, "check_sendflow"), ("counts", counts.PREAMBLE, "check_counts"),
                          ("recvflow", recvflow.PREAMBLE, "check_recvflow"), ("handover", HPRE, "check_handover"), ("cell", CELLPRE, "cell_ok")):
        f, err = common.coq_eval_failing("c20_threads_" + name, pre, fn, cases[name], shard=6)
        if err:
            rep.violation("broken-correspondence", {"what": "coqc failed on generated %s cases (threads)" % name, "log": err[-3000:]}, no_input=True)
        failing[name] = [(index[name][i], cases[name][i]) for i in f]
    n_dis = sum(len(v) for v in failing.values())
    rep.correspondences.append({
        "name": "threads-linearisation (real parallel runs through check_sendflow / check_counts / check_recvflow / check_handover / Control.frun)",
        "cases": len(runs), "nontrivial": sum(1 for r in runs if len(r.get("frames", [])) > 10), "disagreements": n_dis,
        "distribution": {"runs_by_workers": dist["workers"], "stats": stats, "exercised": interest,
                         "model_cases": {k: len(v) for k, v in cases.items()}},
        "rule": "harness `threads`: a client connection polled on its own OS thread against a scripted peer thread (responses, DATA, "
                "WINDOW_UPDATE with seeded laziness, RST_STREAM, PING/SETTINGS acks, transport credit in small random grants so that "
                "flushes stay partial), 2/3/4 worker threads issuing send_request, send_data (0..40000 bytes), reserve_capacity, "
                "capacity, poll_capacity, send_reset, poll_reset, send_trailers, poll_response, poll_data, release_capacity, clones "
                "and drops, user pings, with seeded yields / spins / sleeps; every hook event of every thread goes to one "
                "sequence-numbered log appended under the library's lock; the log, projected exactly like a single-threaded trace, is "
                "replayed through the Coq models (observed pre-state at every label, outputs, API results, final snapshot)"})
    return runs, failing, hard


def report_threads(rep, runs, failing, hard, theorems):
    n = 0
    for ri, h in hard[:4]:
        run = runs[ri]
        n += 1
        rep.violation("failing-input", {"oracle": "C20 threaded run: " + h["why"], "detail": h["detail"],
                                        "rerun": "harness/threads --seed %s --first %s --n %s --workers %s (real threads: a schedule-dependent "
                                                 "failure may need several attempts)" % (run.get("seed"), run.get("i"), (run.get("i") or 0) + 1, run.get("workers")),
                                        "cfg": run.get("cfg"), "ops": [o.get("op") for o in run.get("ops", [])][:400]})
    for name, fl in failing.items():
        for ri, case in fl[:2]:
            run = runs[ri]
            n += 1
            rep.violation("broken-correspondence", {
                "correspondence": "a recorded order of lock sections of a REAL multi-threaded run is rejected by the %s model" % name,
                "check": {"sendflow": "check_sendflow", "counts": "check_counts", "recvflow": "check_recvflow", "handover": "check_handover", "cell": "cell_ok"}[name],
                "model": name, "coq_case": case, "replay_hint": "./check C20 --replay <this file> re-evaluates coq_case inside Coq, no threads needed",
                "theorems_no_longer_tied_to_code": theorems, "cfg": run.get("cfg"), "seed": run.get("seed"), "i": run.get("i"), "workers": run.get("workers"),
                "git_head_and_status_of_repo": common.sh("git -C %s log --oneline -1; git -C %s status --short" % (common.REPO, common.REPO))[1][-800:],
                "raw_log": run.get("log", [])[:30000], "ops": run.get("ops", [])[:2000]},
                no_input=True)
    return n


# ------------------------------------------------------------------------------------------------------------------
# poisoned-lock probes

def probe_poison(rep):
    res = {}
    for kind in ("poison-ref", "poison-recv"):
        rc, out = common.run_harness("threads", ["--probe", kind], timeout=60)
        info = None
        for line in out.splitlines():
            if line.startswith("{"):
                try:
                    info = json.loads(line)
                except ValueError:
                    pass
        res[kind] = {"exit": rc, "info": info}
        ok = rc == 0 and info and info.get("first_panic_unwound") and info.get("next_handle_op_panics")
        if not ok:
            rep.violation("failing-input", {
                "oracle": "C20 poisoned lock: a panic under the stream-state lock (user Buf::remaining) with %s on the unwinding stack" %
                          ("a RecvStream" if kind == "poison-recv" else "SendStream / ResponseFuture only"),
                "expected": "the first panic unwinds (no abort), the poisoned lock surfaces as a panic on the next handle operation",
                "observed": res[kind], "rerun": "harness/threads --probe %s" % kind,
                "note": "exit 134 = SIGABRT: a destructor panicked while unwinding (lock().unwrap() on the poisoned mutex)"})
    rep.oracle_runs.append({"name": "poisoned-lock probes (child processes)", "cases": 2, "nontrivial": 2,
                            "failures": sum(1 for k in res if res[k]["exit"] != 0), "results": res})
    return res


def replay_case(path):
    with open(path) as f:
        v = json.load(f)
    model, case = v.get("model"), v.get("coq_case")
    if not case and v.get("scenario"):
        # an inject scenario (op list): re-run it on the current tree and apply the oracles again
        os.makedirs(common.CASES, exist_ok=True)
        p = os.path.join(common.CASES, "c20_replay_scenario.json")
        with open(p, "w") as f:
            json.dump(v["scenario"], f)
        rc, o = common.run_harness("conn", ["--replay", p], timeout=240)
        if rc == 124:
            print("VIOLATION property=C20 replay=%s (the driver hangs: deadlock)" % path)
            return 1
        scs, _ = sendflow.load_scenarios(o)
        rep = common.Report("C20", "quick", 1)
        for sc in scs:
            sc["settled"] = True
        n = oracle_inject(rep, scs)
        if n:
            print("VIOLATION property=C20 replay=%s (oracles fail again: see %s)" % (path, rep.violations[0][0] if rep.violations else "?"))
            return 1
        print("OK: the oracles accept the scenario on the current tree")
        return 0
    if not case:
        print("replay file carries no Coq case (harness-level failure): rerun hint: %s" % v.get("rerun"))
        return 2
    pre, fn = {"sendflow": (sendflow.PREAMBLE, "check_sendflow"), "counts": (counts.PREAMBLE, "check_counts"),
               "recvflow": (recvflow.PREAMBLE, "check_recvflow"), "handover": (HPRE, "check_handover"), "cell": (CELLPRE, "cell_ok")}[model]
    failing, err = common.coq_eval_failing("c20_replay", pre, fn, [case], shard=1)
    if err:
        print("coqc failed:\n" + err[-2000:])
        return 2
    if failing:
        diag = {"sendflow": "diag_sendflow", "counts": "diag_counts", "handover": "diag_handover"}.get(model)
        if diag:
            rc, out = common.coq_eval_raw("c20_replay_diag", pre + "Definition c := %s.\nEval vm_compute in (%s c).\n" % (case, diag))
            m = re.search(r"= (\d+)%N", out)
            print("diag code", m.group(1) if m else "?", "(10*(label index+1) + 1 pre-state / 2 outputs / 3 Stuck / 4 Panic)")
        print("VIOLATION property=C20 replay=%s (the %s model rejects the recorded order)" % (path, model))
        return 1
    print("OK: the %s model accepts the recorded order on the current tree" % model)
    return 0
