"""C10: HPACK encoder.

correspond_hpackenc(rep, tier, seed)
    runs the real `hpack::Encoder` (harness binary `hpackenc`) on HISTORIES (Encoder::new, then
    1..8 header blocks with update_max_size calls in between; committed corpus first, then the
    streams mixed / evict / resize / static / sensitive) and evaluates the model
    (`Model.HpackEnc.check_hpack_enc`) on the same inputs inside Coq: the emitted octets must be
    identical, block by block, and so must the table size / max_size after every block and the
    table entries at the end of the history.  The model searches a plain list where the code has
    a Robin-Hood hash index: this run is what ties the two.

search_hpackenc(rep, tier, seed, reason=None)
    the oracle, independent of the encoder model: for every history
      (a) the RFC 7541 reference decoder (`Ref.Rfc7541Block.ref_decode_block`, hd :=
          `Model.Huffman.huff_decode_opt`, threaded through the history) evaluated in Coq on the
          octets the implementation emitted returns exactly the submitted (name, value) lists,
          every reduction of the limit is signalled by a size update at the start of the next
          block, and the table stays within the limit (`Model.HpackEnc.oracle_hpack_enc`);
      (b) h2's own `hpack::Decoder`, kept in step inside the harness, decoded every block to the
          submitted list and ended with the same table as the encoder.
    A history that fails (a) or (b) is a violation of C10 -> rep.violation("failing-input", shrunk
    history).  Model != implementation without an oracle failure ->
    rep.violation("broken-correspondence", ..., no_input=True).
"""
import json
import os
import re
import sys

sys.path.insert(0, os.path.join(os.path.dirname(os.path.abspath(__file__)), "..", ".."))
import common  # noqa: E402

THEOREMS = ["C10_roundtrip", "C10_roundtrip_nonvacuous", "C10_never_panics", "C10_table_bound",
            "C10_reduction_signalled", "C10_reduction_signalled_nonvacuous", "C10_split",
            "C10_sensitive_never_indexed"]

CORPUS = os.path.join(common.VERIF, "corpus", "hpackenc")
MODES = ("mixed", "evict", "resize", "static", "sensitive")
MAX_ALLOWED = 4096

PREAMBLE = ("From Coq Require Import Uint63.\nFrom H2V Require Import Base.Tac Base.Bytes Model.HpackEnc.\n"
            "Local Open Scope N_scope.\n")
ORACLE_PREAMBLE = ("From Coq Require Import Uint63.\nFrom H2V Require Import Base.Tac Base.Bytes Model.HpackEnc.\n"
                   "Local Open Scope N_scope.\n"
                   "Definition oracle_ok c := oracle_of_case_packed c =? 0.\n")
BOTH_PREAMBLE = ("From Coq Require Import Uint63.\nFrom H2V Require Import Base.Tac Base.Bytes Model.HpackEnc.\n"
                 "Local Open Scope N_scope.\n"
                 "Definition both_ok c := check_and_oracle_packed c =? 0.\n")

ORACLE_CLASSES = {
    1: "emitted-block-rejected-by-reference-decoder",
    2: "decodes-to-different-header-list",
    3: "reduction-not-signalled",
    4: "table-above-allowed-size",
    5: "encoder-and-decoder-table-accounts-differ",
    6: "h2-decoder-rejects-or-differs",
}


# ------------------------------------------------------------------------------------------
# rendering

def nl(xs):
    return common.coq_N_list(xs) if xs else "(@nil N)"


def pb(xs):
    """an octet string in the compact transport form of Model.HpackEnc ([pbytes]): its length and
    7 octets per primitive integer, little endian (coqc reads list literals of octets very slowly)"""
    if not xs:
        return "(0, (@nil Uint63.int))"
    data = bytes(xs)
    words = [str(int.from_bytes(data[i:i + 7], "little")) for i in range(0, len(data), 7)]
    if len(words) > 3000:
        # one list literal of tens of thousands of elements overflows coqc's stack
        lit = "(" + " ++ ".join("[" + "; ".join(words[i:i + 2000]) + "]" for i in range(0, len(words), 2000)) + ")%uint63"
    else:
        lit = "[" + "; ".join(words) + "]%uint63"
    return "(%d, %s)" % (len(data), lit)


def ppairs(fs):
    if not fs:
        return "(@nil (pbytes * pbytes))"
    return "[" + "; ".join("(%s, %s)" % (pb(n), pb(v)) for n, v in fs) + "]"


def field_in(f):
    n, v, s = f
    return "(%s, %s, %s)" % ("None" if n is None else "(Some %s)" % pb(n), pb(v), common.coq_bool(s))


def fields_in(fs):
    if not fs:
        return "(@nil pfield_in)"
    return "[" + "; ".join(field_in(f) for f in fs) + "]"


def block_term(b):
    if b.get("out") is None:
        obs = "PPanicNoName" if b.get("panic") == "no-previous-name" else "PPanicOther"
    else:
        t = b["table"]
        ent = "(Some %s)" % ppairs(t["entries"]) if "entries" in t else "None"
        obs = "(POut %s %d %d %s)" % (pb(b["out"]), t["size"], t["max"], ent)
    return "(%s, %s, %s)" % (nl(b["ups"]), fields_in(b["fields"]), obs)


def case_term(c):
    """a history as a term of type N * N * list pblock_rec (Model.HpackEnc, compact transport)"""
    return "(%d, %d, [%s])" % (c["init"], c["cap"], "; ".join(block_term(b) for b in c["blocks"]))


def submitted(fields):
    out, last = [], []
    for n, v, _ in fields:
        if n is not None:
            last = n
        out.append((last, v))
    return out


def oracle_term(c):
    """the oracle reads the same case term: `Model.HpackEnc.oracle_of_case` takes the history up
    to the first block on which `encode` panicked, the submitted (name, value) lists (names of
    nameless fields resolved) and the emitted octets from it"""
    return case_term(c)


def inputs_only(c):
    return {"init": c["init"], "cap": c.get("cap", 0),
            "blocks": [{"ups": b["ups"], "fields": b["fields"]} for b in c["blocks"]]}


# ------------------------------------------------------------------------------------------
# running

def parse(out):
    """group the per-block lines into histories"""
    hist, order, summary, errors = {}, [], {}, []
    for line in out.splitlines():
        line = line.strip()
        if not line.startswith("{"):
            continue
        try:
            o = json.loads(line)
        except ValueError:
            continue
        if "summary" in o:
            summary = o["summary"]
            continue
        if "error" in o:
            errors.append(o)
            continue
        if "h" not in o:
            continue
        h = hist.get(o["h"])
        if h is None:
            h = {"init": o["init"], "cap": o["cap"], "blocks": []}
            hist[o["h"]] = h
            order.append(o["h"])
        h["blocks"].append({k: o[k] for k in ("ups", "fields", "out", "panic", "table", "dec", "dsync") if k in o})
    return [hist[k] for k in order], summary, errors


def run_mode(mode, seed, n, timeout=1800):
    rc, out = common.run_harness("hpackenc", ["--seed", seed, "--n", n, "--mode", mode], timeout=timeout)
    cases, summary, _ = parse(out)
    return cases, summary


def replay(histories, timeout=900):
    """run the implementation on given inputs (list of {"init","cap","blocks":[{"ups","fields"}]})"""
    text = "\n".join(json.dumps(h) for h in histories) + "\n"
    rc, out = common.run_harness("hpackenc", ["--mode", "replay"], timeout=timeout, input=text.encode())
    return parse(out)[0]


def corpus_inputs():
    hs = []
    if os.path.isdir(CORPUS):
        for fn in sorted(os.listdir(CORPUS)):
            if not fn.endswith(".jsonl"):
                continue
            with open(os.path.join(CORPUS, fn)) as f:
                for line in f:
                    line = line.strip()
                    if line.startswith("{"):
                        hs.append(json.loads(line))
    return hs


def _shard(terms):
    """aim at 3 shards per core, at least 40 kB of (packed) Coq input each"""
    total = sum(len(t) for t in terms)
    per = max(4e4, total / (3.0 * common.NPROC))
    return max(1, min(250, int(len(terms) * per / max(total, 1))))


def both_failing(tag, cases):
    """indices of histories where the model disagrees or the oracle objects (one pass)"""
    if not cases:
        return [], None
    terms = [case_term(c) for c in cases]
    return common.coq_eval_failing(tag, BOTH_PREAMBLE, "both_ok", terms, shard=_shard(terms), timeout=2400)


def model_failing(tag, cases):
    """indices of histories on which model and implementation disagree, error log"""
    if not cases:
        return [], None
    terms = [case_term(c) for c in cases]
    return common.coq_eval_failing(tag, PREAMBLE, "check_hpack_enc_packed", terms, shard=_shard(terms), timeout=1800)


def oracle_failing(tag, cases):
    if not cases:
        return [], None
    terms = [oracle_term(c) for c in cases]
    return common.coq_eval_failing(tag, ORACLE_PREAMBLE, "oracle_ok", terms, shard=_shard(terms), timeout=1800)


def h2_decoder_objects(c):
    """(b): h2's own decoder, run in step by the harness"""
    for b in c["blocks"]:
        if b.get("out") is None:
            return False
        d = b.get("dec", {})
        if "err" in d or not d.get("same", False) or not b.get("dsync", False):
            return True
    return False


def oracle_code(c):
    rc, out = common.coq_eval_raw("hpackenc_oracle_code", ORACLE_PREAMBLE +
                                  'Goal True. idtac "@@RESULT". Abort.\nEval vm_compute in (oracle_of_case_packed %s).\n' % oracle_term(c))
    if rc != 0 or "@@RESULT" not in out:
        return -1
    m = re.search(r"=\s*(\d+)\s*:\s*N", out.split("@@RESULT", 1)[1].replace("\n", " "))
    code = int(m.group(1)) if m else -1
    if code == 0 and h2_decoder_objects(c):
        return 6
    return code


# ------------------------------------------------------------------------------------------
# shrinking

def shrink(history, still_bad, budget=60):
    """greedy: drop blocks, drop update_max_size calls, drop fields (halves, then single ones),
    shorten values.  `still_bad(inputs) -> bool` re-runs the implementation and Coq."""
    cur = inputs_only(history)
    steps = [0]

    def ok(h):
        if steps[0] >= budget:
            return False
        steps[0] += 1
        try:
            return bool(h["blocks"]) and still_bad(h)
        except Exception:
            return False

    def with_blocks(bl):
        return {"init": cur["init"], "cap": cur["cap"], "blocks": bl}

    # 1. fewer blocks (from the end, then anywhere)
    changed = True
    while changed and len(cur["blocks"]) > 1:
        changed = False
        for i in reversed(range(len(cur["blocks"]))):
            h = with_blocks(cur["blocks"][:i] + cur["blocks"][i + 1:])
            if ok(h):
                cur, changed = h, True
                break
    # 2. fewer size updates
    for bi in range(len(cur["blocks"])):
        b = cur["blocks"][bi]
        for k in reversed(range(len(b["ups"]))):
            nb = dict(b, ups=b["ups"][:k] + b["ups"][k + 1:])
            h = with_blocks(cur["blocks"][:bi] + [nb] + cur["blocks"][bi + 1:])
            if ok(h):
                cur, b = h, nb
    # 3. fewer fields
    for bi in range(len(cur["blocks"])):
        width = max(1, len(cur["blocks"][bi]["fields"]) // 2)
        while width >= 1:
            j = 0
            while j < len(cur["blocks"][bi]["fields"]):
                b = cur["blocks"][bi]
                nf = b["fields"][:j] + b["fields"][j + width:]
                # a nameless field must keep a predecessor
                if nf and nf[0][0] is None:
                    j += width
                    continue
                h = with_blocks(cur["blocks"][:bi] + [dict(b, fields=nf)] + cur["blocks"][bi + 1:])
                if ok(h):
                    cur = h
                else:
                    j += width
            width //= 2
    # 4. shorter values
    for bi in range(len(cur["blocks"])):
        for fi in range(len(cur["blocks"][bi]["fields"])):
            b = cur["blocks"][bi]
            n, v, s = b["fields"][fi]
            if len(v) > 4:
                nf = b["fields"][:fi] + [[n, v[:len(v) // 2], s]] + b["fields"][fi + 1:]
                h = with_blocks(cur["blocks"][:bi] + [dict(b, fields=nf)] + cur["blocks"][bi + 1:])
                if ok(h):
                    cur = h
    return cur


def model_disagrees(h):
    cs = replay([h])
    if not cs:
        return False
    failing, err = model_failing("hpackenc_shrink", cs)
    return bool(failing) and not err


def oracle_objects(h):
    cs = replay([h])
    if not cs:
        return False
    if h2_decoder_objects(cs[0]):
        return True
    failing, err = oracle_failing("hpackenc_shrink_o", cs)
    return bool(failing) and not err


def readable(h):
    """the history with octet strings shown as text (for the replay file)"""
    def txt(b):
        return None if b is None else bytes(b).decode("latin-1")
    return [{"ups": b["ups"], "fields": [[txt(n), txt(v), s] for n, v, s in b["fields"]]} for b in h["blocks"]]


# ------------------------------------------------------------------------------------------
# the check

def plan(tier):
    if tier == "quick":
        return {"mixed": 130, "evict": 110, "resize": 100, "static": 60, "sensitive": 60}
    return {"mixed": 4000, "evict": 4000, "resize": 3000, "static": 2000, "sensitive": 2000}


def known_classes():
    kf = common.load_known_findings()
    res = {}
    for k in kf.get("known", []):
        if isinstance(k, dict) and k.get("property") == "C10" and k.get("class"):
            res[k["class"]] = k
    return res


def judge(rep, c, what):
    """decide with the oracle whether a history violates C10; report accordingly.
    Returns True when a failing input was reported."""
    code = oracle_code(c)
    if code > 0:
        cls = ORACLE_CLASSES.get(code, "oracle-%d" % code)
        small = shrink(c, oracle_objects)
        sc = replay([small])
        payload = {"class": cls, "what": what, "history": small, "history_text": readable(small),
                   "implementation": sc[0]["blocks"] if sc else None, "oracle_code": code,
                   "reference": "Model.HpackEnc.oracle_hpack_enc (RFC 7541 reference decoder of Ref/Rfc7541Block.v "
                                "evaluated in Coq on the emitted octets) and h2's own hpack::Decoder"}
        kn = known_classes()
        if cls in kn:
            rep.known("C10/%s: %s" % (cls, kn[cls].get("title", "")))
            return True
        rep.violation("failing-input", payload)
        return True
    return False


def ensure_model():
    """Model/HpackEnc.vo has to be consistent with what it imports (Ref/Rfc7541Block.v is shared):
    rebuild it when stale.  Returns an error log or None."""
    ok, log, failing = common.coq_make(["Model/HpackEnc.vo"], timeout=900)
    return None if ok else "make Model/HpackEnc.vo failed (%s)\n%s" % (failing, log[-2000:])


def gather(tier, seed):
    p = plan(tier)
    streams = []
    corpus = corpus_inputs()
    if corpus:
        streams.append(("corpus", replay(corpus), {"mode": "corpus", "histories": len(corpus)}))
    for mode in MODES:
        cs, summary = run_mode(mode, seed, p[mode])
        streams.append((mode, cs, summary))
    return streams


def evaluate(tag, streams):
    """one Coq pass over all streams: per stream the indices where the model disagrees and where
    the Coq oracle objects.  Returns ({stream: (model_failing, oracle_failing)}, err)."""
    flat, where = [], []
    for name, cases, _ in streams:
        for i, c in enumerate(cases):
            flat.append(c)
            where.append((name, i))
    res = {name: ([], []) for name, _, _ in streams}
    failing, err = both_failing(tag, flat)
    if failing:
        sub = [flat[k] for k in failing]
        mf, err1 = model_failing(tag + "_m", sub)
        of, err2 = oracle_failing(tag + "_o", sub)
        err = err or err1 or err2
        for j in mf:
            name, i = where[failing[j]]
            res[name][0].append(i)
        for j in of:
            name, i = where[failing[j]]
            res[name][1].append(i)
    return res, err


def correspond_hpackenc(rep, tier, seed):
    err = ensure_model()
    if err:
        rep.violation("broken-correspondence", {"what": "the encoder model does not compile", "log": err}, no_input=True)
        return [], []
    streams = gather(tier, seed)
    res, err = evaluate("hpackenc", streams)
    if err:
        rep.violation("broken-correspondence", {"what": "coqc failed on generated hpackenc cases",
                                                "log": err[-3000:]}, no_input=True)
    all_failing = []
    for name, cases, summary in streams:
        failing = res[name][0]
        nontrivial = len({json.dumps([b["fields"] for b in c["blocks"]]) for c in cases
                          if any(b.get("out") for b in c["blocks"])})
        rep.correspondences.append({
            "name": "hpackenc/" + name, "cases": len(cases), "nontrivial": nontrivial,
            "blocks": sum(len(c["blocks"]) for c in cases), "disagreements": len(failing),
            "distribution": summary.get("dist", summary),
            "rule": "a case is a history of one hpack::Encoder (Encoder::new(init, cap), per block 0-3 update_max_size "
                    "calls and 0-40 header fields incl. pseudo headers, static-table names, repeats, sensitive values, "
                    "nameless continuation fields, values around and above the table size); compared per block: the "
                    "emitted octets (exact), table size and max_size, at the end the table entries; non-trivial = "
                    "at least one non-empty block emitted"})
        rep.samples.extend([{"stream": name, "init": c["init"], "blocks": [
            {"ups": b["ups"], "fields": len(b["fields"]), "out": (b.get("out") or [])[:24]} for b in c["blocks"][:2]]}
            for c in cases[:2]])
        for i in failing[:3]:
            c = cases[i]
            all_failing.append((name, i))
            if judge(rep, c, "model and implementation disagree; the oracle objects to the implementation"):
                continue
            small = shrink(c, model_disagrees)
            sc = replay([small])
            rep.violation("broken-correspondence",
                          {"what": "model (Model/HpackEnc.v) and implementation disagree; neither the RFC reference "
                                   "decoder nor h2's decoder objects to what the implementation emitted",
                           "stream": name, "history": small, "history_text": readable(small),
                           "implementation": sc[0]["blocks"] if sc else None},
                          no_input=True)
    # the oracle ran in the same pass on the same histories
    search_hpackenc(rep, tier, seed, reason=None, streams=streams, oracle_res={k: v[1] for k, v in res.items()})
    return streams, all_failing


def search_hpackenc(rep, tier, seed, reason=None, streams=None, oracle_res=None):
    """Search for a history on which the implementation violates C10, judged by the reference
    decoder and by h2's own decoder.  Returns True when one was reported."""
    if streams is None:
        err = ensure_model()
        if err:
            rep.violation("broken-correspondence", {"what": "the encoder model / oracle does not compile", "log": err},
                          no_input=True)
            return False
        p = plan(tier)
        streams = []
        corpus = corpus_inputs()
        if corpus:
            streams.append(("corpus", replay(corpus), {}))
        for mode in MODES:
            cs, summary = run_mode(mode, int(seed) + 7919, p[mode])
            streams.append((mode, cs, summary))
    if oracle_res is None:
        flat, where = [], []
        for name, cases, _ in streams:
            for i, c in enumerate(cases):
                flat.append(c)
                where.append((name, i))
        failing, err = oracle_failing("hpackenc_oracle", flat)
        if err:
            rep.violation("broken-correspondence", {"what": "coqc failed on the hpackenc oracle cases",
                                                    "log": err[-3000:]}, no_input=True)
        oracle_res = {name: [] for name, _, _ in streams}
        for k in failing:
            oracle_res[where[k][0]].append(where[k][1])
    found = False
    total = nontrivial = failures = 0
    reductions = 0
    reported = set()
    for name, cases, summary in streams:
        failing = sorted(set(oracle_res.get(name, [])) | {i for i, c in enumerate(cases) if h2_decoder_objects(c)})
        total += len(cases)
        nontrivial += sum(1 for c in cases if any(b.get("out") for b in c["blocks"]))
        reductions += sum(1 for c in cases for b in c["blocks"] if b.get("out") and (b["out"][0] & 0xe0) == 0x20)
        failures += len(failing)
        for i in failing:
            code = oracle_code(cases[i])
            if code in reported:
                continue
            reported.add(code)
            if judge(rep, cases[i], "oracle objects (stream %s%s)" % (name, ", after " + reason if reason else "")):
                found = True
    rep.oracle_runs.append({"name": "hpackenc/rfc7541-reference-decoder+h2-decoder", "cases": total,
                            "nontrivial": nontrivial, "failures": failures, "blocks_starting_with_size_update": reductions,
                            "rule": "Model.HpackEnc.oracle_of_case on every history (reference decoder with hd := "
                                    "huff_decode_opt returns exactly the submitted fields; reductions signalled; table "
                                    "within the limit; encoder and decoder table accounts agree) AND h2's own Decoder "
                                    "decoded every block to the submitted fields with an identical table"})
    return found


if __name__ == "__main__":
    import time
    tier = sys.argv[1] if len(sys.argv) > 1 else "quick"
    seed = int(sys.argv[2]) if len(sys.argv) > 2 else 1
    rep = common.Report("C10_hpackenc_selftest", tier, seed)
    t0 = time.time()
    correspond_hpackenc(rep, tier, seed)
    for c in rep.correspondences:
        print("correspondence %-20s cases=%-6d blocks=%-7d nontrivial=%-6d disagreements=%d" % (
            c["name"], c["cases"], c["blocks"], c["nontrivial"], c["disagreements"]))
        d = c["distribution"]
        keys = ("fields", "rep_indexed_static", "rep_indexed_dynamic", "rep_incremental_new_name",
                "rep_incremental_static_name", "rep_incremental_dynamic_name", "rep_literal_new_name",
                "rep_literal_static_name", "rep_literal_dynamic_name", "rep_never_new_name", "rep_never_static_name",
                "rep_never_dynamic_name", "rep_size_update", "blocks_two_size_updates", "evictions",
                "evictions_on_insert", "str_huffman", "str_raw", "str_empty", "encode_panics", "decoder_errors",
                "decoder_fields_differ", "decoder_table_differs")
        print("   " + " ".join("%s=%s" % (k, d.get(k, 0)) for k in keys))
    for o in rep.oracle_runs:
        print("oracle %-50s cases=%d nontrivial=%d failures=%d size-update-blocks=%d" % (
            o["name"], o["cases"], o["nontrivial"], o["failures"], o["blocks_starting_with_size_update"]))
    print("violations:", len(rep.violations), [p for p, _ in rep.violations])
    print("wall %.1fs" % (time.time() - t0))
