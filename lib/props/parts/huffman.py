"""Correspondence + oracle for the Huffman string coding of HPACK (part of property C11).

Coq side (Model/Huffman.v):
    check_huff_dec : list N * option (list N) -> bool     (input, Some output | None = Err)
    check_huff_enc : list N * list N -> bool              (input, output)
recompute the model's answer and compare with what the real crate answered.

Oracle (Ref/Rfc7541Huff.v only, independent of the model and of the generated tables):
    decode: the implementation's answer must equal  ref_huff_decode (bits_of_bytes input)
    encode: ref_huff_decode (bits_of_bytes (implementation's output)) must be Some input

    correspond_huffman(rep, tier, seed)   model == implementation on generated inputs
    search_huffman(rep, tier, seed)       oracle only; used when a proof obligation broke
                                          (e.g. table.rs edited) to find a failing input
"""
import glob
import json
import os
import re
import sys

_LIB = os.path.dirname(os.path.dirname(os.path.dirname(os.path.abspath(__file__))))
if _LIB not in sys.path:
    sys.path.insert(0, _LIB)
import common  # noqa: E402

BIN = "huffman"

PREAMBLE_MODEL = ("From H2V Require Import Base.Tac Base.Bytes Model.Huffman.\n"
                  "Local Open Scope N_scope.\n")

PREAMBLE_ORACLE = (
    "From H2V Require Import Base.Tac Base.Bytes Ref.Rfc7541Huff.\n"
    "Local Open Scope N_scope.\n"
    "Definition oracle_dec (c : list N * option (list N)) : bool :=\n"
    "  match ref_huff_decode (bits_of_bytes (fst c)), snd c with\n"
    "  | Some a, Some b => list_N_eqb a b\n"
    "  | None, None => true\n"
    "  | _, _ => false\n"
    "  end.\n"
    "Definition oracle_enc (c : list N * list N) : bool :=\n"
    "  match ref_huff_decode (bits_of_bytes (snd c)) with\n"
    "  | Some a => list_N_eqb a (fst c)\n"
    "  | None => false\n"
    "  end.\n")

# past / minimal tricky decoder inputs, run first (more can be dropped as JSON arrays of byte
# arrays into /verif/corpus/huffman/*.json)
CORPUS_DEC = [
    [],                                # empty string
    [63],                              # 'o' + 3 ones
    [7],                               # '0' + 3 ones
    [6],                               # '0' + 110 : padding not ones
    [0],                               # '0' + 000 : incomplete code, zero padding
    [255],                             # 8 ones: padding too long
    [254],                             # incomplete 10-bit code
    [255, 255],                        # 16 ones
    [255, 255, 255],                   # 24 ones
    [255, 255, 255, 255],              # EOS + 2 ones
    [255, 255, 255, 252],              # EOS + 00
    [255, 255, 255, 243],              # '\n' (30 bits) + 11
    [255, 255, 255, 240],              # '\n' + 00
    [7, 255],                          # '0' + 11 ones
    [7, 255, 255, 255, 231],           # '0' EOS 'o'
    [254, 1],                          # "!0"
    [83, 248],                         # " !"
    [255, 175],                        # '#' + 1111
    [255, 207],                        # '$'
    [156, 180, 80, 127],               # "hello"
    [255, 199, 255, 255, 221, 255, 255, 255, 228, 255],   # 00 ff 0a 'h'
    [255, 254],                        # 15 ones + 0: incomplete long code
    [255, 255, 254],
    [0, 0, 0, 0],                      # "000000" + 00 -> zero padding... (6 codes + 2 bits)
    [0, 0, 0, 0, 0],                   # 8 x '0' exactly, no padding
    [31],                              # '0' then 111  vs  00011 111 ('1'?) boundary case
    [41, 4, 49, 24, 9, 32, 136, 34, 160, 34, 25, 64, 18, 144, 160, 73, 14],
]
CORPUS_ENC = [
    [], [48], [111], [0], [255], [10], [13], [22], [249], [104, 101, 108, 108, 111],
    [0, 255, 10, 104], [255] * 9, [22] * 5, [48] * 8, [48] * 9, list(range(0, 256)),
]


# ----------------------------------------------------------------------------------------------
# running the implementation

def _parse_lines(out):
    cases, summary = [], {}
    for line in out.splitlines():
        line = line.strip()
        if not line.startswith("{"):
            continue
        try:
            o = json.loads(line)
        except ValueError:
            continue
        if "summary" in o:
            summary = o["summary"]
            continue
        cases.append(o)
    return cases, summary


def _run(args, input=None, timeout=900):
    rc, out = common.run_harness(BIN, args, timeout=timeout, input=input)
    cases, summary = _parse_lines(out)
    if rc != 0 and not cases:
        raise RuntimeError("huffman harness failed rc=%s: %s" % (rc, out[-2000:]))
    return cases, summary


def _impl(kind, inputs):
    """Ask the implementation about explicit inputs (used for corpus, shrinking, replays)."""
    if not inputs:
        return []
    text = "\n".join(json.dumps({"kind": kind, "input": list(i)}) for i in inputs) + "\n"
    cases, _ = _run(["--mode", "stdin"], input=text.encode())
    if len(cases) != len(inputs):
        raise RuntimeError("huffman harness (stdin mode) answered %d of %d cases" % (len(cases), len(inputs)))
    return cases


def _load_corpus():
    dec, enc = [list(x) for x in CORPUS_DEC], [list(x) for x in CORPUS_ENC]
    for fn in sorted(glob.glob(os.path.join(common.VERIF, "corpus", "huffman", "*.json"))):
        try:
            with open(fn) as f:
                o = json.load(f)
            dec.extend(o.get("dec", []))
            enc.extend(o.get("enc", []))
        except Exception:
            pass
    return dec, enc


def _gather(tier, seed, for_search=False):
    """Returns (dec_cases, enc_cases, distribution)."""
    seed = int(seed)
    if tier == "quick":
        plan = [("valid", 300, 40), ("mutate", 500, 24), ("random", 160, 10), ("exhaustive", 0, 1)]
    else:
        plan = [("valid", 9000, 48), ("mutate", 22000, 32), ("random", 6000, 16),
                ("exhaustive", 3000, 2 if not for_search else 2)]
    dec, enc, dist = [], [], {}
    cdec, cenc = _load_corpus()
    for c in _impl("dec", cdec):
        c["gen"] = "corpus"
        dec.append(c)
    for c in _impl("enc", cenc):
        c["gen"] = "corpus"
        enc.append(c)
    dist["corpus"] = {"dec": len(cdec), "enc": len(cenc)}
    for mode, n, maxlen in plan:
        args = ["--seed", seed, "--n", n, "--mode", mode, "--maxlen", maxlen]
        cases, summary = _run(args)
        dist[mode] = summary
        for c in cases:
            (dec if c["kind"] == "dec" else enc).append(c)
    return dec, enc, dist


# ----------------------------------------------------------------------------------------------
# Coq terms

def _dec_term(c):
    return "(%s, %s)" % (common.coq_N_list(c["input"]), common.coq_opt(c.get("ok"), common.coq_N_list))


def _enc_term(c):
    return "(%s, %s)" % (common.coq_N_list(c["input"]), common.coq_N_list(c["out"]))


def _shard_for(cases):
    # short inputs (exhaustive sweeps) are cheap: bigger shards, fewer coqc start-ups
    n = len(cases)
    if n > 20000:
        return 2500
    if n > 4000:
        return 800
    return 250


def _eval(tag, preamble, fn, terms, shard):
    if not terms:
        return [], None
    return common.coq_eval_failing(tag, preamble, fn, terms, shard=shard)


def _ref_decode(inputs):
    """RFC reference decoder evaluated in Coq: list of (None | list of bytes) per input."""
    if not inputs:
        return []
    text = PREAMBLE_ORACLE
    text += "Definition the_inputs : list (list N) := [\n  %s\n].\n" % ";\n  ".join(
        common.coq_N_list(i) for i in inputs)
    text += ("Definition flat (i : list N) : list N :=\n"
             "  match ref_huff_decode (bits_of_bytes i) with\n"
             "  | None => [0]\n  | Some l => 1 :: N.of_nat (length l) :: l\n  end.\n")
    text += 'Goal True. idtac "@@RESULT". Abort.\n'
    text += "Eval vm_compute in (flat_map flat the_inputs).\n"
    rc, out = common.coq_eval_raw("huffman_ref", text)
    if rc != 0 or "@@RESULT" not in out:
        raise RuntimeError("coqc failed on the reference decoder: " + out[-2000:])
    body = out.split("@@RESULT", 1)[1].replace("\n", " ")
    m = re.search(r"=\s*\[(.*?)\]\s*:\s*list N", body, re.S)
    nums = [int(t) for t in re.findall(r"\d+", m.group(1))] if m else []
    res, p = [], 0
    for _ in inputs:
        if p >= len(nums):
            raise RuntimeError("reference decoder output too short")
        if nums[p] == 0:
            res.append(None)
            p += 1
        else:
            n = nums[p + 1]
            res.append(nums[p + 2:p + 2 + n])
            p += 2 + n
    return res


# ----------------------------------------------------------------------------------------------
# shrinking

def _shrink(inp, still_bad, rounds=48):
    """Drop bytes while the predicate (evaluated on a batch of candidates) still holds."""
    cur = list(inp)
    for _ in range(rounds):
        cands = []
        if len(cur) > 3:
            cands += [cur[:len(cur) // 2], cur[len(cur) // 2:]]
        cands += [cur[:i] + cur[i + 1:] for i in range(len(cur))]
        cands = [c for i, c in enumerate(cands) if c not in cands[:i]]
        if not cands:
            break
        try:
            bad = still_bad(cands)
        except Exception:
            break
        nxt = next((c for c, b in zip(cands, bad) if b), None)
        if nxt is None:
            break
        cur = nxt
    return cur


def _bad_by(kind, preamble, fn, tag):
    """Predicate for _shrink: candidate inputs on which `fn` (a Coq check on (input, impl answer))
    is false, or on which the implementation panics."""
    term = _dec_term if kind == "dec" else _enc_term

    def pred(cands):
        cs = _impl(kind, cands)
        failing, err = _eval(tag, preamble, fn, [term(c) for c in cs], 250)
        if err:
            raise RuntimeError(err)
        f = set(failing)
        return [(i in f) or bool(c.get("panic")) for i, c in enumerate(cs)]
    return pred


# ----------------------------------------------------------------------------------------------

def _ensure_vo(targets):
    ok, log, failing = common.coq_make(targets, timeout=900)
    return ok, log


def correspond_huffman(rep, tier, seed):
    ok, log = _ensure_vo(["Model/Huffman.vo", "Ref/Rfc7541Huff.vo"])
    if not ok:
        rep.violation("broken-correspondence", {"what": "Model/Huffman.vo does not build", "log": log[-3000:]}, no_input=True)
        return
    try:
        dec, enc, dist = _gather(tier, seed)
    except common.HarnessBuildError as e:
        rep.violation("broken-correspondence", {"what": "harness binary 'huffman' does not build", "log": str(e)[-3000:]}, no_input=True)
        return

    # a panic is never an allowed outcome (C11: decoding either yields the field or fails)
    panics = [c for c in dec + enc if c.get("panic")]
    for c in panics[:3]:
        kind = c["kind"]
        small = _shrink(c["input"], lambda cands, k=kind: [bool(x.get("panic")) for x in _impl(k, cands)])
        rep.violation("failing-input", {"what": "h2 huffman %s panics" % ("decode" if kind == "dec" else "encode"),
                                        "kind": kind, "input": small, "impl": "panic",
                                        "rfc": _ref_decode([small])[0] if kind == "dec" else "no panic"})
    dec_run = [c for c in dec if not c.get("panic")]
    enc_run = [c for c in enc if not c.get("panic")]

    fdec, err1 = _eval("huffman_dec", PREAMBLE_MODEL, "check_huff_dec", [_dec_term(c) for c in dec_run], _shard_for(dec_run))
    fenc, err2 = _eval("huffman_enc", PREAMBLE_MODEL, "check_huff_enc", [_enc_term(c) for c in enc_run], _shard_for(enc_run))
    for err in (err1, err2):
        if err:
            rep.violation("broken-correspondence", {"what": "coqc failed on generated huffman cases", "log": err[-3000:]}, no_input=True)

    n_ok = sum(1 for c in dec_run if c.get("ok") is not None)
    nontrivial = len({json.dumps(c["input"]) for c in dec_run if len(c["input"]) > 0}) + \
        len({json.dumps(c["input"]) for c in enc_run if len(c["input"]) > 0})
    rep.correspondences.append({
        "name": "huffman-decode", "cases": len(dec_run), "disagreements": len(fdec),
        "nontrivial": len({json.dumps(c["input"]) for c in dec_run if len(c["input"]) > 0}),
        "accepted": n_ok, "rejected": len(dec_run) - n_ok, "distribution": dist,
        "rule": "corpus first; valid = h2-encoded random strings (ascii/printable/all bytes/long codes/short codes/mixed); "
                "mutate = valid encodings with bit flips, truncation, appended 0xff, injected EOS, zero/random padding, cut last code, "
                "garbage bytes, glued encodings; random bytes; exhaustive length <= 1 (quick) / <= 2 (thorough). "
                "A case is non-trivial when the input is non-empty; compared: Ok(bytes)/Err of h2 vs huff_decode of the model, inside Coq."})
    rep.correspondences.append({
        "name": "huffman-encode", "cases": len(enc_run), "disagreements": len(fenc),
        "nontrivial": len({json.dumps(c["input"]) for c in enc_run if len(c["input"]) > 0}),
        "distribution": {k: v for k, v in dist.items() if k in ("corpus", "valid")},
        "rule": "random strings of the same distributions; compared: bytes written by h2 vs huff_encode_opt of the model, inside Coq."})
    rep.samples.extend([{k: c[k] for k in ("kind", "gen", "input", "ok") if k in c} for c in dec_run[1:4]])
    rep.extra.setdefault("huffman_counts", {"dec": len(dec_run), "enc": len(enc_run), "panics": len(panics),
                                            "dec_disagreements": len(fdec), "enc_disagreements": len(fenc),
                                            "nontrivial": nontrivial})

    # ---- disagreements: shrink, then let the RFC reference decide who is wrong
    for i in fdec[:3]:
        c = dec_run[i]
        small = _shrink(c["input"], _bad_by("dec", PREAMBLE_MODEL, "check_huff_dec", "huffman_shrink"))
        ans = _impl("dec", [small])[0]
        rfc = _ref_decode([small])[0]
        impl = "panic" if ans.get("panic") else ans.get("ok")
        if impl != rfc:
            rep.violation("failing-input", {"what": "h2 huffman decode differs from RFC 7541 section 5.2",
                                            "kind": "dec", "input": small, "impl": impl, "rfc": rfc,
                                            "original_input": c["input"], "gen": c.get("gen")})
        else:
            rep.violation("broken-correspondence", {"what": "model huff_decode differs from h2 (h2 agrees with the RFC reference here)",
                                                    "kind": "dec", "input": small, "impl": impl, "rfc": rfc,
                                                    "gen": c.get("gen")}, no_input=True)
    for i in fenc[:3]:
        c = enc_run[i]
        small = _shrink(c["input"], _bad_by("enc", PREAMBLE_MODEL, "check_huff_enc", "huffman_shrink"))
        ans = _impl("enc", [small])[0]
        back = _ref_decode([ans["out"]])[0]
        if ans.get("panic") or back != small:
            rep.violation("failing-input", {"what": "h2 huffman encode output does not RFC-decode to its input",
                                            "kind": "enc", "input": small, "impl": "panic" if ans.get("panic") else ans["out"],
                                            "rfc": "any string that decodes to the input", "rfc_decode_of_impl_output": back})
        else:
            rep.violation("broken-correspondence", {"what": "model huff_encode differs from h2 (h2's output is a valid RFC encoding)",
                                                    "kind": "enc", "input": small, "impl": ans["out"]}, no_input=True)


def search_huffman(rep, tier, seed):
    """Oracle only (no model): implementation vs RFC reference decoder, and implementation-encode
    then reference-decode.  Reports the first (shrunk) failing input; returns True if found."""
    ok, log = _ensure_vo(["Ref/Rfc7541Huff.vo"])
    if not ok:
        rep.violation("broken-correspondence", {"what": "Ref/Rfc7541Huff.vo does not build", "log": log[-3000:]}, no_input=True)
        return False
    try:
        dec, enc, dist = _gather(tier, seed, for_search=True)
    except common.HarnessBuildError as e:
        rep.violation("broken-correspondence", {"what": "harness binary 'huffman' does not build", "log": str(e)[-3000:]}, no_input=True)
        return False
    found = False
    panics = [c for c in dec + enc if c.get("panic")]
    dec_run = [c for c in dec if not c.get("panic")]
    enc_run = [c for c in enc if not c.get("panic")]
    # shortest inputs first so that the first failure is already small
    dec_run.sort(key=lambda c: len(c["input"]))
    enc_run.sort(key=lambda c: len(c["input"]))
    fdec, err1 = _eval("huffman_odec", PREAMBLE_ORACLE, "oracle_dec", [_dec_term(c) for c in dec_run], _shard_for(dec_run))
    fenc, err2 = _eval("huffman_oenc", PREAMBLE_ORACLE, "oracle_enc", [_enc_term(c) for c in enc_run], _shard_for(enc_run))
    for err in (err1, err2):
        if err:
            rep.violation("broken-correspondence", {"what": "coqc failed on huffman oracle cases", "log": err[-3000:]}, no_input=True)
    rep.oracle_runs.append({"name": "huffman-rfc-oracle", "cases": len(dec_run) + len(enc_run),
                            "nontrivial": len({json.dumps(c["input"]) for c in dec_run + enc_run if c["input"]}),
                            "failures": len(fdec) + len(fenc) + len(panics), "distribution": dist,
                            "rule": "decode: h2's answer == ref_huff_decode (bits_of_bytes input); "
                                    "encode: ref_huff_decode (bits_of_bytes h2's output) == Some input; evaluated inside Coq"})
    for c in panics[:1]:
        kind = c["kind"]
        small = _shrink(c["input"], lambda cands, k=kind: [bool(x.get("panic")) for x in _impl(k, cands)])
        rep.violation("failing-input", {"what": "h2 huffman %s panics" % kind, "kind": kind, "input": small, "impl": "panic",
                                        "rfc": _ref_decode([small])[0] if kind == "dec" else "no panic"})
        found = True
    if fdec:
        c = dec_run[fdec[0]]
        small = _shrink(c["input"], _bad_by("dec", PREAMBLE_ORACLE, "oracle_dec", "huffman_oshrink"))
        ans = _impl("dec", [small])[0]
        rep.violation("failing-input", {"what": "h2 huffman decode differs from RFC 7541 section 5.2",
                                        "kind": "dec", "input": small,
                                        "impl": "panic" if ans.get("panic") else ans.get("ok"),
                                        "rfc": _ref_decode([small])[0], "original_input": c["input"], "gen": c.get("gen")})
        found = True
    if fenc:
        c = enc_run[fenc[0]]
        small = _shrink(c["input"], _bad_by("enc", PREAMBLE_ORACLE, "oracle_enc", "huffman_oshrink"))
        ans = _impl("enc", [small])[0]
        rep.violation("failing-input", {"what": "h2 huffman encode output does not RFC-decode to its input",
                                        "kind": "enc", "input": small, "impl": "panic" if ans.get("panic") else ans["out"],
                                        "rfc": "any string that decodes to the input",
                                        "rfc_decode_of_impl_output": _ref_decode([ans["out"]])[0] if not ans.get("panic") else None})
        found = True
    return found


if __name__ == "__main__":
    import time
    tier = sys.argv[1] if len(sys.argv) > 1 else "quick"
    what = sys.argv[2] if len(sys.argv) > 2 else "correspond"
    rep = common.Report("C11", tier, 1)
    t0 = time.time()
    if what == "search":
        print("search found failing input:", search_huffman(rep, tier, 1))
        for o in rep.oracle_runs:
            print("oracle %s: cases=%d failures=%d nontrivial=%d" % (o["name"], o["cases"], o["failures"], o["nontrivial"]))
    else:
        correspond_huffman(rep, tier, 1)
        for c in rep.correspondences:
            print("correspondence %s: cases=%d disagreements=%d nontrivial=%d" % (
                c["name"], c["cases"], c["disagreements"], c["nontrivial"]))
            if c["name"] == "huffman-decode":
                print("  accepted=%d rejected=%d" % (c["accepted"], c["rejected"]))
                for mode, s in c["distribution"].items():
                    print("  %s: %s" % (mode, json.dumps(s, sort_keys=True)))
    print("violations: %d" % len(rep.violations))
    for path, no_input in rep.violations:
        print("  ", path, "(no failing input)" if no_input else "")
        with open(path) as f:
            print("   ", f.read()[:600].replace("\n", " "))
    print("wall %.1fs" % (time.time() - t0))
