"""C11 (main part): HPACK integer + header-block decoder.

correspond_hpackdec(rep, tier, seed)
    runs the real `hpack::Decoder` (harness binary `hpackdec`) on histories of header blocks
    (committed corpus, valid / mutated / random streams, the fixture stories, an integer
    sweep) and evaluates the model (`Model.HpackDec.check_hpack_dec`) on the same inputs inside
    Coq.  Huffman strings: the harness records what `huffman::decode` answered for every
    candidate string of a case and the model receives that table as its `hd` argument
    (USE_HUFFMAN_MODEL = True switches to `H2V.Model.Huffman.huff_decode_opt` instead).

search_hpackdec(rep, tier, seed, reason=None)
    the oracle: the executable RFC reference decoder (`Ref.Rfc7541Block.oracle_hpack`)
    evaluated in Coq on the implementation's inputs and answers.  A history where the
    implementation accepted a block the reference rejects, produced different headers, a
    different table, or a table above the advertised limit is a real violation of C11
    -> rep.violation("failing-input", shrunk history), unless its class is one of the two known
    findings of C11 listed in /verif/known_findings.json (KF-C11-1 size-update-after-field-across-
    fragments, KF-C11-3 required-size-update-not-enforced): then rep.known(...).
"""
import json
import os
import sys

sys.path.insert(0, os.path.join(os.path.dirname(os.path.abspath(__file__)), "..", ".."))
import common  # noqa: E402

USE_HUFFMAN_MODEL = False          # True: hd := H2V.Model.Huffman.huff_decode_opt (needs Model/Huffman.vo)

CORPUS = os.path.join(common.VERIF, "corpus", "hpackdec")

# Parsing is what costs in coqc (~70 us per token), so octet strings are written packed, 7 octets
# per primitive integer literal, and unpacked inside vm_compute: (B len [w1; w2; ...]).
PACK = ("From Coq Require Import Uint63.\n"
        "Definition i2n (x : int) : N := Z.to_N (Uint63.to_Z x).\n"
        "Fixpoint unpack (k : nat) (v : N) (acc : list N) : list N :=\n"
        "  match k with O => acc | S k' => unpack k' (v / 256) (v mod 256 :: acc) end.\n"
        "Fixpoint unpacks (len : N) (ws : list int) : list N :=\n"
        "  match ws with [] => [] | w :: ws' => let k := N.min len 7 in\n"
        "    unpack (N.to_nat k) (i2n w) [] ++ unpacks (len - k) ws' end.\n"
        "Definition B (len : int) (ws : list int) : list N := unpacks (i2n len) ws.\n"
        "Definition Q (ws : list int) : list N := map i2n ws.\n"
        "Local Open Scope uint63_scope.\n")
PREAMBLE = ("From H2V Require Import Base.Tac Base.Bytes Model.HpackInt Model.HpackDec.\n"
            "Local Open Scope N_scope.\n" + PACK)
PREAMBLE_HUFFMODEL = ("From H2V Require Import Base.Tac Base.Bytes Model.HpackInt Model.HpackDec Model.Huffman.\n"
                      "Local Open Scope N_scope.\n" + PACK +
                      "Definition check_with_model (c : list (list N * option (list N)) * N * list block_rec) : bool :=\n"
                      "  let '(_, size, blocks) := c in run_history huff_decode_opt (decoder_new size) blocks.\n")
ORACLE_PREAMBLE = ("From H2V Require Import Base.Tac Base.Bytes Ref.Rfc7541Block.\n"
                   "Local Open Scope N_scope.\n" + PACK +
                   "Definition oracle_ok c := (oracle_hpack c =? 0)%N.\n")

# model check and oracle on the same parsed cases (parsing is the expensive part)
BOTH_PREAMBLE = ("From H2V Require Import Base.Tac Base.Bytes Model.HpackInt Model.HpackDec Ref.Rfc7541Block.\n"
                 "Local Open Scope N_scope.\n" + PACK + """
Definition risky_queue (q : list N) : bool :=
  match q with _ :: _ :: _ => negb (last q 0 =? fold_right N.max 0 q)%N | _ => false end.
Fixpoint bounds_of (acc : N) (frags : list (list N)) : list N :=
  match frags with
  | [] => []
  | [_] => []
  | f :: more => (acc + N.of_nat (length f))%N :: bounds_of (acc + N.of_nat (length f))%N more
  end.
Fixpoint to_oracle (bl : list block_rec) : list oracle_block :=
  match bl with
  | [] => []
  | (queued, frags, (fs, v, _, (entries, size, _))) :: more =>
    if risky_queue queued then []
    else (queued, concat frags, bounds_of 0%N frags, match v with VOk => true | _ => false end, fs, entries, size)
           :: to_oracle more
  end.
Definition oracle_of_case (c : list (list N * option (list N)) * N * list block_rec) : N :=
  let '(huff, size, blocks) := c in oracle_hpack (huff, size, to_oracle blocks).
Definition oracle_ok c := (oracle_of_case c =? 0)%N.
""")

ORACLE_CLASSES = {
    1: "accepts-block-rfc-rejects",
    2: "different-header-list",
    3: "different-dynamic-table",
    4: "required-size-update-not-enforced",          # table above the advertised limit   (KF-C11-3)
    5: "required-size-update-not-enforced",          # required size update missing       (KF-C11-3)
    6: "size-update-after-field-across-fragments",   # only the 6.3 placement rule objects (KF-C11-1)
}

# names of the theorems in coq/Properties/C11_hpack.v (Print Assumptions audit by the C11 plugin)
THEOREMS = [
    "C11_gen_static_is_rfc", "C11_static_index_inverse", "C11_ref_decode_block_spec",
    "C11_decode_int_spec", "C11_decode_int_need_more", "C11_decode_int_truncated",
    "C11_decode_int_overflow", "C11_decode_int_bound", "C11_decode_int_encode_int",
    "C11_decode_no_fuel", "C11_hpack_decode_sound", "C11_hpack_decode_sound_rfc_except_known",
    "C11_hpack_decode_complete_modulo_validation", "C11_hpack_table_bounded", "C11_reachable_wf",
    "C11_hpack_table_within_limit_except_known", "C11_hpack_chunking_except_known",
    "C11_hpack_chunking_by_verdict", "C11_known_1_refuted", "C11_known_3_refuted",
]


# ------------------------------------------------------------------------------------------
# rendering

def nl(xs):
    """an octet string"""
    if not xs:
        return "(@nil N)"
    ws = []
    for i in range(0, len(xs), 7):
        v = 0
        for b in xs[i:i + 7]:
            v = v * 256 + int(b)
        ws.append(str(v))
    return "(B %d [%s])" % (len(xs), "; ".join(ws))


def ql(xs):
    """a list of numbers (queued sizes)"""
    return "(Q [%s])" % "; ".join(str(int(x)) for x in xs) if xs else "(@nil N)"


def fields(fs):
    if not fs:
        return "(@nil (list N * list N))"
    return "[" + "; ".join("(%s, %s)" % (nl(n), nl(v)) for n, v in fs) + "]"


def verdict(v):
    if v == "Ok":
        return "VOk"
    if v == "Panic":
        return "VPanic"
    if v.startswith("NeedMore("):
        return "(VErr (NeedMore %s))" % v[len("NeedMore("):-1]
    return "(VErr %s)" % v


def huff_table(c):
    if not c.get("huff"):
        return "(@nil (list N * option (list N)))"
    return "[" + "; ".join("(%s, %s)" % (nl(r), "None" if d is None else "Some " + nl(d)) for r, d in c.get("huff", [])) + "]"


def block_entries(c, i, b):
    """table entries are compared after the last block of a history and whenever the table is
    small; in the long fixture stories every 16th block and the last one"""
    last = i == len(c["blocks"]) - 1
    if "story" in c and not (i % 16 == 15 or last):
        return "None"
    if not last and len(b["table"]["entries"]) > 8:
        return "None"      # size and max_size are still compared
    return "(Some %s)" % fields(b["table"]["entries"])


def case_term(c):
    bl = []
    for i, b in enumerate(c["blocks"]):
        t = b["table"]
        bl.append("(%s, [%s], (%s, %s, %s, (%s, %d%%N, %d%%N)))" % (
            ql(b["queued"]), "; ".join(nl(f) for f in b["frags"]), fields(b["fields"]), verdict(b["verdict"]),
            nl(b["left"]), block_entries(c, i, b), t["size"], t["max"]))
    return "(%s, %d%%N, [%s])" % (huff_table(c), c["size"], "; ".join(bl))


def oracle_term(c):
    """the history as the oracle sees it.  It is judged only up to the first block that follows
    two queue_size_update calls with the smaller value last: h2's codec never produces that
    (one SETTINGS frame is in flight at a time and only the first one carries the table size),
    and there the decoder's ceiling max(v1, v2) is not the protocol's limit v2."""
    bl = []
    for i, b in enumerate(c["blocks"]):
        if len(b["queued"]) >= 2 and b["queued"][-1] != max(b["queued"]):
            break
        allb = [x for f in b["frags"] for x in f]
        bounds, acc = [], 0
        for f in b["frags"][:-1]:
            acc += len(f)
            bounds.append(acc)
        bl.append("(%s, %s, %s, %s, %s, %s, %d%%N)" % (
            ql(b["queued"]), nl(allb), ql(bounds), common.coq_bool(b["verdict"] == "Ok"), fields(b["fields"]),
            block_entries(c, i, b), b["table"]["size"]))
    return "(%s, %d%%N, [%s])" % (huff_table(c), c["size"], "; ".join(bl))


def inputs_only(c):
    return {"size": c["size"], "blocks": [{"queued": b["queued"], "frags": b["frags"]} for b in c["blocks"]]}


# ------------------------------------------------------------------------------------------
# running

def parse(out):
    cases, summary = [], {}
    for line in out.splitlines():
        line = line.strip()
        if not line.startswith("{"):
            continue
        try:
            o = json.loads(line)
        except ValueError:
            continue
        if "summary" in o:
            summary = o["summary"]
        elif "blocks" in o:
            cases.append(o)
    return cases, summary


def run_mode(mode, seed, n, timeout=900):
    rc, out = common.run_harness("hpackdec", ["--seed", seed, "--n", n, "--mode", mode], timeout=timeout)
    return parse(out)


def replay(histories, timeout=900):
    """run the implementation on given inputs (list of {"size","blocks":[{"queued","frags"}]})"""
    text = "\n".join(json.dumps(h) for h in histories) + "\n"
    rc, out = common.run_harness("hpackdec", ["--mode", "replay"], timeout=timeout, input=text.encode())
    return parse(out)[0]


def corpus_inputs():
    hs = []
    if os.path.isdir(CORPUS):
        for fn in sorted(os.listdir(CORPUS)):
            if not fn.endswith(".jsonl"):
                continue
            with open(os.path.join(CORPUS, fn)) as f:
                for line in f:
                    line = line.strip()
                    if line.startswith("{"):
                        hs.append(json.loads(line))
    return hs


def model_failing(tag, cases, shard=None):
    """indices of cases on which model and implementation disagree, error log"""
    if not cases:
        return [], None
    terms = [case_term(c) for c in cases]
    if shard is None:
        # aim at ~120 kB of Coq input per shard (parsing dominates; shards run in parallel)
        total = sum(len(t) for t in terms)
        shard = max(1, min(250, int(len(terms) * 1.2e5 / max(total, 1))))
    if USE_HUFFMAN_MODEL:
        return common.coq_eval_failing(tag, PREAMBLE_HUFFMODEL, "check_with_model", terms, shard=shard)
    return common.coq_eval_failing(tag, PREAMBLE, "check_hpack_dec", terms, shard=shard)


def eval_both(tag, cases, with_oracle=True):
    """one coqc run per shard evaluating the model check and the oracle on the same terms.
    Returns (indices where model and implementation disagree, [(index, oracle code != 0)], error log)."""
    import concurrent.futures as cf
    import re
    import shutil
    if not cases:
        return [], [], None
    terms = [case_term(c) for c in cases]
    total = sum(len(t) for t in terms)
    shard = max(1, min(250, int(len(terms) * 1.2e5 / max(total, 1))))
    d = os.path.join(common.CASES, tag)
    shutil.rmtree(d, ignore_errors=True)
    os.makedirs(d, exist_ok=True)
    check = "check_with_model" if USE_HUFFMAN_MODEL else "check_hpack_dec"
    pre = BOTH_PREAMBLE
    if USE_HUFFMAN_MODEL:
        pre = pre.replace("Model.HpackDec Ref", "Model.HpackDec Model.Huffman Ref") + PREAMBLE_HUFFMODEL.split(PACK)[1]
    jobs = []
    for si in range(0, len(terms), shard):
        fn = os.path.join(d, "cases_%s_%d.v" % (re.sub(r"\W", "_", tag), si // shard))
        with open(fn, "w") as f:
            f.write(pre + "\n")
            f.write("Definition the_cases := [\n  " + ";\n  ".join(terms[si:si + shard]) + "\n].\n")
            f.write('Goal True. idtac "@@RESULT1". Abort.\n')
            f.write("Eval vm_compute in (H2V.Base.Bytes.failing (%s) the_cases).\n" % check)
            f.write('Goal True. idtac "@@RESULT2". Abort.\n')
            if with_oracle:
                f.write("Eval vm_compute in (map oracle_of_case the_cases).\n")
            else:
                f.write("Eval vm_compute in (@nil N).\n")
            f.write('Goal True. idtac "@@END". Abort.\n')
        jobs.append((si, fn))

    def run(job):
        si, fn = job
        rc, out, dt = common.sh(["coqc", "-noglob", "-Q", common.COQ, "H2V", fn], cwd=d, timeout=900)
        return si, rc, out

    def idx(body, si):
        m = re.search(r"=\s*\[(.*?)\]\s*:\s*list N", body.replace("\n", " "), re.S)
        if not m:
            return None
        return [si + int(t) for t in re.findall(r"\d+", m.group(1).replace("%N", ""))]

    mf, of, err = [], [], None
    with cf.ThreadPoolExecutor(max_workers=common.NPROC) as ex:
        for si, rc, out in ex.map(run, jobs):
            if rc != 0 or "@@END" not in out:
                err = (err or "") + out[-3000:]
                continue
            a = idx(out.split("@@RESULT1", 1)[1].split("@@RESULT2", 1)[0], si)
            b = idx(out.split("@@RESULT2", 1)[1].split("@@END", 1)[0], 0)
            if a is None or b is None:
                err = (err or "") + "unparsed: " + out[-1500:]
                continue
            mf.extend(a)
            of.extend((si + k, code) for k, code in enumerate(b) if code != 0)
    return sorted(mf), sorted(of), err


def oracle_failing(tag, cases, shard=None):
    if not cases:
        return [], None
    terms = [oracle_term(c) for c in cases]
    if shard is None:
        total = sum(len(t) for t in terms)
        shard = max(1, min(250, int(len(terms) * 1.2e5 / max(total, 1))))
    return common.coq_eval_failing(tag, ORACLE_PREAMBLE, "oracle_ok", terms, shard=shard)


def oracle_code(c):
    rc, out = common.coq_eval_raw("hpackdec_oracle_code", ORACLE_PREAMBLE +
                                  'Goal True. idtac "@@RESULT". Abort.\nEval vm_compute in (oracle_hpack %s).\n' % oracle_term(c))
    if rc != 0 or "@@RESULT" not in out:
        return -1
    import re
    m = re.search(r"=\s*(\d+)(?:%N)?\s*:\s*N", out.split("@@RESULT", 1)[1].replace("\n", " "))
    return int(m.group(1)) if m else -1


# ------------------------------------------------------------------------------------------
# shrinking

def shrink(history, still_bad, budget=24):
    """greedy: drop trailing blocks, leading blocks whose removal keeps the failure, merge
    fragments, drop octets.  `still_bad(inputs) -> bool` re-runs implementation and Coq."""
    cur = inputs_only(history) if "huff" in history or "fields" in history["blocks"][0] else history
    steps = [0]

    def ok(h):
        if steps[0] >= budget:
            return False
        steps[0] += 1
        try:
            return bool(h["blocks"]) and still_bad(h)
        except Exception:
            return False

    # 1. fewer blocks
    changed = True
    while changed and len(cur["blocks"]) > 1:
        changed = False
        for i in reversed(range(len(cur["blocks"]))):
            h = {"size": cur["size"], "blocks": cur["blocks"][:i] + cur["blocks"][i + 1:]}
            if ok(h):
                cur, changed = h, True
                break
    # 2. fewer fragments
    for bi in range(len(cur["blocks"])):
        b = cur["blocks"][bi]
        if len(b["frags"]) > 1:
            merged = dict(b, frags=[[x for f in b["frags"] for x in f]])
            h = {"size": cur["size"], "blocks": cur["blocks"][:bi] + [merged] + cur["blocks"][bi + 1:]}
            if ok(h):
                cur = h
    # 3. fewer octets in the last block (chunks, then single octets)
    bi = len(cur["blocks"]) - 1
    for width in (16, 4, 1):
        j = 0
        while True:
            b = cur["blocks"][bi]
            flat = [(fi, k) for fi, f in enumerate(b["frags"]) for k in range(len(f))]
            if j >= len(flat):
                break
            drop = set(flat[j:j + width])
            nf = [[x for k, x in enumerate(f) if (fi, k) not in drop] for fi, f in enumerate(b["frags"])]
            h = {"size": cur["size"], "blocks": cur["blocks"][:bi] + [dict(b, frags=nf)]}
            if ok(h):
                cur = h
            else:
                j += width
    # 4. no queued updates
    for bi in range(len(cur["blocks"])):
        b = cur["blocks"][bi]
        if b["queued"]:
            h = {"size": cur["size"], "blocks": cur["blocks"][:bi] + [dict(b, queued=[])] + cur["blocks"][bi + 1:]}
            if ok(h):
                cur = h
    return cur


def model_disagrees(h):
    cs = replay([h])
    if not cs:
        return False
    failing, err = model_failing("hpackdec_shrink", cs)
    return bool(failing) and not err


def oracle_objects(h):
    cs = replay([h])
    if not cs:
        return False
    mf, of, err = eval_both("hpackdec_shrink_o", cs)
    return bool(of) and not err


# ------------------------------------------------------------------------------------------
# the check

def plan(tier):
    if tier == "quick":
        return {"valid": 240, "mutate": 260, "random": 80, "fixtures": 5, "ints": 1}
    return {"valid": 8000, "mutate": 9000, "random": 3000, "fixtures": 0, "ints": 3}   # fixtures 0 = all


def known_classes():
    kf = common.load_known_findings()
    res = {}
    for k in kf.get("known", []):
        if isinstance(k, dict) and k.get("property") == "C11" and k.get("class"):
            res[k["class"]] = k
    return res


def judge(rep, c, code, what, budget):
    """A history the oracle objects to (code != 0) is a violation of C11 by the implementation:
    report it (shrunk), or note the known finding of that class.  Returns True."""
    cls = ORACLE_CLASSES.get(code, "oracle-%d" % code)
    kn = known_classes()
    if cls in kn:
        rep.known("%s property=C11 class=%s: %s" % (kn[cls].get("id", "KF-C11"), cls, kn[cls].get("what", "")[:160]))
        return True
    small = shrink(c, oracle_objects, budget=budget)
    sc = replay([small])
    rep.violation("failing-input", {
        "class": cls, "what": what, "history": small,
        "implementation": sc[0]["blocks"] if sc else None, "oracle_code": code,
        "reference": "Ref.Rfc7541Block.oracle_hpack (RFC 7541 reference decoder evaluated in Coq)"})
    return True


def gather(tier, seed, with_extra=True):
    p = plan(tier)
    streams = []
    corpus = corpus_inputs()
    if corpus:
        streams.append(("corpus", replay(corpus), {"mode": "corpus", "histories": len(corpus)}))
    for mode in ("valid", "mutate", "random"):
        cs, summary = run_mode(mode, seed, p[mode])
        streams.append((mode, cs, summary))
    if with_extra:
        cs, summary = run_mode("fixtures", seed, p["fixtures"], timeout=1800)
        streams.append(("fixtures", cs, summary))
        cs, summary = run_mode("ints", seed, p["ints"], timeout=1800)
        streams.append(("ints", cs, summary))
    return streams


def evaluate(rep, tier, streams, reason=None):
    """model check + oracle on every stream; reports; returns True when a failing input
    (property violation by the implementation) was reported or noted as known."""
    budget = 14 if tier == "quick" else 60
    found = False
    o_total = o_nontrivial = o_fail = 0
    judged = set()
    for name, cases, summary in streams:
        mfail, ofail, err = eval_both("hpackdec_" + name, cases, with_oracle=(name != "ints"))
        if err:
            rep.violation("broken-correspondence", {"what": "coqc failed on generated hpackdec cases (%s)" % name,
                                                    "log": err[-3000:]}, no_input=True)
        nontrivial = len({json.dumps([b["frags"] for b in c["blocks"]]) for c in cases
                          if any(b["fields"] for b in c["blocks"])})
        if name == "fixtures":
            # the stories also say which headers to expect: compare directly
            bad = 0
            for c in cases:
                for b, e in zip(c["blocks"], c.get("expect", [])):
                    if b["verdict"] != "Ok" or [list(map(list, f)) for f in b["fields"]] != [list(map(list, f)) for f in e]:
                        bad += 1
            if bad:
                found = True
                rep.violation("failing-input", {"class": "fixture-story-mismatch", "count": bad,
                                                "what": "decoder output differs from the expected headers of a fixture story"})
        rep.correspondences.append({
            "name": "hpackdec/" + name, "cases": len(cases), "nontrivial": nontrivial,
            "blocks": sum(len(c["blocks"]) for c in cases), "disagreements": len(mfail),
            "distribution": summary,
            "rule": "a case is a history of header blocks fed to one hpack::Decoder (queued size updates, "
                    "1-4 fragments per block fed like framed_read.rs); compared per block: headers emitted, verdict "
                    "(error class), BytesMut content left, dynamic table entries/size/max_size; non-trivial = at "
                    "least one header decoded"})
        rep.samples.extend([{"stream": name, "size": c["size"], "blocks": [
            {"frags": b["frags"], "verdict": b["verdict"], "fields": len(b["fields"])} for b in c["blocks"][:2]]}
            for c in cases[:2]])
        ocodes = dict(ofail)
        kn = known_classes()
        for i in mfail[:3]:
            c = cases[i]
            cls = ORACLE_CLASSES.get(ocodes.get(i), None)
            if i in ocodes and cls not in kn:
                # the implementation itself violates the property here (the model follows the code
                # it was written from): reported as the implementation's failing input
                found = judge(rep, c, ocodes[i], "model and implementation disagree and the RFC oracle objects to the "
                              "implementation (stream %s)" % name, budget) or found
                continue
            # the code no longer behaves like the model (a known-finding class, or no objection of
            # the oracle, does not excuse that)
            small = shrink(c, model_disagrees, budget=budget)
            sc = replay([small])
            rep.violation("broken-correspondence",
                          {"what": "model (Model/HpackDec.v) and implementation disagree; the RFC oracle has no objection "
                                   "beyond the known findings", "oracle_class": cls,
                           "stream": name, "history": small, "implementation": sc[0]["blocks"] if sc else None},
                          no_input=True)
        if name != "ints":
            o_total += len(cases)
            o_nontrivial += sum(1 for c in cases if any(b["verdict"] == "Ok" and b["fields"] for b in c["blocks"]))
            o_fail += len(ofail)
            for i, code in ofail:
                if code in judged:
                    continue
                judged.add(code)
                found = judge(rep, cases[i], code, "RFC 7541 reference decoder objects (stream %s%s)" % (
                    name, ", searched after " + reason if reason else ""), budget) or found
    rep.oracle_runs.append({"name": "hpackdec/rfc7541-reference-decoder", "cases": o_total, "nontrivial": o_nontrivial,
                            "failures": o_fail,
                            "rule": "Ref.Rfc7541Block.oracle_hpack on every history up to its first rejected block: an accepted "
                                    "block must be accepted by the reference decoder with the same headers and the same table, "
                                    "the table must be within the advertised limit and a required size update present; "
                                    "non-trivial = an accepted block with at least one header"})
    return found


def correspond_hpackdec(rep, tier, seed):
    evaluate(rep, tier, gather(tier, seed))


def search_hpackdec(rep, tier, seed, reason=None):
    """Search for an input on which the implementation violates C11, judged by the reference
    decoder (fresh seed).  Returns True when one was reported."""
    return evaluate(rep, tier, gather(tier, int(seed) + 7919, with_extra=False), reason=reason)


if __name__ == "__main__":
    import sys
    tier = sys.argv[1] if len(sys.argv) > 1 else "quick"
    seed = int(sys.argv[2]) if len(sys.argv) > 2 else 1
    rep = common.Report("C11_hpackdec_selftest", tier, seed)
    import time
    t0 = time.time()
    correspond_hpackdec(rep, tier, seed)
    for c in rep.correspondences:
        print("correspondence %-22s cases=%-6d blocks=%-7d nontrivial=%-6d disagreements=%d" % (
            c["name"], c["cases"], c["blocks"], c["nontrivial"], c["disagreements"]))
    for o in rep.oracle_runs:
        print("oracle %-40s cases=%d nontrivial=%d failures=%d" % (o["name"], o["cases"], o["nontrivial"], o["failures"]))
    print("known:", rep.known_hits)
    for path, no_input in rep.violations:
        print("VIOLATION", path, "(no failing input)" if no_input else "")
    print("wall %.1fs" % (time.time() - t0))
