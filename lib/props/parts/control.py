"""Connection control plane (SETTINGS / PING / GOAWAY / connection state machine): trace projection -> labels of
coq/Model/Control.v, lock-step evaluated inside Coq, and the wire-level oracles of C14 (acknowledgements) and
C15 (GOAWAY / shutdown), which use only the frames fed / written and the API results (no hooks, no model)."""
import json
import os
import re
import sys

sys.path.insert(0, os.path.dirname(os.path.dirname(os.path.dirname(os.path.abspath(__file__)))))
import common  # noqa: E402
from props.parts import sendflow  # noqa: E402

B = common.coq_bool
PREFIXES = ("settings.", "ping.", "goaway.", "conn.")
# events under the same prefixes that belong to other work packages (wake discipline, store life cycle)
FOREIGN = {"conn.task_register", "conn.task_wake", "conn.self_wake", "conn.maybe_close_enter"}
MAX_ID = 2147483647


class ProjectionError(Exception):
    pass


# ------------------------------------------------------------------------------------------------ Coq term rendering

def optN(v):
    return "None" if v is None or v < 0 else "(Some %d)" % v


def sparams(a):
    """a: 7 integers (-1 = absent) in the order of verif_params"""
    return "(mkSP %s)" % " ".join(optN(x) for x in a)


def opt_sparams(a, present=True):
    return "(Some %s)" % sparams(a) if present else "None"


def nlist(xs):
    return "[" + "; ".join(str(int(x)) for x in xs) + "]"


def payload(hi, lo):
    return hi * 4294967296 + lo


INITIATOR = {0: "IUser", 1: "ILibrary", 2: "IRemote"}
UCELL = {0: "UEmpty", 1: "UPendingPing", 2: "UPendingPong", 3: "UReceivedPong", 4: "UClosed"}


def cstate(a):
    tag, r, i = a[0], a[1], a[2]
    if tag == 0:
        return "COpen"
    return "(%s %d %s)" % ("CClosing" if tag == 1 else "CClosed", r, INITIATOR[i])


def opt_pair(a, b):
    return "None" if a < 0 else "(Some (%d, %d))" % (a, b)


def pre_settings(st):       # tag, remote, initial
    return "PSettings %d %s %s" % (st[0], B(st[1]), B(st[2]))


def pre_ping(ps):           # pending_ping tag, hi, lo, pong?, hi, lo, user
    pi = "None" if ps[0] == 0 else "(Some (%d, %s))" % (payload(ps[1], ps[2]), B(ps[0] == 2))
    po = "None" if ps[3] == 0 else "(Some %d)" % payload(ps[4], ps[5])
    u = "None" if ps[6] < 0 else "(Some %s)" % UCELL[ps[6]]
    return "PPing %s %s %s" % (pi, po, u)


def pre_goaway(gs):         # close_now, going last, reason, user, pending last, reason
    return "PGoAway %s %s %s %s" % (B(gs[0]), opt_pair(gs[1], gs[2]), B(gs[3]), opt_pair(gs[4], gs[5]))


def p2res_of(ev_args, kids):
    """conn.poll2_result args: lp, kind, reason, initiator, id / is_eof, debug..."""
    kind, reason, ini, x = ev_args[1], ev_args[2], ev_args[3], ev_args[4]
    debug = ev_args[5:]
    if kind == 0:
        return "ROk", "FLoop", []
    if kind == 1:
        return "(RGoAway %d %s %s)" % (reason, nlist(debug), INITIATOR[ini]), "FLoop", []
    if kind == 2:
        rg = [k for k in kids if k[0] == "conn.reset_goaway"]
        if rg:
            return "(RReset %s (Some (%d, %s)))" % (INITIATOR[ini], rg[0][2], nlist(rg[0][3:])), "FLoop", []
        return "(RReset %s None)" % INITIATOR[ini], "FLoop", []
    io = [k for k in kids if k[0] == "conn.io"]
    if not io:
        raise ProjectionError("Io result without conn.io")
    a = io[0][2:]
    closed = any(k[0] == "conn.io_closed" for k in kids)
    return ("(RIo %s %s)" % (B(a[0] and a[1]), B(a[2])), "FLoop" if closed else "FReturn",
            [] if closed else ["OConnResult CRIo"])


RESULT_KIDS = {"conn.handle_go_away", "conn.already_going_away", "conn.go_away_now_data", "goaway.go_away_now", "goaway.go_away",
               "conn.reset_goaway", "conn.io", "conn.io_closed"}


def conn_result_of(res):
    """op result of conn_poll / poll_accept when Connection::poll returned Ready -> (reason, initiator) view"""
    if res in ("Ready(Ok)", "None"):
        return "ok"
    if isinstance(res, str):
        m = re.match(r"E\((\w+),(\d+|-),(\w+)", res)
        if m:
            if m.group(1) == "io":
                return "io"
            if m.group(1) == "goaway":
                return ("goaway", int(m.group(2)), {"remote": "IRemote", "library": "ILibrary", "user": "IUser"}[m.group(3)])
    return None


def wire_params(params):
    d = {1: 0, 2: 1, 3: 2, 4: 3, 5: 4, 6: 5, 8: 6}
    a = [-1] * 7
    for (i, v) in params:
        if i in d:
            a[d[i]] = v
    return a


_CONSTS = {}


def ping_constants():
    """SHUTDOWN_PAYLOAD / USER_PAYLOAD of /repo/src/frame/ping.rs (re-read on every run)"""
    if not _CONSTS:
        src = open(os.path.join(common.REPO, "src", "frame", "ping.rs")).read()
        for nm in ("SHUTDOWN_PAYLOAD", "USER_PAYLOAD"):
            m = re.search(r"const %s: Payload = \[([^\]]*)\];" % nm, src)
            if not m:
                raise ProjectionError("cannot find %s in frame/ping.rs" % nm)
            bs = [int(x.strip(), 16) for x in m.group(1).split(",") if x.strip()]
            v = 0
            for b in bs:
                v = v * 256 + b
            _CONSTS[nm] = v
    return _CONSTS["SHUTDOWN_PAYLOAD"], _CONSTS["USER_PAYLOAD"]


# ------------------------------------------------------------------------------------------------ projection

def labels_of_scenario(sc):
    """-> (cfg term, [label terms], counts, wire-consistency error or None)"""
    trace = sc["trace"]
    evs = []
    for st in trace:
        for e in st.get("ev", []):
            if e[0].startswith(PREFIXES) and e[0] not in FOREIGN:
                evs.append((st["i"], e))
    step = {st["i"]: st for st in trace}
    labels, counts = [], {}
    obs = []                  # observations since the last label
    last_local = [None]       # last observed parameters of the pending local SETTINGS
    first_local = [None]
    emitted = []              # frames the emit hooks reported, in order

    def add(lbl, pre=(), outs=None, flow=None):
        allobs = []
        for x in list(obs) + list(pre):
            if x not in allobs:
                allobs.append(x)
        e = "(mkE [%s] %s %s [])" % ("; ".join(allobs),
                                     "None" if outs is None else "(Some [%s])" % "; ".join(outs),
                                     "None" if flow is None else "(Some %s)" % flow)
        labels.append([lbl, e])
        del obs[:]
        k = lbl.split()[0]
        counts[k] = counts.get(k, 0) + 1

    n = len(evs)
    i = 0

    def nm(j):
        return evs[j][1][0] if j < n else None

    def take_kids(j, names):
        ks = []
        while j < n and evs[j][1][0] in names:
            ks.append(evs[j][1])
            j += 1
        return ks, j

    def internal_result(j):
        """consume a conn.poll2_result (+ its nested events) that the model handles inside the current label"""
        ks, j2 = take_kids(j + 1, RESULT_KIDS)
        r, fl, o = p2res_of(evs[j][1][2:], ks)
        return r, fl, j2

    def library_reason(j):
        """the poll2 result after a failed apply_*_settings must be Error::library_go_away(reason)"""
        a = evs[j][1][2:]
        if not (a[1] == 1 and a[3] == 1 and len(a) == 5):
            raise ProjectionError("apply_*_settings failed with something else than library_go_away: %r" % (a,))
        return a[2]

    while i < n:
        stepno, e = evs[i]
        name, a = e[0], e[2:]
        op, res = step[stepno]["op"], step[stepno]["res"]
        if name in ("conn.poll",):
            obs.append("PConn %s" % cstate(a))
            i += 1
        elif name == "conn.loop":
            obs.append("PConn %s" % cstate(a))
            i += 1
            if a[0] == 1:
                if nm(i) == "conn.shutdown_ready":
                    add("LShutdown Ready", flow="FNext")
                    i += 1
                elif conn_result_of(res) == "io":
                    add("LShutdown IoErr", outs=["OConnResult CRIo"], flow="FReturn")
                else:
                    add("LShutdown NotReady", flow="FPending")
            elif a[0] == 2:
                if nm(i) != "conn.take_error":
                    raise ProjectionError("Closed without take_error")
                t = evs[i][1][2:]
                obs.append("PError %s" % (opt_pair(t[3], t[4]) if t[2] else "None"))
                obs.append("PErrorDebug %s" % nlist(t[5:]))
                cr = conn_result_of(res)
                outs = None
                if cr == "ok":
                    outs = ["OConnResult CROk"]
                elif isinstance(cr, tuple):
                    outs = ["OConnResult (CRGoAway %s %d %s)" % (nlist(t[5:]) if cr[2] == "IRemote" else "[]", cr[1], cr[2])]
                add("LTakeError", outs=outs, flow="FReturn")
                i += 1
        elif name == "conn.iter":
            obs.append("PIds %d %d %d" % (a[0], a[1], a[2]))
            obs.append("PError %s" % (opt_pair(a[4], a[5]) if a[3] else "None"))
            i += 1
        elif name == "conn.pre_recv":
            obs.append("PIds %d %d %d" % (a[0], a[1], a[2]))
            i += 1
        elif name == "conn.idle":
            ks, i = take_kids(i + 1, {"conn.go_away_now", "goaway.go_away_now", "goaway.go_away"})
            pre = []
            for k in ks:
                if k[0] == "goaway.go_away_now":
                    pre.append(pre_goaway(k[4:10]))
            add("LIdle %s" % B(a[2]), pre=pre, outs=[], flow="FNext" if ks else "FPending")
        elif name == "conn.maybe_close":
            ks, i = take_kids(i + 1, {"conn.go_away_now", "goaway.go_away_now", "goaway.go_away"})
            pre = []
            for k in ks:
                if k[0] == "goaway.go_away_now":
                    pre.append(pre_goaway(k[4:10]))
                if k[0] == "conn.go_away_now":
                    pre.append("PLast %d" % k[3])
            add("LMaybeClose", pre=pre, outs=[], flow="FNext")
        elif name == "conn.graceful":
            ks, i = take_kids(i + 1, {"conn.go_away", "goaway.go_away", "ping.ping_shutdown"})
            pre, outs = [], []
            for k in ks:
                if k[0] == "goaway.go_away":
                    pre.append(pre_goaway(k[4:10]))
                if k[0] == "ping.ping_shutdown":
                    pre.append(pre_ping(k[2:9]))
                if k[0] == "conn.go_away":
                    outs.append("ORecvMax %d" % k[2])
            add("LGraceful", pre=pre, outs=outs, flow="FNext")
        elif name == "conn.go_away_from_user":
            ks, i = take_kids(i + 1, {"goaway.from_user", "goaway.go_away_now", "goaway.go_away"})
            add("LAbrupt %d" % a[0], pre=["PLast %d" % a[1]], outs=[], flow="FNext")
        elif name == "settings.send_settings":
            r = None
            if op.get("op") == "set_initial_window":
                r = ["OApi AOk"] if res == "ok" else (["OApi AErrSettingsPending"] if isinstance(res, str) and "SETTINGS before received previous ACK" in res else None)
            add("LSendSettings %s" % sparams(a[3:10]), pre=[pre_settings(a[0:3])], outs=r, flow="FNext")
            i += 1
        elif name == "ping.take_user_pings":
            add("LTakeUserPings", outs=["OApi ANone" if a[0] else "OApi AOk"], flow="FNext")
            i += 1
        elif name == "ping.user_send":
            r = None
            if op.get("op") == "send_ping":
                if res == "ok":
                    r = ["OApi APingOk"]
                elif isinstance(res, str) and "send_ping before received previous pong" in res:
                    r = ["OApi AErrPingPending"]
                elif isinstance(res, str) and res.startswith("E(io"):
                    r = ["OApi AErrBrokenPipe"]
            add("LUserSendPing", pre=["PUser (Some %s)" % UCELL[a[0]]], outs=r, flow="FNext")
            i += 1
        elif name == "ping.user_poll_pong":
            r = None
            if op.get("op") == "poll_pong":
                r = {"Pending": ["OApi APending"], "Pong": ["OApi APong"]}.get(res if isinstance(res, str) else "", None)
                if r is None and isinstance(res, str) and res.startswith("E(io"):
                    r = ["OApi AErrBrokenPipe"]
            add("LUserPollPong", pre=["PUser (Some %s)" % UCELL[a[0]]], outs=r, flow="FNext")
            i += 1
        elif name == "ping.user_closed":
            add("LDropConn", pre=["PUser (Some %s)" % UCELL[a[0]]], outs=[], flow="FNext")
            i += 1
        elif name == "goaway.poll":
            pre = [pre_goaway(a[0:6]), "PPendingDebug %s" % nlist(a[6:])]
            has_pending = a[4] >= 0
            i += 1
            outs, c, flow = [], "Ready", None
            if has_pending:
                if nm(i) == "goaway.blocked":
                    c, flow = "NotReady", "FPending"
                    i += 1
                elif nm(i) == "goaway.emit":
                    g = evs[i][1][2:]
                    outs.append("OFrame (WGoAway %d %d %s)" % (g[0], g[1], nlist(g[2:])))
                    emitted.append(("GOAWAY", g[0], g[1], list(g[2:])))
                    i += 1
                else:
                    c, flow = "IoErr", "FRaiseIo"
            if c != "NotReady" and c != "IoErr":
                if nm(i) == "conn.poll2_result" and evs[i][1][3] in (0, 1):
                    _, flow, i = internal_result(i)
                else:
                    flow = "FNext"
            add("LPollGoAway %s" % c, pre=pre, outs=outs, flow=flow)
        elif name == "ping.send_pending_pong":
            pre = [pre_ping(a[0:7])]
            i += 1
            outs, c, flow = [], "Ready", "FNext"
            if a[3]:
                if nm(i) == "ping.blocked_pong":
                    c, flow = "NotReady", "FPending"
                    i += 1
                elif nm(i) == "ping.emit_pong":
                    g = evs[i][1][2:]
                    outs.append("OFrame (WPing true %d)" % payload(g[0], g[1]))
                    emitted.append(("PING", True, payload(g[0], g[1])))
                    i += 1
                else:
                    c, flow = "IoErr", "FRaiseIo"
            add("LPollPong %s" % c, pre=pre, outs=outs, flow=flow)
        elif name == "ping.send_pending_ping":
            pre = [pre_ping(a[0:7])]
            i += 1
            outs, c, flow = [], "Ready", "FNext"
            wants = a[0] == 1 or (a[0] == 0 and a[6] == 1)
            if wants:
                if nm(i) == "ping.blocked_ping":
                    c, flow = "NotReady", "FPending"
                    i += 1
                elif nm(i) == "ping.emit_ping":
                    g = evs[i][1][2:]
                    outs.append("OFrame (WPing false %d)" % payload(g[0], g[1]))
                    emitted.append(("PING", False, payload(g[0], g[1])))
                    i += 1
                else:
                    c, flow = "IoErr", "FRaiseIo"
            elif nm(i) == "ping.register_ping_task":
                outs.append("OReg WPingTask")
                i += 1
            add("LPollPing %s" % c, pre=pre, outs=outs, flow=flow)
        elif name == "settings.poll_send":
            tag, remote = a[0], a[1]
            last_local[0] = a[3:10] if tag != 2 else None
            if first_local[0] is None and not any(l.startswith("LSendSettings") for l, _ in labels):
                first_local[0] = a[3:10] if tag != 2 else None
            pre = [pre_settings(a[0:3]), "PLocalParams %s" % opt_sparams(a[3:10], tag != 2), "PRemoteParams %s" % opt_sparams(a[10:17], remote == 1)]
            i += 1
            go_on = True
            if remote:
                outs, c, flow, err = [], "Ready", "FNext", "None"
                if nm(i) == "settings.blocked_ack":
                    c, flow, go_on = "NotReady", "FPending", False
                    i += 1
                elif nm(i) == "settings.emit_ack":
                    outs.append("OFrame WSettingsAck")
                    emitted.append(("SETTINGS", True, None))
                    i += 1
                    if nm(i) == "settings.remote_applied":
                        outs.append("OApplyRemote %s %s" % (sparams(a[10:17]), B(evs[i][1][2])))
                        i += 1
                    else:
                        outs.append("OApplyRemoteFailed")
                        if nm(i) != "conn.poll2_result":
                            raise ProjectionError("apply_remote_settings failed without a poll2 result")
                        reason = library_reason(i)
                        r, flow, i = internal_result(i)
                        err, go_on = "(Some %d)" % reason, False
                else:
                    c, flow, go_on = "IoErr", "FRaiseIo", False
                add("LSettingsAck %s %s" % (c, err), pre=pre, outs=outs, flow=flow)
                pre = []
            else:
                add("LSettingsAck Ready None", pre=pre, outs=[], flow="FNext")
                pre = []
            if go_on:
                outs, c, flow = [], "Ready", "FNext"
                if tag == 0:
                    if nm(i) == "settings.blocked_local":
                        c, flow = "NotReady", "FPending"
                        i += 1
                    elif nm(i) == "settings.emit_local":
                        g = evs[i][1][2:]
                        outs.append("OFrame (WSettings %s)" % sparams(g[0:7]))
                        emitted.append(("SETTINGS", False, list(g[0:7])))
                        i += 1
                    else:
                        c, flow = "IoErr", "FRaiseIo"
                add("LSettingsLocal %s" % c, pre=pre, outs=outs, flow=flow)
        elif name == "conn.recv_frame":
            depth = e[1]
            lp, kind = a[0], a[1]
            j = i + 1
            kids = []
            while j < n and evs[j][1][1] > depth:
                kids.append(evs[j][1])
                j += 1
            i = j
            pre = ["PLast %d" % lp]
            follows = nm(i) == "conn.poll2_result"
            if kind == 0:
                if not follows:
                    raise ProjectionError("eof without result")
                _, flow, i = internal_result(i)
                add("LRecv InEof", pre=pre, outs=[], flow=flow)
            elif kind == 1:
                hd = [k for k in kids if k[0] == "conn.headers_done"]
                if hd:
                    after = hd[0][2]
                elif follows:
                    after = evs[i][1][2]
                else:
                    raise ProjectionError("HEADERS without headers_done or result")
                raised = after > lp
                if raised and after != a[2]:
                    raise ProjectionError("last_processed_id raised to another id")
                add("LRecv (InHeaders %d %s)" % (a[2], B(raised)), pre=pre, outs=["OProcessed %d" % a[2]] if raised else [], flow="FNext")
            elif kind == 5:
                # recv_frame hands the frame back to poll2, which calls settings.recv_settings next
                if nm(i) != "settings.recv_settings":
                    raise ProjectionError("SETTINGS without recv_settings")
                s = evs[i][1][2:]
                d2 = evs[i][1][1]
                i += 1
                kids = []
                while i < n and evs[i][1][1] > d2:
                    kids.append(evs[i][1])
                    i += 1
                follows = nm(i) == "conn.poll2_result"
                pre.append(pre_settings(s[1:4]))
                if not s[0]:
                    add("LRecv (InSettings %s)" % sparams(s[4:11]), pre=pre, outs=[], flow="FNext")
                else:
                    applied = any(k[0] == "settings.local_applied" for k in kids)
                    stray = any(k[0] == "settings.stray_ack" for k in kids)
                    if applied:
                        outs = ["OApplyLocal %s" % sparams(last_local[0])] if last_local[0] is not None else None
                        add("LRecv (InSettingsAck None)", pre=pre, outs=outs, flow="FNext")
                    elif stray:
                        if not follows:
                            raise ProjectionError("stray ack without result")
                        _, flow, i = internal_result(i)
                        add("LRecv (InSettingsAck None)", pre=pre, outs=[], flow=flow)
                    else:
                        if not follows:
                            raise ProjectionError("failed apply_local_settings without result")
                        reason = library_reason(i)
                        r, flow, i = internal_result(i)
                        add("LRecv (InSettingsAck (Some %d))" % reason, pre=pre, outs=["OApplyLocalFailed"], flow=flow)
            elif kind == 6:
                flow = "FNext"
                if follows:
                    _, flow, i = internal_result(i)
                add("LRecv (InGoAway %d %d %s)" % (a[2], a[3], nlist(a[4:])), pre=pre, outs=[], flow=flow)
            elif kind == 7:
                rp = [k for k in kids if k[0] == "ping.recv_ping"]
                if not rp:
                    raise ProjectionError("PING without recv_ping")
                p = rp[0][2:]
                pre.append(pre_ping(p[3:10]))
                outs = ["ORecvMax %d" % k[2] for k in kids if k[0] == "conn.go_away"]
                add("LRecv (InPing %s %d)" % (B(p[0]), payload(p[1], p[2])), pre=pre, outs=outs, flow="FNext")
            else:
                add("LRecv InOther", pre=pre, outs=[], flow="FNext")
        elif name == "conn.poll2_result":
            depth = e[1]
            j = i + 1
            kids = []
            while j < n and (evs[j][1][1] > depth or evs[j][1][0] in RESULT_KIDS):
                kids.append(evs[j][1])
                j += 1
            i = j
            r, flow, outs = p2res_of(a, kids)
            pre = ["PLast %d" % a[0]]
            for k in kids:
                if k[0] == "goaway.go_away_now":
                    pre.append(pre_goaway(k[4:10]))
                    break
            add("LResult %s" % r, pre=pre, outs=outs, flow=flow)
        else:
            raise ProjectionError("unexpected control event %s at step %d" % (name, stepno))
    if obs and labels:
        # observations after the last label: post-state of the last label
        lbl, ex = labels[-1]
        assert ex.endswith(" [])")
        labels[-1][1] = ex[:-4] + " [%s])" % "; ".join(obs)
    # initial local SETTINGS: what the handshake wrote (wire view)
    p0 = None
    for st in trace:
        for f in st["out"]:
            if f["t"] == "SETTINGS" and not f.get("ack") and p0 is None:
                p0 = wire_params(f.get("params", []))
    if p0 is None:
        p0 = first_local[0] or [-1] * 7      # the handshake's SETTINGS never reached the wire: first hook observation
    shut, user = ping_constants()
    cfg = "(%s, %d, %d)" % (sparams(p0), shut, user)
    return cfg, [(l, ex) for l, ex in labels], counts, wire_consistency(sc, emitted)


QUIET = ["LPollGoAway Ready", "LPollPong Ready", "LPollPing Ready", "LSettingsAck Ready None", "LSettingsLocal Ready"]
_EXP = re.compile(r"^\(mkE \[(.*)\] \(Some \[(.*?)\]\) \(Some FNext\) \[\]\)$", re.S)


def segments(labels_with_expect):
    """compress: a quiet poll2 iteration (nothing pending, nothing emitted) becomes `QI obs reg` (see Model/Control.v)"""
    segs, cur = [], []
    items = labels_with_expect
    k = 0
    while k < len(items):
        quiet = None
        if k + 5 <= len(items) and [items[k + j][0] for j in range(5)] == QUIET:
            obs, ok, reg = [], True, False
            for j in range(5):
                m = _EXP.match(items[k + j][1])
                if not m:
                    ok = False
                    break
                outs = m.group(2).strip()
                if j == 2 and outs == "OReg WPingTask":
                    reg = True
                elif outs != "":
                    ok = False
                    break
                if m.group(1).strip():
                    obs.append(m.group(1).strip())
            if ok:
                flat = []
                for grp in obs:
                    for x in grp.split("; "):
                        if x not in flat:
                            flat.append(x)
                quiet = "QI [%s] %s" % ("; ".join(flat), B(reg))
        if quiet:
            if cur:
                segs.append("[%s]" % ";\n    ".join(cur))
                cur = []
            segs.append(quiet)
            k += 5
        else:
            cur.append("(%s, %s)" % items[k])
            k += 1
    if cur:
        segs.append("[%s]" % ";\n    ".join(cur))
    return segs


def wire_consistency(sc, emitted):
    """The emit hooks sit where dst.buffer is called: the control frames on the wire (after the handshake's SETTINGS) must be a
    prefix of the frames the emit hooks reported, frame by frame."""
    wire = []
    first = True
    for st in sc["trace"]:
        for f in st["out"]:
            t = f["t"]
            if t == "SETTINGS":
                if first and not f.get("ack"):
                    first = False       # the handshake's SETTINGS (written by client.rs / server.rs, not by settings.rs)
                    continue
                wire.append(("SETTINGS", bool(f.get("ack")), None if f.get("ack") else wire_params(f.get("params", []))))
            elif t == "PING":
                v = 0
                for b in f.get("payload", []):
                    v = v * 256 + b
                wire.append(("PING", bool(f.get("ack")), v))
            elif t == "GOAWAY":
                wire.append(("GOAWAY", f["last"], f["code"], list(f.get("debug", []))))
    if len(wire) > len(emitted):
        return {"why": "more control frames on the wire than emission events", "wire": len(wire), "events": len(emitted)}
    for k, w in enumerate(wire):
        if tuple(w) != tuple(emitted[k]):
            return {"why": "control frame on the wire differs from the emission event", "index": k, "wire": w, "event": emitted[k]}
    return None


def coq_case(sc):
    cfg, labels, counts, wc = labels_of_scenario(sc)
    return "(%s, [%s])" % (cfg, ";\n   ".join(segments(labels))), counts, len(labels), wc


PREAMBLE = "From H2V Require Import Base.Tac Base.Bytes Model.Control.\nLocal Open Scope N_scope.\n"

PROFILES = ("control", "shutdown", "mixed", "chaos")


CORPUS = os.path.join(common.VERIF, "corpus", "control")


def corpus_scenarios():
    """the committed replays of past findings: re-run on the current tree (they run first)"""
    scs = []
    if not os.path.isdir(CORPUS):
        return scs
    for fn in sorted(os.listdir(CORPUS)):
        if not fn.endswith(".json"):
            continue
        rc, out = common.run_harness("conn", ["--replay", os.path.join(CORPUS, fn)], timeout=120)
        for line in out.splitlines():
            if line.startswith("{"):
                try:
                    o = json.loads(line)
                except ValueError:
                    continue
                if "trace" in o:
                    o["settled"] = False
                    o["profile"] = "corpus:" + fn
                    scs.append(o)
    return scs


def correspond_control(rep, tier, seed, profiles=PROFILES, extra=()):
    per = 50 if tier == "quick" else 1250
    steps = 90 if tier == "quick" else 130
    all_cases, all_scs, hist = [], [], {}
    proj_errors = []
    wire_bad = []
    batches = [list(extra)]
    for pi, prof in enumerate(profiles):
        scs, _ = sendflow.gen_scenarios(seed * 4099 + pi, per, steps, prof)
        batches.append(scs)
    for scs in batches:
        for sc in scs:
            try:
                case, counts, nl, wc = coq_case(sc)
            except ProjectionError as ex:
                proj_errors.append((sc, str(ex)))
                continue
            if nl == 0:
                continue
            if wc:
                wire_bad.append((sc, wc))
            all_cases.append(case)
            all_scs.append(sc)
            for k, v in counts.items():
                hist[k] = hist.get(k, 0) + v
    failing, err = common.coq_eval_failing("control", PREAMBLE, "check_control", all_cases, shard=max(4, -(-len(all_cases) // common.NPROC)))
    if err:
        rep.violation("broken-correspondence", {"what": "coqc failed on generated control cases", "log": err[-3000:]}, no_input=True)
    for sc, msg in proj_errors[:3]:
        rep.violation("broken-correspondence", {"what": "control events do not follow the call structure the projection knows", "error": msg,
                                                "scenario": scenario_of(sc)}, no_input=True)
    for sc, wc in wire_bad[:3]:
        rep.violation("broken-correspondence", {"what": "emission hooks and wire frames disagree", "detail": wc, "scenario": scenario_of(sc)}, no_input=True)

    def nontriv(sc):
        ks = set()
        for st in sc["trace"]:
            for f in st["out"]:
                if f["t"] in ("PING", "GOAWAY") or (f["t"] == "SETTINGS" and st["i"] > 1):
                    ks.add(f["t"])
        return len(ks) >= 2
    rep.correspondences.append({
        "name": "control-lockstep", "cases": len(all_cases), "nontrivial": sum(1 for sc in all_scs if nontriv(sc)),
        "disagreements": len(failing) + len(proj_errors) + len(wire_bad),
        "distribution": {"labels": hist, "profiles": list(profiles)},
        "rule": "random connection scenarios (profiles control/shutdown/mixed/chaos, client and server, scripted peer: SETTINGS with any "
                "parameters back to back, PINGs, user pings, stray and duplicate acknowledgements, GOAWAYs with decreasing/increasing ids, "
                "graceful and abrupt shutdown, local SETTINGS changes, write blocking with small budgets, I/O errors, EOF); every hooked call "
                "of settings.rs / ping_pong.rs / go_away.rs / connection.rs becomes a label with the observed codec readiness; the Coq model is "
                "stepped through the labels and compared with the observed pre-state at every label, the emitted frames, API results, "
                "connection result and control flow; the emission events are also compared frame by frame with the wire; non-trivial = at "
                "least two kinds of control frames written after the handshake"})
    return all_scs, failing


def panic_class(msg):
    if "left: User" in msg and "right: Library" in msg:
        return "reset-initiator-user-debug-assert"
    if "GOAWAY stream IDs shouldn't be higher" in msg:
        return "goaway-id-assert"
    m = re.search(r"assertion failed: ([\w.!() ]+)", msg)
    return "assert:" + (m.group(1).strip() if m else msg[:60])


def split_assert_failures(rep, scs, failing):
    """A lock-step case in which the model says Panic (an assert of the modelled code fires) and the implementation did panic
    in that run is not a broken correspondence but an input on which the implementation violates 'no assert fires':
    report it as failing-input (or as a known finding of its class).  Returns the remaining (genuinely disagreeing) indices."""
    rest = []
    known = common.load_known_findings().get("known", [])
    for i in failing:
        sc = scs[i]
        panics = [st for st in sc["trace"] if isinstance(st["res"], dict) and "panic" in st["res"]]
        if not panics:
            rest.append(i)
            continue
        case, _, _, _ = coq_case(sc)
        rc, out = common.coq_eval_raw("control_diag", PREAMBLE + "Definition c := %s.\nEval vm_compute in (diag_control c).\n" % case)
        m = re.search(r"=\s*(\d+)", out)
        code = int(m.group(1)) if m else 0
        if code % 10 != 4:
            rest.append(i)
            continue
        cls = panic_class(panics[0]["res"]["panic"])
        kn = [k for k in known if k.get("property") in (rep.prop, "C14", "C15") and k.get("class") == cls]
        if kn:
            rep.known("%s/%s: %s" % (rep.prop, cls, kn[0].get("what", "")[:160]))
        else:
            rep.violation("failing-input", {"oracle": "no assert of settings.rs / ping_pong.rs / go_away.rs / connection.rs fires (C14_no_assert / C15_no_assert): "
                                                      "the model predicts the assertion failure and the implementation panicked",
                                            "class": cls, "panic": panics[0]["res"]["panic"], "step": panics[0]["i"], "scenario": scenario_of(sc)})
    return rest


def scenario_of(sc):
    return {"cfg": sc["cfg"], "seed": sc.get("seed"), "i": sc.get("i"), "profile": sc.get("profile"),
            "trace": [{"op": st["op"]} for st in sc["trace"]]}


def report_disagreements(rep, scs, failing, theorems=()):
    for i in failing[:3]:
        sc = scs[i]
        case, counts, nl, _ = coq_case(sc)
        rc, out = common.coq_eval_raw("control_diag", PREAMBLE + "Definition c := %s.\nEval vm_compute in (diag_control c).\n" % case)
        m = re.search(r"=\s*(\d+)", out)
        code = int(m.group(1)) if m else None
        _, labels, _, _ = labels_of_scenario(sc)
        k = (code // 10 - 1) if code and code >= 10 else None
        rep.violation("broken-correspondence", {
            "correspondence": "Model/Control.v check_control vs /repo settings.rs / ping_pong.rs / go_away.rs / connection.rs events",
            "diag_code": code,
            "reason": {1: "pre-state differs", 2: "outputs differ", 3: "model Stuck (the code took a step the poll2 order forbids)",
                       4: "model Panic (an assert of the code would fire)", 5: "control flow differs", 6: "post-state differs",
                       7: "PING payload constants differ"}.get((code or 0) % 10, "?"),
            "first_diverging_label": "(%s, %s)" % labels[k] if k is not None and k < len(labels) else None,
            "labels_before": ["(%s, %s)" % x for x in labels[max(0, (k or 0) - 6):(k or 0)]],
            "theorems_no_longer_tied_to_code": list(theorems),
            "scenario": scenario_of(sc)}, no_input=True)


# ------------------------------------------------------------------------------------------------ wire-level oracles

def be(p):
    v = 0
    for b in p:
        v = v * 256 + b
    return v


def fed_frames(sc):
    """peer frames fed, in order, as (step, what) for the generator's well-formed frames; anything else (chaos) as None"""
    out = []
    for st in sc["trace"]:
        op = st["op"]
        if op.get("op") == "peer":
            w = op.get("what")
            out.append((st["i"], w if isinstance(w, dict) and "t" in w else None))
    return out


# texts of the assert!/expect calls of settings.rs, ping_pong.rs, go_away.rs, connection.rs and Recv::go_away
CONTROL_ASSERTS = ("GOAWAY stream IDs shouldn't be higher", "pending_ping should be for shutdown", "received unexpected shutdown ping",
                   "graceful GOAWAY should be NO_ERROR", "self.remote.is_none()", "self.pending_pong.is_none()",
                   "self.pending_ping.is_none()", "self.max_stream_id >= last_processed_id", "invalid GOAWAY frame",
                   "invalid settings frame", "invalid pong frame", "invalid ping frame", "!frame.is_ack()", "right: Library")


def c14_oracle(sc):
    """Acknowledgements on the wire.  Returns a violation dict or None.
       * SETTINGS ACKs written <= SETTINGS fed (+1 for the peer's initial SETTINGS); PONGs written <= PINGs fed; the k-th PONG echoes
         the payload of the k-th PING fed -- as long as only well-formed frames were fed before (a malformed frame ends the
         connection, after which fed frames are not consumed);
       * when the trace ends settled with a healthy transport and connection, every SETTINGS / PING fed has been answered;
       * after the n-th ACK no written DATA / HEADERS / PUSH_PROMISE / CONTINUATION frame exceeds the MAX_FRAME_SIZE in force
         (the n-th SETTINGS' value, or the last one before it, or 16384);
       * a SETTINGS ACK fed while the endpoint has no unacknowledged SETTINGS of its own is answered by GOAWAY(PROTOCOL_ERROR);
       * user pings: PING(USER) frames written <= successful send_ping calls <= pongs delivered by poll_pong + 1 (a second
         send_ping while one is outstanding is refused); pongs delivered <= acknowledgements with the USER payload fed;
       * no assert!/expect of settings.rs / ping_pong.rs / go_away.rs / connection.rs fires."""
    _, user_payload = ping_constants()
    ping_ok = user_pings_written = pongs_delivered = user_acks_fed = 0
    cfg = sc["cfg"]
    fed_settings = [dict(cfg.get("peer_settings", []))]     # initial SETTINGS
    fed_pings = []
    acks = pongs = 0
    max_frame = 16384
    own_unacked = 1           # the handshake's SETTINGS
    clean = True              # only well-formed generator frames so far
    transport_ok = True
    stray_at = None
    goaway_codes = []
    acks_fed = 0
    for st in sc["trace"]:
        op = st["op"]
        o = op.get("op")
        res = st["res"]
        if isinstance(res, dict) and "panic" in res:
            if any(t in res["panic"] for t in CONTROL_ASSERTS):
                return {"class": panic_class(res["panic"]), "step": st["i"], "why": "an assertion of the control plane fired", "panic": res["panic"]}
            clean = False
        if o == "send_ping" and res == "ok":
            ping_ok += 1
            if ping_ok > pongs_delivered + 1:
                return {"class": "second-user-ping-accepted", "step": st["i"], "why": "send_ping accepted while a user ping is outstanding",
                        "accepted": ping_ok, "pongs_delivered": pongs_delivered}
        elif o == "poll_pong" and res == "Pong":
            pongs_delivered += 1
            if pongs_delivered > user_acks_fed:
                return {"class": "pong-without-ack", "step": st["i"], "why": "poll_pong delivered more pongs than PING acknowledgements with the user payload were fed",
                        "delivered": pongs_delivered, "acks_fed": user_acks_fed}
        if o == "peer":
            w = op.get("what")
            if isinstance(w, dict) and w.get("t") == "PING" and w.get("ack") and be(w.get("payload") or op.get("bytes", [])[9:17]) == user_payload:
                user_acks_fed += 1
            if not (isinstance(w, dict) and "t" in w):
                clean = False
                if isinstance(w, dict) and w.get("chaos") == "stray-settings-ack" and stray_at is None:
                    stray_at = st["i"]
            elif w["t"] == "SETTINGS":
                if w.get("ack"):
                    acks_fed += 1
                else:
                    fed_settings.append({p[0]: p[1] for p in w.get("params", [])})
            elif w["t"] == "PING" and not w.get("ack"):
                fed_pings.append(be(w["payload"]))
        elif o in ("write_mode",) and op.get("mode") in ("fail", "zero"):
            transport_ok = False
        elif o in ("eof", "read_fail", "drop_conn"):
            transport_ok = False
        for f in st["out"]:
            t = f["t"]
            if t == "SETTINGS":
                if f.get("ack"):
                    acks += 1
                    if acks > len(fed_settings):
                        return {"class": "ack-surplus", "step": st["i"], "why": "more SETTINGS acknowledgements written than SETTINGS frames fed", "acks": acks, "fed": len(fed_settings)}
                    for s in fed_settings[:acks]:
                        if 5 in s:
                            max_frame = s[5]
                elif st["i"] > 0:
                    own_unacked += 1
            elif t == "PING" and not f.get("ack") and be(f["payload"]) == user_payload:
                user_pings_written += 1
                if user_pings_written > ping_ok:
                    return {"class": "user-ping-surplus", "step": st["i"], "why": "more PING(USER) frames written than successful send_ping calls",
                            "written": user_pings_written, "send_ping_ok": ping_ok}
            elif t == "PING" and f.get("ack"):
                pongs += 1
                if pongs > len(fed_pings):
                    return {"class": "pong-surplus", "step": st["i"], "why": "more PONGs written than PINGs fed", "pongs": pongs, "fed": len(fed_pings)}
                if clean and be(f["payload"]) != fed_pings[pongs - 1]:
                    return {"class": "pong-payload", "step": st["i"], "why": "the k-th PONG does not echo the k-th PING's payload", "k": pongs,
                            "pong": f["payload"], "ping": fed_pings[pongs - 1]}
            elif t in ("DATA", "HEADERS", "PUSH_PROMISE", "CONTINUATION"):
                if f.get("flen", 0) > max_frame:
                    return {"class": "frame-size", "step": st["i"], "why": "frame larger than the acknowledged MAX_FRAME_SIZE", "flen": f["flen"], "max": max_frame, "frame": t}
            elif t == "GOAWAY":
                goaway_codes.append(f["code"])
    last = sc["trace"][-1]
    healthy = clean and transport_ok and sc.get("settled") and not goaway_codes and not any(
        isinstance(st["res"], dict) and "panic" in st["res"] for st in sc["trace"])
    ended = any(st["op"].get("op") in ("conn_poll", "poll_accept") and conn_result_of(st["res"]) is not None and st["res"] != "Pending" and
                (st["res"] in ("Ready(Ok)", "None") or (isinstance(st["res"], str) and st["res"].startswith("E(")))
                for st in sc["trace"])
    if healthy and not ended and last["io"]["inbound"] == 0:
        if acks != len(fed_settings):
            return {"class": "settings-unanswered", "step": last["i"], "why": "a SETTINGS frame was never acknowledged although the connection is healthy and settled",
                    "acks": acks, "fed": len(fed_settings)}
        if pongs != len(fed_pings):
            return {"class": "ping-unanswered", "step": last["i"], "why": "a PING was never answered although the connection is healthy and settled",
                    "pongs": pongs, "fed": len(fed_pings)}
    # stray ACK: at a poll that has consumed everything fed so far, more ACKs were fed (also by the malformed stream's
    # "stray-settings-ack") than the endpoint can have SETTINGS outstanding for (the handshake's + one per successful
    # set_initial_window so far, whether already on the wire or not) => one of them answered nothing; if the connection was alive
    # and nothing else was wrong, GOAWAY(PROTOCOL_ERROR) must be on the wire once the trace has settled
    seen, requested, bad_before, alive, consumed = 0, 1, False, True, False
    for st in sc["trace"]:
        op = st["op"]
        o = op.get("op")
        if o == "peer":
            w = op.get("what")
            is_ack = isinstance(w, dict) and ((w.get("t") == "SETTINGS" and w.get("ack")) or w.get("chaos") == "stray-settings-ack")
            if is_ack:
                seen += 1
            elif not (isinstance(w, dict) and "t" in w) and not consumed:
                bad_before = True
        elif o == "set_initial_window" and st["res"] == "ok":
            requested += 1
        elif o in ("eof", "read_fail", "drop_conn") or (o == "write_mode" and op.get("mode") in ("fail", "zero")):
            alive = False          # also after the consumption: the GOAWAY may never get written
        if o in ("conn_poll", "poll_accept"):
            if isinstance(st["res"], str) and st["res"] != "Pending" and conn_result_of(st["res"]) is not None and not consumed:
                alive = False
            if seen > requested and alive and not bad_before and st["io"]["inbound"] == 0 and st["res"] == "Pending":
                consumed = True
        if isinstance(st["res"], dict) and "panic" in st["res"]:
            alive = False
    if consumed and alive and sc.get("settled") and not goaway_codes:
        return {"class": "stray-ack-tolerated", "step": last["i"], "why": "an acknowledgement that answers nothing was not treated as a connection error",
                "acks_fed": seen, "settings_requested": requested}
    return None


def c15_oracle(sc):
    """GOAWAY on the wire and at the API.  Returns a violation dict or None.
       * last-stream ids of written GOAWAY frames are non-increasing;
       * each is >= every stream id poll_accept returned before the step in which it was written;
       * after a GOAWAY(L) was fed and consumed (the connection polled with healthy input afterwards) no frame opening a new locally
         initiated stream (HEADERS, PUSH_PROMISE) is written and send_request / push_request do not hand out a new stream;
       * graceful shutdown (requested while nothing else has started a shutdown) writes GOAWAY(2^31-1, NO_ERROR) first, then a PING;
         once the matching PONG was fed and consumed and the trace has settled, a second GOAWAY(last <= the first, NO_ERROR) is on
         the wire (unless an error or an abrupt shutdown intervened);
       * the connection's result carries the peer's error code when a GOAWAY with a non-zero code was consumed."""
    client = sc["cfg"]["role"] == "client"
    accepted = []
    lasts = []
    opened = set()
    fed_goaway = None          # (step, last, code) of the first well-formed GOAWAY fed
    fed_any_goaway = False
    n_fed_goaway = 0
    fed_lasts, increase_at, increase_consumed, done_before = [], None, False, False
    handed_out = set()         # stream ids send_request / push_request returned before the peer's GOAWAY was consumed
    clean = True
    polled_after_goaway = False
    free_writes = True
    graceful_at = None
    gstate, gpayload = 0, None
    abrupt = False
    goaways_written = []
    h_sid = {}                 # handle -> stream id (locally initiated requests)
    cut = None                 # lowest last-stream id among the peer's GOAWAYs that have been CONSUMED (fed, then polled healthily)
    pending_cut = []           # (step fed, last) not yet consumed
    probes = []                # (step fed, payload) of PINGs fed after a not-yet-consumed GOAWAY
    answered = set()           # handles whose response head has been delivered
    for st in sc["trace"]:
        if st["op"].get("op") == "write_mode":
            free_writes = st["op"].get("mode") == "all"
        op = st["op"]
        o = op.get("op")
        res = st["res"]
        if isinstance(res, dict) and "panic" in res and any(t in res["panic"] for t in CONTROL_ASSERTS):
            return {"class": panic_class(res["panic"]), "step": st["i"], "why": "an assertion of the control plane fired", "panic": res["panic"]}
        # "locally initiated streams above the peer's last-stream id fail": once a GOAWAY(L) of the peer has been consumed, a
        # response future of a request with id > L cannot stay pending (every GOAWAY counts, also a later one that lowers L)
        if o == "send_request" and isinstance(res, dict) and "sid" in res and "h" in res:
            h_sid[res["h"]] = res["sid"]
        if o == "poll_response" and isinstance(res, dict) and ("status" in res or "fields" in res):
            answered.add(op.get("h"))
        if o == "peer" and isinstance(op.get("what"), dict) and op["what"].get("t") == "GOAWAY" and clean:
            pending_cut.append((st["i"], op["what"]["last"] & 0x7fffffff))
        # a GOAWAY has certainly been processed once the endpoint has answered a PING that was fed AFTER it (frames are
        # taken in order; with blocked writes the read side may lag behind what the transport has delivered)
        if o == "peer" and isinstance(op.get("what"), dict) and op["what"].get("t") == "PING" and not op["what"].get("ack") and pending_cut:
            probes.append((st["i"], list(op["what"].get("payload") or [])))
        for f in st["out"]:
            if f["t"] == "PING" and f.get("ack") and probes:
                pl = list(f.get("payload") or [])
                hit = [ps for (ps, pp) in probes if pp == pl]
                if hit:
                    upto = min(hit)
                    for (gs, l) in pending_cut:
                        if gs < upto:
                            cut = l if cut is None else min(cut, l)
                    pending_cut = [(gs, l) for (gs, l) in pending_cut if gs >= upto]
                    probes = [(ps, pp) for (ps, pp) in probes if ps > upto]
        if client and clean and cut is not None and o == "poll_response" and res == "Pending" and op.get("h") in h_sid \
                and h_sid[op["h"]] > cut and op.get("h") not in answered:
            return {"class": "stream-above-goaway-not-failed", "step": st["i"],
                    "why": "a request above the peer's GOAWAY last-stream id is still pending after the GOAWAY was processed",
                    "sid": h_sid[op["h"]], "last_stream_id": cut}
        if o == "peer":
            w = op.get("what")
            if not (isinstance(w, dict) and "t" in w):
                clean = False
            elif w["t"] == "GOAWAY":
                wlast = w["last"] & 0x7fffffff          # the reserved bit is not part of the id
                if fed_lasts and clean and wlast > fed_lasts[-1] and increase_at is None and not done_before:
                    increase_at = st["i"]
                fed_lasts.append(wlast)
                fed_any_goaway = True
                n_fed_goaway += 1
                if fed_goaway is None and clean:
                    fed_goaway = (st["i"], wlast, w["code"])
            elif w["t"] == "PING" and w.get("ack") and gstate == 2 and be(w.get("payload") or op.get("bytes", [])[9:17]) == gpayload:
                gstate = 3
        elif o == "graceful_shutdown" and res == "ok" and graceful_at is None and not goaways_written and not abrupt and not fed_any_goaway and clean:
            graceful_at = st["i"]
        elif o == "abrupt_shutdown":
            abrupt = True
        elif o in ("eof", "read_fail", "drop_conn") or (o == "write_mode" and op.get("mode") in ("fail", "zero")):
            clean = False
        if o == "poll_accept" and isinstance(res, dict) and "sid" in res:
            accepted.append(res["sid"])
        for f in st["out"]:
            if f["t"] == "GOAWAY":
                if lasts and f["last"] > lasts[-1]:
                    return {"class": "goaway-id-increased", "step": st["i"], "why": "GOAWAY last-stream id increased", "previous": lasts[-1], "now": f["last"]}
                before = list(accepted)
                # a stream accepted in this very step was handed out after the poll that wrote the frame
                if o == "poll_accept" and isinstance(res, dict) and "sid" in res:
                    before = before[:-1]
                if any(s > f["last"] for s in before):
                    return {"class": "goaway-below-accepted", "step": st["i"], "why": "GOAWAY last-stream id below a stream already handed to the application",
                            "last": f["last"], "accepted": before}
                if graceful_at is not None and not abrupt and clean:
                    if gstate == 0:
                        if f["code"] != 0:
                            gstate = -1        # a connection error overtook the graceful shutdown
                        elif f["last"] != MAX_ID:
                            return {"class": "graceful-first-goaway", "step": st["i"], "why": "graceful shutdown did not start with GOAWAY(2^31-1, NO_ERROR)", "frame": f}
                        else:
                            gstate = 1
                    elif gstate == 1 and f["code"] == 0:
                        return {"class": "graceful-no-ping", "step": st["i"], "why": "second GOAWAY of a graceful shutdown before its PING", "frame": f}
                    elif gstate in (1, 2, 3, 4) and f["code"] != 0:
                        gstate = -1
                lasts.append(f["last"])
                goaways_written.append((st["i"], f["last"], f["code"]))
            elif f["t"] == "PING" and not f.get("ack") and gstate == 1:
                gstate, gpayload = 2, be(f["payload"])
            elif f["t"] in ("HEADERS", "PUSH_PROMISE"):
                sid = f["promised"] if f["t"] == "PUSH_PROMISE" else f["sid"]
                local = (sid % 2 == 1) == client
                if local and sid not in opened:
                    opened.add(sid)
                    # a stream the API created before the GOAWAY was consumed may already sit in the write buffer
                    if fed_goaway is not None and polled_after_goaway and sid > fed_goaway[1] and sid not in handed_out:
                        return {"class": "new-stream-after-goaway", "step": st["i"],
                                "why": "a new locally initiated stream was started above the peer's GOAWAY last-stream id", "sid": sid, "goaway": fed_goaway}
        if o in ("conn_poll", "poll_accept") and isinstance(res, str) and res != "Pending" and conn_result_of(res) is not None:
            done_before = True
        if o in ("conn_poll", "poll_accept") and clean and st["io"]["inbound"] == 0:
            if increase_at is not None and st["i"] > increase_at and res == "Pending" and len(goaways_written) == 0:
                increase_consumed = True
            # consumed while the connection stayed alive (a poll that ends the connection may have stopped reading earlier)
            if fed_goaway is not None and st["i"] > fed_goaway[0] and (res == "Pending" or isinstance(res, dict)):
                # the octets left the transport, but the connection task dispatches a frame only once what it owes (SETTINGS ACK,
                # PONG, queued frames) has been accepted by the transport: with throttled writes the GOAWAY may still sit in the read
                # buffer.  Take the statistics snapshot as the witness (send.max_stream_id lowered to the frame's last id).
                sn_ = st.get("snap")
                if sn_ and "send_max_stream_id" in sn_.get("conn", {}):
                    if sn_["conn"]["send_max_stream_id"] <= fed_goaway[1]:
                        polled_after_goaway = True
                elif free_writes:
                    polled_after_goaway = True
            if gstate == 3:
                gstate = 4
        if o in ("send_request", "push_request") and isinstance(res, dict) and "sid" in res and not (fed_goaway is not None and polled_after_goaway):
            handed_out.add(res["sid"])
        elif o in ("send_request", "push_request") and fed_goaway is not None and polled_after_goaway and clean and isinstance(res, dict) and "sid" in res:
            if res["sid"] > fed_goaway[1]:
                return {"class": "new-stream-after-goaway", "step": st["i"], "why": "%s handed out a new stream after the peer's GOAWAY was processed" % o,
                        "sid": res["sid"], "goaway": fed_goaway}
        cr = conn_result_of(res) if o == "conn_poll" else None
        if cr is not None and fed_goaway is not None and n_fed_goaway == 1 and polled_after_goaway and clean and fed_goaway[2] != 0 and not abrupt:
            if cr == "ok" or (isinstance(cr, tuple) and not (cr[1] == fed_goaway[2] and cr[2] == "IRemote")):
                return {"class": "result-without-peer-code", "step": st["i"], "why": "the connection's result does not report the peer's GOAWAY error code",
                        "result": res, "goaway": fed_goaway}
    if increase_consumed and clean and sc.get("settled") and not abrupt and not any(g[2] != 0 for g in goaways_written):
        return {"class": "peer-goaway-increase-tolerated", "step": sc["trace"][-1]["i"],
                "why": "the peer raised its GOAWAY last-stream id and this was not treated as a connection error", "fed_lasts": fed_lasts}
    lastst = sc["trace"][-1]
    quiescent = sc.get("settled") or (lastst["op"].get("op") == "conn_poll" and lastst["res"] == "Pending" and not lastst["out"]
                                      and lastst["io"]["inbound"] == 0)
    if gstate == 4 and clean and not abrupt and quiescent:
        if len(goaways_written) < 2:
            return {"class": "graceful-no-second-goaway", "step": lastst["i"],
                    "why": "graceful shutdown: the PONG was consumed but no second GOAWAY followed", "goaways": goaways_written}
        # drained: no stream counted any more => the connection must have closed (Closing -> Closed -> result)
        sn = lastst.get("snap")
        done = any(st["op"].get("op") in ("conn_poll", "poll_accept") and conn_result_of(st["res"]) is not None and st["res"] != "Pending"
                   for st in sc["trace"])
        if sn and sn["conn"].get("num_send_streams") == 0 and sn["conn"].get("num_recv_streams") == 0 and not done \
                and all(g[2] == 0 for g in goaways_written):
            # known class KF-C15-1 only when the last processed id is 2^31-1 (should_close_on_idle's `!= StreamId::MAX` test)
            return {"class": "graceful-never-closes" if sn["conn"].get("recv_last_processed_id") == MAX_ID else "graceful-never-closes-below-max",
                    "step": lastst["i"],
                    "why": "graceful shutdown completed its GOAWAY exchange and no stream is left, but the connection does not close",
                    "goaways": goaways_written, "last_processed_id": sn["conn"].get("recv_last_processed_id")}
    return None


def replay_ops(cfg, ops):
    """re-run an op list on the current tree; returns the new scenario (or None)"""
    os.makedirs(common.CASES, exist_ok=True)
    path = os.path.join(common.CASES, "control_replay_%d.json" % os.getpid())
    with open(path, "w") as f:
        json.dump({"cfg": cfg, "trace": [{"op": o} for o in ops]}, f)
    rc, out = common.run_harness("conn", ["--replay", path], timeout=120)
    for line in out.splitlines():
        if line.startswith("{"):
            try:
                o = json.loads(line)
            except ValueError:
                continue
            if "trace" in o:
                o["settled"] = False
                return o
    return None


def shrink_scenario(sc, fn, budget=250):
    """drop ops (halving chunks) while the oracle `fn` still reports a violation of the same class; returns (scenario, violation)"""
    cfg = sc["cfg"]
    ops = [st["op"] for st in sc["trace"] if st["op"].get("op") != "handshake"]
    base = replay_ops(cfg, ops)
    v0 = fn(base) if base else None
    if not v0:
        return sc, fn(sc)          # does not reproduce by replay (settle-dependent): keep the original
    cls = v0.get("class")
    best, bestv = base, v0
    chunk = max(1, len(ops) // 2)
    while chunk >= 1 and budget > 0:
        i = 0
        while i < len(ops) and budget > 0:
            cand = ops[:i] + ops[i + chunk:]
            budget -= 1
            r = replay_ops(cfg, cand)
            v = fn(r) if r else None
            if v and v.get("class") == cls:
                ops, best, bestv = cand, r, v
            else:
                i += chunk
        chunk //= 2
    return best, bestv


def oracle_control(rep, scs, prop):
    fn = c14_oracle if prop == "C14" else c15_oracle
    n_viol = 0
    nontriv = 0
    for sc in scs:
        v = fn(sc)
        if prop == "C14":
            if sum(1 for st in sc["trace"] for f in st["out"] if (f["t"] == "PING" and f.get("ack")) or (f["t"] == "SETTINGS" and f.get("ack"))) >= 2:
                nontriv += 1
        else:
            if any(f["t"] == "GOAWAY" for st in sc["trace"] for f in st["out"]) or any(
                    st["op"].get("op") == "peer" and isinstance(st["op"].get("what"), dict) and st["op"]["what"].get("t") == "GOAWAY" for st in sc["trace"]):
                nontriv += 1
        if v:
            kn = [k for k in common.load_known_findings().get("known", []) if k.get("property") == prop and k.get("class") == v.get("class")]
            if kn:
                rep.known("%s class=%s: %s" % (kn[0].get("id", "?"), v.get("class"), kn[0].get("what", "")[:200]))
                continue
            n_viol += 1
            if n_viol <= 2:
                small, v2 = shrink_scenario(sc, fn)
                rep.violation("failing-input", {"oracle": "%s wire-level oracle" % prop, "class": v.get("class"), "violation": v2 or v,
                                                "scenario": scenario_of(small), "original": {"seed": sc.get("seed"), "i": sc.get("i"), "profile": sc.get("profile")}})
    rep.oracle_runs.append({"name": "%s-wire-oracle" % prop.lower(), "cases": len(scs), "nontrivial": nontriv, "failures": n_viol})
    return n_viol


def search_control(rep, tier, seed, prop):
    """fresh, deeper runs of the wire oracles"""
    for k in range(3 if tier == "quick" else 10):
        for prof in ("control", "shutdown", "chaos"):
            scs, _ = sendflow.gen_scenarios(seed * 6151 + k * 17 + len(prof), 120, 160, prof, snap=False)
            before = len(rep.violations)
            if oracle_control(rep, scs, prop) > 0 and len(rep.violations) > before:
                return True
    return False


if __name__ == "__main__":
    rep = common.Report("C14", "quick", 1)
    seed = int(sys.argv[1]) if len(sys.argv) > 1 else 1
    profs = tuple(sys.argv[2].split(",")) if len(sys.argv) > 2 else PROFILES
    scs, failing = correspond_control(rep, "quick", seed, profiles=profs)
    c = rep.correspondences[-1]
    print("cases", c["cases"], "nontrivial", c["nontrivial"], "failing", failing[:20], c["distribution"]["labels"])
    print("oracle C14", oracle_control(rep, scs, "C14"), "C15", oracle_control(rep, scs, "C15"))
    if failing:
        report_disagreements(rep, scs, failing)
    for p, _ in rep.violations[:4]:
        d = json.load(open(p))
        d.pop("scenario", None)
        print(json.dumps(d, indent=1)[:3000])
