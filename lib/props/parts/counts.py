"""Concurrency counters: trace projection -> labels of coq/Model/Counts.v, lock-step, and the wire /
snapshot oracles of C05 (concurrent-stream limits in both directions, slot recycling)."""
import json
import os
import sys

sys.path.insert(0, os.path.dirname(os.path.dirname(os.path.dirname(os.path.abspath(__file__)))))
import common  # noqa: E402
from props.parts import sendflow  # noqa: E402


def Z(v):
    v = int(v)
    return "(%d)" % v if v < 0 else str(v)


B = common.coq_bool


def optz(v):
    return "(@None Z)" if v < 0 else "(Some %d)" % v


def cpre(c):
    return "(Some (%s))" % ", ".join(Z(x) for x in c)


def labels_of_scenario(sc):
    labels, counts = [], {}
    init = None
    evs = [(st["i"], e) for st in sc["trace"] for e in st.get("ev", []) if e[0].startswith("counts.")]

    def add(lbl, c, counted=None, outs=None):
        e = "(mkCE %s %s %s)" % (cpre(c), counted or "None", "(Some [%s])" % "; ".join(outs) if outs is not None else "None")
        labels.append("(%s, %s)" % (lbl, e))
        k = lbl.split()[0]
        counts[k] = counts.get(k, 0) + 1

    q = {"counts.can_inc_send": ("QSend", 1, 0), "counts.can_inc_recv": ("QRecv", 3, 2), "counts.can_inc_reset": ("QLReset", 5, 4),
         "counts.can_inc_remote_reset": ("QRReset", 7, 6), "counts.can_inc_local_error": ("QLErr", 9, 8)}
    skip_query = None
    for step, e in evs:
        nm, a = e[0], e[2:]
        if skip_query is not None:
            sq, skip_query = skip_query, None
            if nm == sq:
                continue          # the can_inc_* call of the assert! inside the inc_* function itself
        skip_query = {"counts.inc_send": "counts.can_inc_send", "counts.inc_recv": "counts.can_inc_recv",
                      "counts.inc_reset": "counts.can_inc_reset", "counts.inc_remote_reset": "counts.can_inc_remote_reset",
                      "counts.inc_local_error": "counts.can_inc_local_error"}.get(nm)
        if nm in q:
            lbl, ni, mi = q[nm]
            c = a[0:10]
            if init is None:
                init = c
            res = (c[mi] < 0) or (c[ni] < c[mi])
            add(lbl, c, None, ["CBool %s" % B(res)])
        elif nm in ("counts.inc_send", "counts.inc_recv"):
            c = a[3:13]
            if init is None:
                init = c
            add("%s %d%%N" % ("IncSend" if nm.endswith("send") else "IncRecv", a[0]), c, "(Some (%d%%N, %s))" % (a[0], B(a[2])), [])
        elif nm in ("counts.inc_reset", "counts.inc_remote_reset", "counts.dec_remote_reset", "counts.inc_local_error"):
            c = a[0:10]
            if init is None:
                init = c
            add({"counts.inc_reset": "IncLReset", "counts.inc_remote_reset": "IncRReset", "counts.dec_remote_reset": "DecRReset",
                 "counts.inc_local_error": "IncLErr"}[nm], c, None, [])
        elif nm == "counts.apply_remote_settings":
            c = a[2:12]
            if init is None:
                init = c
            add("CSettings %s %s" % (optz(a[0]), B(a[1])), c, None, [])
        elif nm == "counts.transition_after":
            c = a[10:20]
            if init is None:
                init = c
            o = "(mkT %s %s %s %s %s)" % (B(a[3]), B(a[4]), B(a[5]), B(a[6]), B(a[8]))
            add("TransitionAfter %d%%N %s" % (a[0], o), c, "(Some (%d%%N, %s))" % (a[0], B(a[2])), [])
    if init is None:
        return None, labels, counts
    cfg = "(%s, %s, %s, %s, %s)" % (optz(init[0]), optz(init[2]), Z(init[4]), Z(init[6]), optz(init[8]))
    return cfg, labels, counts


def coq_case(sc):
    cfg, labels, counts = labels_of_scenario(sc)
    if cfg is None:
        return None, counts, 0
    return "(%s, [%s])" % (cfg, ";\n    ".join(labels)), counts, len(labels)


PREAMBLE = "From H2V Require Import Base.Tac Base.Bytes Model.Counts.\nLocal Open Scope Z_scope.\n"


def correspond_counts(rep, tier, seed, profiles=("queue", "limits", "pushlimit", "queue", "reset", "mixed", "chaos")):
    per = 50 if tier == "quick" else 800
    steps = 100 if tier == "quick" else 150
    all_cases, all_scs, hist = [], [], {}
    for pi, prof in enumerate(profiles):
        scs, _ = sendflow.gen_scenarios(seed * 3571 + pi, per, steps, prof)
        for sc in scs:
            case, counts, nl = coq_case(sc)
            if not case or nl == 0:
                continue
            all_cases.append(case)
            all_scs.append(sc)
            for k, v in counts.items():
                hist[k] = hist.get(k, 0) + v
    failing, err = common.coq_eval_failing("counts", PREAMBLE, "check_counts", all_cases, shard=12)
    if err:
        rep.violation("broken-correspondence", {"what": "coqc failed on generated counts cases", "log": err[-3000:]}, no_input=True)
    nontrivial = sum(1 for sc in all_scs if sum(1 for st in sc["trace"] for e in st["ev"] if e[0] in ("counts.inc_send", "counts.inc_recv")) >= 2)
    rep.correspondences.append({
        "name": "counts-lockstep", "cases": len(all_cases), "nontrivial": nontrivial, "disagreements": len(failing),
        "distribution": {"labels": hist, "profiles": list(profiles)},
        "rule": "random connection scenarios with small concurrency limits in both directions (0, 1, 2, 3, 5, unlimited, changed by SETTINGS "
                "mid-connection), opens, closes by END_STREAM / reset from either side / dropped handles / refused streams / GOAWAY / EOF; "
                "every call of a counts.rs function becomes a label; the model is stepped through them and compared with the ten counters "
                "and the is_counted flag observed at each call and with every can_inc_* result; non-trivial = at least two streams counted"})
    return all_scs, failing


def report_disagreements(rep, scs, failing):
    import re
    for i in failing[:3]:
        sc = scs[i]
        case, counts, nl = coq_case(sc)
        rc, out = common.coq_eval_raw("counts_diag", PREAMBLE + "Definition c := %s.\nEval vm_compute in (diag_counts c).\n" % case)
        m = re.search(r"= (\d+)%N", out)
        code = int(m.group(1)) if m else None
        cfg, labels, _ = labels_of_scenario(sc)
        k = (code // 10 - 1) if code else None
        rep.violation("broken-correspondence", {
            "correspondence": "Model/Counts.v check_counts vs /repo counts.rs events",
            "diag_code": code, "reason": {1: "pre-state differs", 2: "outputs differ", 3: "model Stuck", 4: "model Panic"}.get((code or 0) % 10, "?"),
            "first_diverging_label": labels[k] if k is not None and k < len(labels) else None,
            "labels_before": labels[max(0, (k or 0) - 5):(k or 0)],
            "scenario": {"cfg": sc["cfg"], "seed": sc.get("seed"), "i": sc.get("i"), "trace": [{"op": st["op"]} for st in sc["trace"]]}},
            no_input=True)


# ------------------------------------------------------------------------------------------------
# oracles on implementation behaviour

def snapshot_oracle(sc):
    """After every step: counters are consistent with the records (num_send = #counted local, num_recv = #counted remote),
    never above the limits in force when streams were admitted (recv: constant limit), and no fully closed record is
    still counted (every closed stream has given its slot back)."""
    client = sc["cfg"]["role"] == "client"
    for st in sc["trace"]:
        sn = st.get("snap")
        if not sn:
            continue
        c = sn["conn"]
        loc = rem = 0
        for s in sn["streams"]:
            local = (s["id"] % 2 == 1) == client
            if s["is_counted"]:
                if local:
                    loc += 1
                else:
                    rem += 1
            closed = s["state"].startswith("Closed") and s["pending_send_len"] == 0 and s["buffered_send_data"] == 0
            if closed and s["is_counted"] and "ScheduledLibraryReset" not in s["state"]:
                return {"step": st["i"], "why": "a closed and flushed stream still occupies a concurrency slot", "stream": s["id"], "state": s["state"]}
        if loc != c["num_send_streams"] or rem != c["num_recv_streams"]:
            return {"step": st["i"], "why": "counter differs from the number of counted records", "num_send": c["num_send_streams"],
                    "counted_local": loc, "num_recv": c["num_recv_streams"], "counted_remote": rem}
        if c["max_recv_streams"] >= 0 and c["num_recv_streams"] > c["max_recv_streams"]:
            return {"step": st["i"], "why": "more peer-initiated streams counted than advertised", "num_recv": c["num_recv_streams"], "max": c["max_recv_streams"]}
        # independent of the is_counted flag: the peer-initiated streams that are ACTIVE (opened by HEADERS, not reserved,
        # not closed) -- requests on a server, pushed responses on a client -- never exceed the advertised limit
        if c["max_recv_streams"] >= 0:
            active = [s["id"] for s in sn["streams"] if ((s["id"] % 2 == 1) == client) is False and s["id"] != 0
                      and not s["state"].startswith(("Closed", "Idle", "Reserved"))]
            if len(active) > c["max_recv_streams"]:
                return {"step": st["i"], "why": "more concurrently active peer-initiated streams than advertised", "active": active, "max": c["max_recv_streams"]}
    return None


def wire_oracle(sc):
    """Wire view.  Client side: at every opening HEADERS the endpoint writes, the number of its streams that are open from the
    PEER's point of view (opened by an earlier HEADERS; closed when both END_STREAMs are on the wire or an RST_STREAM went
    either way; peer frames count from the moment they were fed) is below the peer's MAX_CONCURRENT_STREAMS that the endpoint
    had acknowledged (or the configured initial_max_send_streams before the first SETTINGS).  Server side: a peer-opened stream that
    exceeds the advertised limit is answered with RST_STREAM(REFUSED_STREAM) and never reaches accept()."""
    cfg = sc["cfg"]
    client = cfg["role"] == "client"
    viol = None
    # --- locally initiated (send) direction
    acked_limit = cfg.get("initial_max_send_streams")
    if acked_limit is None:
        acked_limit = 100 if client else None   # client::Builder default DEFAULT_INITIAL_MAX_SEND_STREAMS
    fed_settings = []
    first = None
    for (i, v) in cfg.get("peer_settings", []):
        if i == 3:
            first = v
    fed_settings.append(("initial", first))
    acks = 0
    open_local = {}   # sid -> [ep_end, peer_end]
    ever_opened = set()
    accepted = set()
    refused = set()
    peer_open = {}
    adv = cfg.get("max_concurrent_streams")
    for st in sc["trace"]:
        op = st["op"]
        if op.get("op") == "peer" and isinstance(op.get("what"), dict):
            w = op["what"]
            t = w.get("t")
            if t == "SETTINGS" and not w.get("ack"):
                val = None
                for (i, v) in w.get("params", []):
                    if i == 3:
                        val = v
                fed_settings.append(("later", val))
            elif t == "RST_STREAM":
                open_local.pop(w["sid"], None)
                peer_open.pop(w["sid"], None)
            elif t in ("HEADERS", "DATA") and w.get("eos"):
                if w["sid"] in open_local:
                    open_local[w["sid"]][1] = True
                    if all(open_local[w["sid"]]):
                        open_local.pop(w["sid"])
                if w["sid"] in peer_open:
                    peer_open[w["sid"]][0] = True
                    if all(peer_open[w["sid"]]):
                        peer_open.pop(w["sid"])
        res = st["res"]
        if op.get("op") == "poll_accept" and isinstance(res, dict) and "sid" in res:
            accepted.add(res["sid"])
            if res["sid"] in refused and viol is None:
                viol = {"step": st["i"], "why": "a stream the endpoint refused with REFUSED_STREAM reached accept()", "sid": res["sid"], "limit": adv}
        # endpoint view: peer-initiated streams handed to the application and still active (not closed) never exceed the limit
        sn = st.get("snap")
        if sn and adv is not None and not client and viol is None:
            active = [s_["id"] for s_ in sn["streams"] if s_["id"] in accepted and s_["linked"] and not s_["state"].startswith("Closed")]
            if len(active) > adv:
                viol = {"step": st["i"], "why": "more concurrently active peer-initiated streams surfaced to the application than advertised",
                        "active": active, "limit": adv}
        for f in st["out"]:
            t = f["t"]
            sid = f.get("sid", 0)
            if t == "SETTINGS" and f.get("ack"):
                if acks < len(fed_settings):
                    kind, v = fed_settings[acks]
                    if v is not None:
                        acked_limit = v
                    elif kind == "initial":
                        acked_limit = None       # first SETTINGS without the parameter: unlimited
                acks += 1
            elif t == "HEADERS":
                local = (sid % 2 == 1) == client
                if local and sid not in ever_opened and client:
                    ever_opened.add(sid)
                    if acked_limit is not None and len(open_local) >= acked_limit and viol is None:
                        viol = {"step": st["i"], "why": "opened a stream while the peer's acknowledged MAX_CONCURRENT_STREAMS was already reached",
                                "sid": sid, "open": sorted(open_local), "limit": acked_limit}
                    open_local[sid] = [bool(f.get("eos")), False]
                elif sid in open_local and f.get("eos"):
                    open_local[sid][0] = True
                    if all(open_local[sid]):
                        open_local.pop(sid)
                elif sid in peer_open and f.get("eos"):
                    peer_open[sid][1] = True
                    if all(peer_open[sid]):
                        peer_open.pop(sid)
            elif t == "DATA" and f.get("eos"):
                for d in (open_local, peer_open):
                    if sid in d:
                        d[sid][0 if d is open_local else 1] = True
                        if all(d[sid]):
                            d.pop(sid)
            elif t == "RST_STREAM":
                open_local.pop(sid, None)
                peer_open.pop(sid, None)
                if f.get("code") == 7:
                    refused.add(sid)
    return viol


def oracle_counts(rep, scs):
    n_viol = 0
    nontriv = 0
    for sc in scs:
        v = snapshot_oracle(sc) or wire_oracle(sc)
        if any(e[0] in ("counts.inc_send", "counts.inc_recv") for st in sc["trace"] for e in st["ev"]):
            nontriv += 1
        if v:
            n_viol += 1
            if n_viol <= 3:
                rep.violation("failing-input", {"oracle": "concurrency limits / slot recycling on wire frames and statistics snapshots", "violation": v,
                                                "scenario": {"cfg": sc["cfg"], "seed": sc.get("seed"), "i": sc.get("i"),
                                                             "trace": [{"op": st["op"]} for st in sc["trace"]]}})
    rep.oracle_runs.append({"name": "concurrency-oracle", "cases": len(scs), "nontrivial": nontriv, "failures": n_viol})
    return n_viol


if __name__ == "__main__":
    rep = common.Report("C05", "quick", 1)
    scs, failing = correspond_counts(rep, "quick", int(sys.argv[1]) if len(sys.argv) > 1 else 1)
    print("cases", rep.correspondences[-1]["cases"], "failing", failing[:20], rep.correspondences[-1]["distribution"]["labels"])
    print("oracle violations", oracle_counts(rep, scs))
    if failing:
        report_disagreements(rep, scs, failing)
    for p, _ in rep.violations[:3]:
        d = json.load(open(p))
        print({k: v for k, v in d.items() if k not in ("scenario",)})
