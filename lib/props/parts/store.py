"""Stream-record life cycle (store.rs / stream.rs / streams.rs ref counting / Counts::transition_after / idle close):
trace projection -> labels of coq/Model/Store.v, lock-step, and the hook-independent snapshot / wire oracles of C19."""
import json
import os
import re
import sys

sys.path.insert(0, os.path.dirname(os.path.dirname(os.path.dirname(os.path.abspath(__file__)))))
import common  # noqa: E402
from props.parts import sendflow  # noqa: E402

B = common.coq_bool


def Z(v):
    return "(%d)%%Z" % int(v)


def optz(v):
    return "(@None Z)" if v < 0 else "(Some %d%%Z)" % v


QNAME = {1: "KSend", 2: "KCap", 3: "KAccept", 4: "KWu", 5: "KOpen", 6: "KReset"}
QBIT = {1: 0, 2: 1, 3: 2, 4: 3, 5: 4, 6: 5}

COUNT_Q = {"counts.can_inc_send": ("QSend", 1, 0), "counts.can_inc_recv": ("QRecv", 3, 2), "counts.can_inc_reset": ("QLReset", 5, 4),
           "counts.can_inc_remote_reset": ("QRReset", 7, 6), "counts.can_inc_local_error": ("QLErr", 9, 8)}
COUNT_SKIP = {"counts.inc_send": "counts.can_inc_send", "counts.inc_recv": "counts.can_inc_recv",
              "counts.inc_reset": "counts.can_inc_reset", "counts.inc_remote_reset": "counts.can_inc_remote_reset",
              "counts.inc_local_error": "counts.can_inc_local_error"}


def key(idx, sid):
    return "(%d, %d)" % (idx, sid)


def se(rec=None, refs=None, sizes=None, linked=None, counts=None, outs=None):
    """rec = (idx, id, serial, ref, mask)"""
    r = "None" if rec is None else "(Some (%s, (%d, %d, %d)))" % (key(rec[0], rec[1]), rec[2], rec[3], rec[4])
    rf = "None" if refs is None else "(Some %d)" % refs
    sz = "None" if sizes is None else "(Some (%d, %d))" % sizes
    ln = "None" if linked is None else "(Some (%d, %s))" % (linked[0], "None" if linked[1] < 0 else "(Some %d)" % linked[1])
    ct = "None" if counts is None else "(Some %s)" % counts
    ou = "None" if outs is None else "(Some [%s])" % "; ".join(outs)
    return "(mkSE %s %s %s %s %s %s)" % (r, rf, sz, ln, ct, ou)


def ce(c, counted=None):
    return "(mkCE (Some (%s)) %s None)" % (", ".join(Z(x) for x in c), counted or "None")


def life(a):
    """life vector -> (idx, id, serial, ref, mask)"""
    return (a[2], a[1], a[0], a[3], a[4])


def labels_of_scenario(sc, with_quiesce=True):
    labels, hist = [], {}
    client = sc["cfg"]["role"] == "client"
    parent_of = {}          # child serial -> parent serial (pending_push_promises membership)

    def add(lbl, e):
        labels.append("(%s, %s)" % (lbl, e))
        k = lbl.split()[0]
        if k == "LCounts":
            k = "LCounts"
        hist[k] = hist.get(k, 0) + 1

    for st in sc["trace"]:
        if isinstance(st.get("res"), dict) and "panic" in st["res"]:
            break                       # the model does not follow an unwinding library
        evs = st.get("ev", [])
        n0 = len(labels)
        i = 0
        skip_query = None
        pending_ppp = None
        while i < len(evs):
            e = evs[i]
            nm, d, a = e[0], e[1], e[2:]
            i += 1
            if skip_query is not None:
                sq, skip_query = skip_query, None
                if nm == sq:
                    continue
            if nm == "counts.transition_rec":
                lf = life(a)
                if i >= len(evs) or evs[i][0] != "counts.transition_after":
                    add("LQuiesce", se(outs=["ONone"]))      # malformed: forces a disagreement
                    continue
                b = evs[i][2:]
                d2 = evs[i][1]
                i += 1
                unl = rem = False
                while i < len(evs) and evs[i][1] > d2:
                    if evs[i][0] == "store.unlink":
                        unl = True
                    elif evs[i][0] == "store.remove_at":
                        rem = True
                    i += 1
                o = "(mkSO %s %s %s %s)" % (B(b[3]), B(b[5]), B(b[6]), B(b[8]))
                add("LTransitionAfter %s %s" % (key(lf[0], lf[1]), o),
                    se(rec=lf, counts=ce(b[10:20], "(Some (%d%%N, %s))" % (b[0], B(b[2]))), outs=["OBool %s" % B(unl), "OBool %s" % B(rem)]))
            elif nm == "counts.transition_after":
                add("LQuiesce", se(outs=["ONone"]))          # a transition_after without its companion event
            elif nm.startswith("counts."):
                skip_query = COUNT_SKIP.get(nm)
                if nm in COUNT_Q:
                    lbl, ni, mi = COUNT_Q[nm]
                    c = a[0:10]
                    res = (c[mi] < 0) or (c[ni] < c[mi])
                    add("LCounts %s" % lbl, se(counts=ce(c), outs=["OCounts (CBool %s)" % B(res)]))
                elif nm in ("counts.inc_send", "counts.inc_recv"):
                    c = a[3:13]
                    add("LCounts (%s %d%%N)" % ("IncSend" if nm.endswith("send") else "IncRecv", a[0]),
                        se(counts=ce(c, "(Some (%d%%N, %s))" % (a[0], B(a[2]))), outs=[]))
                elif nm in ("counts.inc_reset", "counts.inc_remote_reset", "counts.dec_remote_reset", "counts.inc_local_error"):
                    lbl = {"counts.inc_reset": "IncLReset", "counts.inc_remote_reset": "IncRReset", "counts.dec_remote_reset": "DecRReset",
                           "counts.inc_local_error": "IncLErr"}[nm]
                    add("LCounts %s" % lbl, se(counts=ce(a[0:10]), outs=[]))
                elif nm == "counts.apply_remote_settings":
                    add("LCounts (CSettings %s %s)" % (optz(a[0]), B(a[1])), se(counts=ce(a[2:12]), outs=[]))
            elif nm == "store.inserted":
                add("LInsert %d %d %d" % (a[2], a[0], a[1]), se(outs=[]))
            elif nm == "store.unlink":
                lf = life(a)
                add("LUnlink %d" % lf[1], se(rec=lf, linked=(lf[1], a[6] if a[5] else -1), outs=[]))
            elif nm == "store.remove_at":
                lf = life(a)
                add("LRemove %s" % key(lf[0], lf[1]), se(rec=lf, outs=[]))
            elif nm == "streams.ppp_push":
                pending_ppp = a[0]
            elif nm in ("queue.push", "queue.push_front"):
                qc = a[0]
                lf = life(a[1:])
                q = QNAME.get(qc, "KSend")
                if qc == 3 and pending_ppp is not None:
                    q = "(KPpp %d)" % pending_ppp
                    if not (lf[4] >> 2) & 1:
                        parent_of[lf[2]] = pending_ppp
                    pending_ppp = None
                already = (lf[4] >> QBIT.get(qc, 0)) & 1
                add("%s %s %s" % ("LPush" if nm == "queue.push" else "LPushFront", q, key(lf[0], lf[1])),
                    se(rec=lf, outs=["OBool %s" % B(not already)]))
            elif nm == "queue.pop":
                qc = a[0]
                lf = life(a[1:])
                q = QNAME.get(qc, "KSend")
                if qc == 3 and client and lf[2] in parent_of:
                    q = "(KPpp %d)" % parent_of.pop(lf[2])
                add("LPop %s" % q, se(rec=lf, outs=["OKey %s" % key(lf[0], lf[1])]))
            elif nm == "streams.ref_new":
                lf = life(a)
                add("LHNew %s" % key(lf[0], lf[1]), se(rec=lf, outs=[]))
            elif nm == "streams.ref_clone":
                lf = life(a)
                add("LHClone %s %d" % (key(lf[0], lf[1]), lf[2]), se(rec=lf, refs=a[5], outs=[]))
            elif nm == "streams.ref_drop":
                lf = life(a)
                wake = i < len(evs) and evs[i][0] == "streams.wake_conn"
                if wake:
                    i += 1
                add("LHDrop %s %d %s" % (key(lf[0], lf[1]), lf[2], B(a[6])), se(rec=lf, refs=a[5] + 1, outs=["OWakeConn"] if wake else []))
            elif nm == "streams.ref_drop_end":
                wake = i < len(evs) and evs[i][0] == "streams.wake_conn"
                if wake:
                    i += 1
                add("LHDropEnd", se(refs=a[0], outs=["OWakeConn"] if wake else []))
            elif nm == "streams.clone":
                add("LSClone", se(refs=a[0], outs=[]))
            elif nm == "streams.drop":
                wake = i < len(evs) and evs[i][0] == "streams.wake_conn"
                if wake:
                    i += 1
                add("LSDrop", se(refs=a[0], outs=["OWakeConn"] if wake else []))
            elif nm == "streams.has_refs":
                prev = evs[i - 2][0] if i >= 2 else ""
                if prev == "conn.maybe_close_enter":
                    closes = i < len(evs) and evs[i][0] == "conn.maybe_close"
                    add("LMaybeClose", se(refs=a[1], outs=["OGoAwayNow"] if closes else []))
                else:
                    add("LQueryRefs", se(refs=a[1], outs=["OBool %s" % B(a[0] or a[1] > 1)]))
        if with_quiesce and len(labels) > n0:
            sn = st.get("snap")
            if sn:
                c = sn["conn"]
                add("LQuiesce", se(refs=c["refs"], sizes=(c["store_ids"], c["store_slab"]), outs=[]))
            else:
                add("LQuiesce", se(outs=[]))
    sn0 = sc["trace"][0].get("snap") if sc["trace"] else None
    if not sn0:
        return None, labels, hist
    c = sn0["conn"]
    cfg = "(%s, %s, %s, %s, %s)" % (optz(c["max_send_streams"]), optz(c["max_recv_streams"]), Z(c["max_local_reset_streams"]),
                                    Z(c["max_remote_reset_streams"]), optz(c["max_local_error_reset_streams"]))
    return cfg, labels, hist


def coq_case(sc):
    cfg, labels, hist = labels_of_scenario(sc)
    if cfg is None:
        return None, hist, 0
    return "(%s, [%s])" % (cfg, ";\n    ".join(labels)), hist, len(labels)


PREAMBLE = "From H2V Require Import Base.Tac Base.Bytes Model.Counts Model.Store.\nLocal Open Scope N_scope.\n"

PROFILES = ("mixed", "reset", "recv", "limits", "queue", "shutdown", "legal", "idle", "pushidle")


def correspond_store(rep, tier, seed, profiles=PROFILES, extra=()):
    per = 36 if tier == "quick" else 600
    steps = 100 if tier == "quick" else 150
    all_cases, all_scs, hist = [], [], {}
    scs_in = list(extra)
    for pi, prof in enumerate(profiles):
        scs, _ = sendflow.gen_scenarios(seed * 4409 + pi, per, steps, prof)
        scs_in.extend(scs)
    for sc in scs_in:
        case, h, nl = coq_case(sc)
        if not case or nl == 0:
            continue
        all_cases.append(case)
        all_scs.append(sc)
        for k, v in h.items():
            hist[k] = hist.get(k, 0) + v
    failing, err = common.coq_eval_failing("store", PREAMBLE, "check_store", all_cases, shard=10)
    if err:
        rep.violation("broken-correspondence", {"what": "coqc failed on generated store cases", "log": err[-3000:]}, no_input=True)
    nontrivial = sum(1 for sc in all_scs if sum(1 for st in sc["trace"] for e in st["ev"] if e[0] == "store.remove_at") >= 2)
    rep.correspondences.append({
        "name": "store-lockstep", "cases": len(all_cases), "nontrivial": nontrivial, "disagreements": len(failing),
        "distribution": {"labels": hist, "profiles": list(profiles)},
        "rule": "random connection scenarios (client and server; streams ending cleanly, by reset from either side, refused, by GOAWAY / EOF; "
                "handles dropped in every order relative to connection progress; request-handle clones; pushed streams); every hooked "
                "store / queue / ref-count / refs / transition_after / counts call becomes a label of Model/Store.v; the model is stepped "
                "through them and compared with the observed pre-state of the record (serial, ref_count, six queue flags), Inner.refs, "
                "the ten counters, the ids / slab sizes of the snapshot at the end of every step, and every observed output (popped key, "
                "unlinked / removed, push accepted, wake-up of the connection task, go_away_now decision); non-trivial = at least two "
                "records removed"})
    return all_scs, failing


REASON = {1: "pre-state differs", 2: "outputs differ", 3: "model Stuck", 4: "model Panic"}


def diag(sc):
    case, _, _ = coq_case(sc)
    rc, out = common.coq_eval_raw("store_diag", PREAMBLE + "Definition c := %s.\nEval vm_compute in (diag_store c).\n" % case)
    m = re.search(r"= (\d+)%N", out) or re.search(r"= (\d+)\s", out)
    code = int(m.group(1)) if m else None
    return code, out


def split_known(scs, failing):
    """Lock-step failures that are the model rejecting the known class KF-C19-3 (Stuck 9 at the Quiesce guard in a scenario in which
    the snapshot oracle identified exactly that class) are expected; everything else stays a disagreement."""
    rest, known = [], []
    for i in failing:
        _, k3 = snapshot_oracle(scs[i])
        if k3:
            code, _ = diag(scs[i])
            if code is not None and code % 100 == 3 and code // 1000000 == 9:
                known.append(i)
                continue
        rest.append(i)
    return rest, known


def report_disagreements(rep, scs, failing, kind="broken-correspondence"):
    for i in failing[:3]:
        sc = scs[i]
        code, out = diag(sc)
        _, labels, _ = labels_of_scenario(sc)
        k = ((code % 1000000) // 100 - 1) if code else None
        rep.violation(kind, {
            "correspondence": "Model/Store.v check_store vs /repo store.rs / streams.rs / counts.rs events",
            "diag_code": code, "reason": REASON.get((code or 0) % 100, "?"), "stuck_or_panic_code": (code or 0) // 1000000,
            "first_diverging_label": labels[k] if k is not None and k < len(labels) else None,
            "labels_before": labels[max(0, (k or 0) - 6):(k or 0)],
            "scenario": {"cfg": sc["cfg"], "seed": sc.get("seed"), "i": sc.get("i"), "profile": sc.get("profile"),
                         "trace": [{"op": st["op"]} for st in sc["trace"]]}},
            no_input=True)


if __name__ == "__main__":
    rep = common.Report("C19", "quick", 1)
    seed = int(sys.argv[1]) if len(sys.argv) > 1 else 1
    profs = tuple(sys.argv[2].split(",")) if len(sys.argv) > 2 else PROFILES
    scs, failing = correspond_store(rep, "quick", seed, profiles=profs)
    for pth, _ in rep.violations[:2]:
        print("VIOLATION", json.load(open(pth)).get("log", "")[-1500:])
    print("cases", rep.correspondences[-1]["cases"], "nontrivial", rep.correspondences[-1]["nontrivial"], "failing", failing[:20])
    print(rep.correspondences[-1]["distribution"]["labels"])
    for i in failing[:4]:
        code, out = diag(scs[i])
        _, labels, _ = labels_of_scenario(scs[i])
        k = ((code % 1000000) // 100 - 1) if code else 0
        print("case", i, "seed", scs[i].get("seed"), "i", scs[i].get("i"), scs[i].get("profile"), scs[i]["cfg"]["role"], "code", code,
              REASON.get((code or 0) % 100), (code or 0) // 1000000)
        for l in labels[max(0, k - 8):k + 1]:
            print("   ", l)


# ------------------------------------------------------------------------------------------------
# oracles on implementation behaviour (hook-independent: statistics snapshots, op results, wire frames)

def rec_closed(s):
    return s["state"].startswith("Closed") and s["pending_send_len"] == 0 and s["buffered_send_data"] == 0


def rec_reasons(s):
    r = []
    if not rec_closed(s):
        r.append("not-closed")
    if s["ref_count"] > 0:
        r.append("handle")
    for k in ("is_pending_send", "is_pending_send_capacity", "is_pending_accept", "is_pending_window_update", "is_pending_open"):
        if s[k]:
            r.append(k)
    if s["is_pending_reset_expiration"]:
        r.append("reset-expiry")
    return r


def objects_alive(sc):
    """Per step: number of live `Streams` objects the harness holds (the connection object + request-handle clones), from the ops."""
    client = sc["cfg"]["role"] == "client"
    conn = True
    sr = {0} if client else set()
    nsr = 1
    out = []
    for st in sc["trace"]:
        op, res = st["op"], st["res"]
        nm = op.get("op")
        if nm == "clone_sr" and isinstance(res, int):
            sr.add(res)
        elif nm == "drop_sr" and res == "dropped":
            sr.discard(op.get("sr", 0))
        elif nm == "drop_conn":
            conn = False
        elif nm == "conn_poll" and isinstance(res, str) and res != "Pending" and res != "no-handle":
            conn = False
        elif nm == "poll_accept" and isinstance(res, str) and res not in ("Pending", "no-handle"):
            conn = False
        out.append((conn, len(sr)))
    return out




KF3 = ("KF-C19-3 evicted-from-pending-capacity-without-release: a closed unreferenced record popped from pending_capacity by "
       "assign_connection_capacity is never removed")


def snapshot_oracle(sc):
    """O1: after every step every record in the slab has a reason to be there (not closed, a handle, a queue, reset expiry).
    O2: Inner.refs = live Streams objects + sum of the records' ref_count.  O3: no `dangling store key` panic.
    Returns (violation | None, known-finding text | None).  Known class KF-C19-3: the leaked record's ONLY reason in the previous
    snapshot was is_pending_send_capacity (Prioritize::assign_connection_capacity evicts it without transition_after)."""
    alive = objects_alive(sc)
    known = None
    leaked = set()
    prev = None
    for j, st in enumerate(sc["trace"]):
        res = st["res"]
        if isinstance(res, dict) and "panic" in res:
            if "dangling store key" in str(res["panic"]):
                return {"step": st["i"], "why": "stream storage reached through a stale key (panic)", "panic": res["panic"]}, known
            return None, known      # other panics: not this property's oracle; the snapshot is unreliable afterwards
        sn = st.get("snap")
        if not sn:
            continue
        c = sn["conn"]
        tot = 0
        for s in sn["streams"]:
            tot += s["ref_count"]
            if not rec_reasons(s) and s["serial"] not in leaked:
                before = next((x for x in (prev["streams"] if prev else []) if x["serial"] == s["serial"]), None)
                if before is not None and rec_reasons(before) == ["is_pending_send_capacity"]:
                    leaked.add(s["serial"])
                    known = KF3
                    continue
                return {"step": st["i"], "why": "a closed record without handle, queue membership or reset expiry is still stored (leak)",
                        "stream": s["id"], "state": s["state"], "linked": s["linked"],
                        "reasons_before": rec_reasons(before) if before else None}, known
        conn, nsr = alive[j]
        if c["refs"] != tot + nsr + (1 if conn else 0):
            return {"step": st["i"], "why": "Inner.refs differs from live Streams objects + handles", "refs": c["refs"], "handles": tot,
                    "request_handles": nsr, "connection_alive": conn}, known
        if c["store_ids"] > c["store_slab"]:
            return {"step": st["i"], "why": "more ids than records", "ids": c["store_ids"], "slab": c["store_slab"]}, known
        prev = sn
    return None, known


KF4 = ("KF-C19-4 closed-while-pending-open-is-kept: a stream closed (reset) while queued in pending_open stays stored until a "
       "concurrency slot frees")


def teardown_marks(sc):
    b = d = k = None
    for j, st in enumerate(sc["trace"]):
        if st["op"].get("op") == "teardown":
            ph = st["op"].get("phase")
            if ph == "begin":
                b = j
            elif ph == "dropped":
                d = j
            elif ph == "kick":
                k = j
    return b, d, k


def conn_result(sc, upto=None):
    r = None
    for st in sc["trace"][:upto]:
        op, res = st["op"], st["res"]
        if op.get("op") in ("conn_poll", "poll_accept") and isinstance(res, str) and res not in ("Pending", "no-handle"):
            if r is None:
                r = res
        if op.get("op") == "drop_conn" and r is None:
            r = "dropped"
    return r


def local_reset_unflushed(s):
    return s["state"].startswith("Closed(Error(Reset(") and ("Library" in s["state"] or "User" in s["state"]) and not rec_closed(s)


def reset_counter_leak(sc):
    """First step at which num_local_reset_streams exceeds the number of records awaiting reset expiry by more than before.
    Returns (step index, is_known_class).  Known class KF-C19-1: a locally reset record left the expiry queue while its RST_STREAM
    was still queued (record not closed): on the snapshots, a record in state Closed(Error(Reset(_, _, User|Library))) that does not
    await expiry is present (or was present, unflushed and expiring, in the previous snapshot); when hook events are recorded the
    exact mechanism is required as well: a transition_after with is_reset_counted, not pending expiry, and is_closed() false."""
    surplus = 0
    prev = None
    for j, st in enumerate(sc["trace"]):
        sn = st.get("snap")
        if not sn:
            continue
        n = sn["conn"]["num_local_reset_streams"] - sum(1 for s in sn["streams"] if s["is_pending_reset_expiration"])
        if n > surplus:
            def local_reset(s):
                return s["state"].startswith("Closed(Error(Reset(") and ("Library" in s["state"] or "User" in s["state"])
            known = any(local_reset(s) and not s["is_pending_reset_expiration"] for s in sn["streams"])
            if not known and prev is not None:
                known = any(local_reset(s) and s["is_pending_reset_expiration"] and not rec_closed(s) for s in prev["streams"])
            evs = st.get("ev", [])
            if evs:
                # the record may be created, expired, flushed and removed within one step (no snapshot shows it)
                known = any(e[0] == "counts.transition_after" and e[7] == 1 and e[6] == 0 and e[5] == 0 for e in evs)
            return j, known
        surplus = max(surplus, n)
        prev = sn
    return None, False


def last_ref_drop_step(sc, upto):
    """Index of the last step before `upto` at which Inner.refs fell to 1, and whether the connection task was woken there."""
    prev = None
    hit = None
    for j, st in enumerate(sc["trace"][:upto]):
        sn = st.get("snap")
        if not sn:
            continue
        r = sn["conn"]["refs"]
        if prev is not None and prev > 1 and r == 1:
            hit = (j, 1 in st.get("wakes", []), sn["conn"].get("conn_task"))
        prev = r
    return hit


def quiescence_oracle(sc):
    """Profile idle: after every handle was dropped and the connection settled.
    Server (connection kept): the store holds only records awaiting reset expiry (at most max_local_reset_streams), records never
    accepted by the application, or records that still have frames to send; the counters are back to idle values.
    Client: the connection wrote GOAWAY(NO_ERROR), shut the transport down and returned Ok - without being polled unasked.
    Returns (violation | None, known-finding text | None, status)."""
    b, d, k = teardown_marks(sc)
    if d is None or k is None:
        return None, None, "no-teardown"
    client = sc["cfg"]["role"] == "client"
    before = conn_result(sc, b)
    at_kick = conn_result(sc, k)
    final = conn_result(sc)
    last = sc["trace"][-1]
    if any(isinstance(st["res"], dict) and "panic" in st["res"] for st in sc["trace"]):
        return None, None, "panicked"
    leak_step, _mech = reset_counter_leak(sc)
    known = None
    if leak_step is not None:
        # repaired by 304fa07 (expiry before the RST_STREAM was flushed); any recurrence is a violation
        return {"why": "num_local_reset_streams exceeds the number of records awaiting reset expiry (counter leak)",
                "step": sc["trace"][leak_step]["i"], "expiry_of_unflushed_reset_seen": _mech}, None, "checked"
    if client:
        if before is not None and before != "Ready(Ok)":
            return None, known, "failed-before-teardown"
        goaways = [f for st in sc["trace"] for f in st["out"] if f["t"] == "GOAWAY"]
        if final is not None and final != "Ready(Ok)":
            return None, known, "failed-during-teardown"      # a connection error: not the idle-close claim
        if final is None:
            sn = last.get("snap")
            if sn and any(s["is_counted"] and not rec_closed(s) and
                          (s["ref_count"] > 0 or s["is_pending_send"] or s["is_pending_send_capacity"] or s["is_pending_open"]
                           or s["pending_send_len"] > 0 or s["buffered_send_data"] > 0) for s in sn["streams"]):
                # a stream that still has frames to send (blocked by the peer's flow control) is not gone yet; an open stream
                # WITHOUT any handle and with nothing to send is not such a reason (dropping the last handle cancels a stream)
                return None, known, "streams-still-active"
            return {"why": "all request handles and streams are gone but the client connection never completed", "result": final,
                    "goaways": goaways[-2:]}, known, "checked"
        if not goaways or goaways[-1].get("code") != 0:
            return {"why": "idle client connection completed without GOAWAY(NO_ERROR)", "goaways": goaways[-2:]}, known, "checked"
        if not last["io"]["shutdown"]:
            return {"why": "idle client connection completed without shutting the transport down"}, known, "checked"
        if at_kick is None:
            # completed only because of the unsolicited poll: a lost wake-up (the case "last handle of an unclosed stream dropped"
            # was repaired by 6b1d165)
            hit = last_ref_drop_step(sc, k)
            return {"why": "the idle client connection completed only after an unsolicited poll (lost wake-up of the connection task)",
                    "refs_fell_to_1_at": sc["trace"][hit[0]]["i"] if hit else None, "woken_there": hit[1] if hit else None}, known, "checked"
        return None, known, "checked"
    if final is not None:
        return None, known, "server-ended"
    sn = last.get("snap")
    if not sn:
        return None, known, "no-snapshot"
    c = sn["conn"]
    if c.get("conn_error"):
        return None, known, "server-failed"
    expiring = [s for s in sn["streams"] if s["is_pending_reset_expiration"]]
    unaccepted = [s for s in sn["streams"] if s["is_pending_accept"]]
    other = [s for s in sn["streams"] if rec_closed(s) and not s["is_pending_reset_expiration"] and not s["is_pending_accept"]]
    waiting_open = [s for s in other if rec_reasons(s) == ["is_pending_open"]]
    if waiting_open and len(waiting_open) == len(other):
        known = KF4          # kept only by its membership of pending_open: released when a concurrency slot frees, never otherwise
        other = []
    if other:
        s = other[0]
        return {"why": "all handles dropped and the connection is quiescent, but a closed record that neither awaits reset expiry nor "
                       "acceptance is still stored", "stream": s["id"], "state": s["state"], "reasons": rec_reasons(s), "ref_count": s["ref_count"]}, known, "checked"
    if len(expiring) > max(c["max_local_reset_streams"], 0):
        return {"why": "more records await reset expiry than max_local_reset_streams", "n": len(expiring), "max": c["max_local_reset_streams"]}, known, "checked"
    if leak_step is None and c["num_local_reset_streams"] != len(expiring):
        return {"why": "num_local_reset_streams differs from the records awaiting expiry", "num": c["num_local_reset_streams"], "records": len(expiring)}, known, "checked"
    live_local = sum(1 for s in sn["streams"] if s["is_counted"] and (s["id"] % 2 == 0))
    live_remote = sum(1 for s in sn["streams"] if s["is_counted"] and (s["id"] % 2 == 1))
    if c["num_send_streams"] != live_local or c["num_recv_streams"] != live_remote:
        return {"why": "concurrency counters differ from the counted records at quiescence", "num_send": c["num_send_streams"], "num_recv": c["num_recv_streams"],
                "counted_local": live_local, "counted_remote": live_remote}, known, "checked"
    if any(s["is_counted"] and rec_closed(s) for s in sn["streams"]):
        return {"why": "a closed record still occupies a concurrency slot at quiescence"}, known, "checked"
    return None, known, "checked"


def idle_exact_oracle(sc):
    """Client, any profile: a spontaneous GOAWAY(NO_ERROR) (no error, no peer GOAWAY, no user shutdown) is written only when no
    request handle and no stream handle is alive (checked on the snapshot preceding the poll that wrote it)."""
    if sc["cfg"]["role"] != "client":
        return None
    alive = objects_alive(sc)
    prev = None
    for j, st in enumerate(sc["trace"]):
        closes = any(e[0] == "conn.maybe_close" for e in st.get("ev", []))   # the decision point is named by the hook; the facts are not
        if closes and prev is not None:
            c = prev["conn"]
            nsr = alive[j - 1][1] if j > 0 else 1
            handles = sum(s["ref_count"] for s in prev["streams"])
            if nsr > 0 or handles > 0 or c["num_send_streams"] or c["num_recv_streams"]:
                return {"step": st["i"], "why": "the client connection started its idle close while a request handle, stream handle or active stream existed",
                        "request_handles": nsr, "stream_handles": handles, "num_send": c["num_send_streams"], "num_recv": c["num_recv_streams"]}
        if st.get("snap"):
            prev = st["snap"]
    return None


def oracle_store(rep, scs):
    n_viol = 0
    stats = {"checked": 0}
    nontriv = 0
    for sc in scs:
        v, k3 = snapshot_oracle(sc)
        if k3:
            rep.known(k3)
            stats["known"] = stats.get("known", 0) + 1
        v = v or idle_exact_oracle(sc)
        qv, known, why = quiescence_oracle(sc)
        if k3 and qv and "closed record" in qv.get("why", ""):
            qv = None          # the same leaked record seen again at quiescence
        stats[why] = stats.get(why, 0) + 1
        if known:
            rep.known(known)
            stats["known"] = stats.get("known", 0) + 1
        v = v or qv
        if why == "checked":
            nontriv += 1
        if v:
            n_viol += 1
            if n_viol <= 3:
                rep.violation("failing-input", {"oracle": "record life cycle on statistics snapshots / idle close on wire and connection result", "violation": v,
                                                "scenario": {"cfg": sc["cfg"], "seed": sc.get("seed"), "i": sc.get("i"), "profile": sc.get("profile"),
                                                             "trace": [{"op": st["op"]} for st in sc["trace"]]}})
    rep.oracle_runs.append({"name": "store-oracle", "cases": len(scs), "nontrivial": nontriv, "failures": n_viol, "quiescence": stats})
    return n_viol
