"""Template of a correspondence part (copy, rename, fill in).

The Coq side: a Model file exports  `check_<area> : <case type> -> bool`  which recomputes the
model's answer for the case's input and compares it with the implementation's recorded answer.
"""
import json
import common


def correspond_template(rep, tier, seed):
    n = 400 if tier == "quick" else 20000
    rc, out = common.run_harness("smoke", ["--seed", seed, "--n", n])   # one JSON object per line
    cases, coq_terms, summary = [], [], {}
    for line in out.splitlines():
        line = line.strip()
        if not line.startswith("{"):
            continue
        o = json.loads(line)
        if "summary" in o:
            summary = o["summary"]; continue
        cases.append(o)
        # render the case as a Coq term of the case type, e.g. (input bytes, Some output bytes)
        coq_terms.append("(%s, %s)" % (common.coq_N_list(o["input"]),
                                       common.coq_opt(o.get("ok"), common.coq_N_list)))
    failing, err = common.coq_eval_failing(
        "template", "From H2V Require Import Base.Bytes Model.Template.\nLocal Open Scope N_scope.",
        "check_template", coq_terms)
    if err:
        rep.violation("broken-correspondence", {"what": "coqc failed on generated cases", "log": err[-3000:]}, no_input=True)
    nontrivial = len({json.dumps(c["input"]) for c in cases if c.get("ok") is not None})
    rep.correspondences.append({"name": "template", "cases": len(cases), "nontrivial": nontrivial,
                                "disagreements": len(failing), "distribution": summary,
                                "rule": "how cases are generated; a case is non-trivial when ..."})
    rep.samples.extend(cases[:3])
    for i in failing[:5]:
        c = cases[i]
        # decide with the oracle whether the implementation violates the property here
        rep.violation("broken-correspondence", {"case": c, "what": "model and implementation disagree"}, no_input=True)
