"""Message data path (C01): end-to-end fidelity oracle on TWO real endpoints (harness bin `pair`),
lock-step of the content-level Coq model Model/DataPath.v against hook events of single-endpoint
traces (harness bin `conn`), and the hook-independent wire/API oracle on those traces.
"""
import json
import os
import sys

sys.path.insert(0, os.path.dirname(os.path.dirname(os.path.dirname(os.path.abspath(__file__)))))
import common  # noqa: E402
from props.parts import sendflow  # noqa: E402

CORPUS = os.path.join(common.VERIF, "corpus", "pair")
STEPS = 30000
THEOREMS = ["C01_send_split_preserves", "C01_wire_roundtrip", "C01_delivery_exactly_once", "C01_clean_end"]

# ------------------------------------------------------------------------------------------------
# pair: two real endpoints


def run_pair(seed, n, steps=STEPS, first=0, events=False):
    args = ["--seed", seed, "--n", n, "--first", first, "--steps", steps]
    if events:
        args += ["--events", 1]
    rc, out = common.run_harness("pair", args, timeout=900)
    cases, summary = [], {}
    for line in out.splitlines():
        line = line.strip()
        if not line.startswith("{"):
            continue
        o = json.loads(line)
        if "summary" in o:
            summary = o["summary"]
        else:
            cases.append(o)
    return cases, summary


def replay_pair(desc):
    cases, _ = run_pair(desc["seed"], 1, desc.get("steps", 30000), first=desc["i"])
    return cases[0] if cases else None


def _wire_of(case, direction, sid):
    for d in case.get("wire", {}).get(direction, {}).get("data", []):
        if d["sid"] == sid:
            return d
    return None


def pair_oracle(case):
    """C01 on the implementation: returns a list of violation dicts for one pair case."""
    v = []
    if "panic" in case:
        return [{"why": "a panic escaped the library", "panic": case["panic"]}]
    if "setup_error" in case:
        return []
    msgs = case.get("msgs", [])
    rst = set(case["wire"]["c2s"].get("rst", [])) | set(case["wire"]["s2c"].get("rst", []))
    app_reset = {m["sid"] for m in msgs if (m.get("sub") or {}).get("err") == "reset"}
    conn_bad = any(x not in (None, "ok") for x in case.get("conn", {}).values())

    def bad(m, why, **kw):
        d = {"why": why, "kind": m["kind"], "sid": m.get("sid"), "sub": m.get("sub"), "got": m.get("got")}
        d.update(kw)
        v.append(d)

    # two endpoints of the same crate must agree on the wire format: a library connection error of the classes
    # "you sent me garbage" means octets/frames were corrupted, lost or duplicated on the (lossless) path
    for side, r in case.get("conn", {}).items():
        if isinstance(r, str) and r.startswith("E(goaway,") and r.endswith(",library)"):
            code = r.split(",")[1]
            if code in ("1", "3", "6", "9"):
                v.append({"why": "an endpoint ended the connection because the peer (the same crate) broke the protocol: "
                                 "the message stream was corrupted on a lossless path", "side": side, "result": r})
    quiescent = not case.get("finished") and case.get("steps", 0) < case.get("steps_budget", STEPS)
    for m in msgs:
        sub, got = m.get("sub"), m.get("got")
        kind = m["kind"]
        if kind == "push_request":
            if got is not None and sub is None:
                bad(m, "a promised request was delivered that was never submitted")
            elif got is not None and got.get("head") != sub.get("head"):
                bad(m, "the delivered promised request differs from the submitted one")
            continue
        if got is None:
            continue
        if sub is None:
            if got.get("head") is not None:
                bad(m, "a message was delivered on a stream on which nothing was submitted")
            continue
        # head
        if got.get("head") is not None:
            if sub.get("head") is None:
                bad(m, "a head was delivered although its submission failed")
            elif got["head"] != sub["head"]:
                bad(m, "the delivered head differs from the submitted head")
        # interim heads: exactly once, in order; all of them once the final head is there
        gi, si = got.get("infos", []), sub.get("infos", [])
        if gi != si[:len(gi)]:
            bad(m, "interim responses delivered are not a prefix of those submitted (lost, duplicated or reordered)")
        elif got.get("head") is not None and kind == "response" and len(gi) != len(si):
            bad(m, "the final head was delivered before all interim responses submitted ahead of it")
        # body: a prefix, unmodified
        if not got.get("pattern_ok", True):
            bad(m, "delivered body octets differ from the submitted ones at their offsets (modified, duplicated or reordered)")
        if got.get("len", 0) > sub.get("len", 0):
            bad(m, "more body octets delivered than submitted")
        if got.get("len", 0) == sub.get("len", 0) and got.get("digest") != sub.get("digest"):
            bad(m, "body digest differs although the length is equal")
        if got.get("len", 0) > 0 and got.get("head") is None:
            bad(m, "body delivered without a head")
        # trailers
        if got.get("trailers") is not None:
            if got["trailers"] != sub.get("trailers"):
                bad(m, "delivered trailers differ from the submitted ones (or none were submitted)")
            if got.get("len") != sub.get("len"):
                bad(m, "trailers delivered before the whole body")
        # clean end iff everything was delivered
        if got.get("end"):
            if not sub.get("end"):
                bad(m, "clean end reported although the sender never submitted END_STREAM")
            if got.get("len") != sub.get("len") or got.get("trailers") != sub.get("trailers") or got.get("head") is None:
                bad(m, "clean end reported before everything submitted was delivered")
        sid = m.get("sid")
        undisturbed = sid not in rst and sid not in app_reset and not conn_bad
        if got.get("end") and got.get("is_end_stream") is False and undisturbed:
            bad(m, "is_end_stream() false at the clean end")
        other = "response" if kind == "request" else "request"
        recv_side_reset = kind in ("request", "response") and any(
            x["kind"] == other and x.get("sid") == sid and (x.get("sub") or {}).get("err") == "reset" for x in msgs)
        if got.get("data_none") and got.get("err") and not recv_side_reset and not conn_bad:
            bad(m, "poll_data reported the end of the body (None) on a stream that did not end cleanly: the next read reports an error")
        if got.get("err") and undisturbed and sub.get("err") is None:
            bad(m, "the receiver reports an error on a stream nobody reset", rst=sorted(rst))
        if case.get("finished") and undisturbed and sub.get("end") and sub.get("err") is None and m.get("recv_done") and not got.get("end"):
            bad(m, "everything was submitted with END_STREAM, nobody reset the stream, the receiver is done, but no clean end was reported")
        if (quiescent and undisturbed and sub.get("end") and sub.get("err") is None and m.get("send_done") and got.get("head") is not None
                and got.get("len") == sub.get("len") and not got.get("end") and not got.get("err")):
            bad(m, "everything incl. END_STREAM was submitted, all octets were delivered, both endpoints and the transports are idle, "
                   "but the end of the message was never reported (END_STREAM / trailers lost)")
        # wire view of the same message
        direction = "c2s" if kind == "request" else "s2c"
        w = _wire_of(case, direction, sid)
        if w is not None:
            if not w["pattern_ok"]:
                bad(m, "DATA octets on the wire are not the submitted octets at contiguous offsets", wire=w)
            if w["len"] > sub.get("len", 0):
                bad(m, "more DATA octets on the wire than submitted", wire=w)
            if w["data_after_eos"]:
                bad(m, "DATA after END_STREAM on the wire", wire=w)
            if w["eos"] and (w["len"] != sub.get("len", 0) or not sub.get("end")):
                bad(m, "END_STREAM on a DATA frame before the last submitted octet / without a submitted end", wire=w)
    return v


def pair_stats(cases):
    st = {"cases": len(cases), "finished": 0, "messages": 0, "clean_ends": 0, "errors_seen": 0, "resets": 0,
          "bodies_over_64k": 0, "split_bodies": 0, "interim": 0, "trailers": 0, "pushes": 0, "continuation_heads": 0}
    for c in cases:
        if c.get("finished"):
            st["finished"] += 1
        for m in c.get("msgs", []):
            st["messages"] += 1
            sub, got = m.get("sub") or {}, m.get("got") or {}
            if got.get("end"):
                st["clean_ends"] += 1
            if got.get("err"):
                st["errors_seen"] += 1
            if sub.get("err") == "reset":
                st["resets"] += 1
            if sub.get("len", 0) > 65535:
                st["bodies_over_64k"] += 1
            if got.get("chunks", 0) > sub.get("chunks", 0):
                st["split_bodies"] += 1
            if sub.get("infos"):
                st["interim"] += 1
            if sub.get("trailers") is not None:
                st["trailers"] += 1
            if m["kind"] == "push_request":
                st["pushes"] += 1
            h = sub.get("head") or {}
            if any(len(x) > 15000 for vals in (h.get("fields") or {}).values() for x in vals):
                st["continuation_heads"] += 1
    return st


def corpus_pair():
    """two-endpoint replays: {"kind": "pair", "seed", "i", "steps"}"""
    out = []
    if os.path.isdir(CORPUS):
        for fn in sorted(os.listdir(CORPUS)):
            if fn.endswith(".json"):
                with open(os.path.join(CORPUS, fn)) as f:
                    d = json.load(f)
                if d.get("kind", "pair") != "pair":
                    continue
                d["file"] = fn
                out.append(d)
    return out


def corpus_conn():
    """single-endpoint op lists ({"kind": "conn", "cfg", "trace"}) re-run through `conn --replay`"""
    scs = []
    if os.path.isdir(CORPUS):
        for fn in sorted(os.listdir(CORPUS)):
            p = os.path.join(CORPUS, fn)
            if not fn.endswith(".json"):
                continue
            with open(p) as f:
                d = json.load(f)
            if d.get("kind") != "conn":
                continue
            rc, out = common.run_harness("conn", ["--replay", p, "--snap", 1], timeout=300)
            got, _ = sendflow.load_scenarios(out)
            for sc in got:
                sc["corpus"] = fn
                scs.append(sc)
    return scs


def oracle_pair(rep, tier, seed):
    """runs the corpus and fresh random cases through the two-endpoint harness; C01 as the oracle"""
    n = 400 if tier == "quick" else 6000
    all_cases = []
    for d in corpus_pair():
        c = replay_pair(d)
        if c is not None:
            c["corpus"] = d["file"]
            all_cases.append(c)
    cases, summary = run_pair(seed * 1000003 + 11, n)
    all_cases.extend(cases)
    n_viol = 0
    for c in all_cases:
        viol = pair_oracle(c)
        if viol:
            n_viol += 1
            if n_viol <= 3:
                rep.violation("failing-input", {
                    "oracle": "C01 end-to-end on two real endpoints (delivered = submitted, once, in order, same stream; clean end iff all delivered)",
                    "violations": viol[:4], "replay": {"bin": "pair", "seed": c.get("seed"), "i": c.get("i"), "steps": 30000},
                    "cfg": c.get("cfg"), "corpus": c.get("corpus")})
    st = pair_stats(all_cases)
    rep.oracle_runs.append({"name": "pair-end-to-end", "cases": len(all_cases), "nontrivial": st["finished"], "failures": n_viol,
                            "stats": st, "distribution": summary,
                            "rule": "client and server endpoints of the crate joined by scripted pipes; random windows, max_frame_size, "
                                    "max_send_buffer_size, read/write chunking, write budgets (Pending), poll order of the two connection "
                                    "tasks and all application tasks from the seed; non-trivial = every task ran to completion"})
    return n_viol


# ------------------------------------------------------------------------------------------------
# wire/API oracle on single-endpoint traces (hook independent)

def _pat(sid, who, off):
    return ((sid * 31 + off * 7 + 13 + who * 101) % 251)


def _digest(sid, who, off, n):
    a = 0
    for i in range(n):
        a = (a * 131 + _pat(sid, who, off + i)) & 0xFFFFFFFFFFFFFFFF
    return a


def wire_oracle(sc):
    """DATA frames the endpoint wrote: per stream contiguous pattern offsets from 0 (no octet lost, duplicated,
    reordered, none invented), END_STREAM exactly at the submitted total and only if an end was submitted,
    nothing after END_STREAM; `pattern_ok` on every poll_data result."""
    viol = []
    sub = {}       # sid -> [bytes submitted ok, eos submitted, trailers submitted]
    hsid = {}
    sent = {}      # sid -> [offset, eos seen]
    for st in sc["trace"]:
        op, res = st["op"], st["res"]
        name = op.get("op")
        if isinstance(res, dict) and "sid" in res and "h" in res:
            hsid[res["h"]] = res["sid"]
        if name in ("send_request", "send_response", "send_pushed_response") and op.get("eos") and (res == "ok" or isinstance(res, dict)):
            sid = res.get("sid") if isinstance(res, dict) else hsid.get(op.get("h"))
            if sid is not None:
                sub.setdefault(sid, [0, False, False])[1] = True
        if name == "send_data" and res == "ok":
            sid = hsid.get(op.get("h"))
            if sid is not None:
                s = sub.setdefault(sid, [0, False, False])
                s[0] += int(op.get("len", 0))
                if op.get("eos"):
                    s[1] = True
        if name == "send_trailers" and res == "ok":
            sid = hsid.get(op.get("h"))
            if sid is not None:
                sub.setdefault(sid, [0, False, False])[2] = True
        if name == "poll_data" and isinstance(res, dict) and res.get("pattern_ok") is False:
            viol.append({"step": st["i"], "why": "poll_data delivered octets that are not the peer's octets at the next offset", "res": res})
        for f in st["out"]:
            if f["t"] != "DATA":
                continue
            sid, n = f["sid"], f["len"]
            w = sent.setdefault(sid, [0, False])
            if w[1]:
                viol.append({"step": st["i"], "sid": sid, "why": "DATA after END_STREAM"})
            if n > 0 and (f.get("first") != _pat(sid, 0, w[0]) or f.get("sum") != _digest(sid, 0, w[0], n)):
                viol.append({"step": st["i"], "sid": sid, "why": "DATA octets are not the submitted octets at the next offset (lost, duplicated or reordered)",
                             "offset": w[0], "len": n})
            w[0] += n
            s = sub.get(sid, [0, False, False])
            if w[0] > s[0]:
                viol.append({"step": st["i"], "sid": sid, "why": "more DATA octets written than submitted", "written": w[0], "submitted": s[0]})
            if f.get("eos"):
                w[1] = True
                if not s[1] or w[0] != s[0]:
                    viol.append({"step": st["i"], "sid": sid, "why": "END_STREAM on DATA before the last submitted octet or without a submitted end",
                                 "written": w[0], "submitted": s[0], "end_submitted": s[1]})
    return viol, {"streams_with_data": len(sent), "data_bytes": sum(w[0] for w in sent.values())}


def oracle_wire(rep, scs):
    n_viol, stats = 0, {"streams_with_data": 0, "data_bytes": 0}
    nontriv = 0
    for sc in scs:
        v, s = wire_oracle(sc)
        for k in stats:
            stats[k] += s[k]
        if s["data_bytes"] > 0:
            nontriv += 1
        if v:
            n_viol += 1
            if n_viol <= 3:
                rep.violation("failing-input", {"oracle": "C01 wire view: DATA offsets contiguous with the pattern, END_STREAM exactly at the submitted total",
                                                "violations": v[:5], "scenario": {"cfg": sc["cfg"], "seed": sc.get("seed"), "i": sc.get("i"),
                                                                                  "trace": [{"op": st["op"]} for st in sc["trace"]]}})
    rep.oracle_runs.append({"name": "wire-contiguity", "cases": len(scs), "nontrivial": nontriv, "failures": n_viol, "stats": stats})
    return n_viol


# ------------------------------------------------------------------------------------------------
# lock-step: hook events of single-endpoint traces -> labels of Model/DataPath.v

PREAMBLE = ("From H2V Require Import Base.Tac Base.Bytes Model.StreamState Model.DataPath.\n"
            "Local Open Scope N_scope.\n")

FAMILY = {"store.insert", "store.remove", "prio.send_data", "prio.queue_frame", "prio.clear_queue", "prio.pop_scheduled_reset",
          "prio.pop_data", "prio.pop_other", "prio.pop_drop_push", "prio.stage", "prio.reclaim", "codec.data_done", "codec.buffer_data"}


def Zs(v):
    v = int(v)
    return "(%d)%%Z" % v


def labels_of_scenario(sc):
    """-> (chain, [label rows], final, wire digests, counts).  Bodies are the driver's pattern: the offset of a
    send_data is the number of octets accepted before on that stream."""
    labels, counts = [], {}
    live = set()
    off = {}
    role_who = 0
    chain = None

    def add(lbl, pre=None, exp=None):
        labels.append("(%s, %s, %s)" % (lbl, pre or "None", exp if exp is not None else "None"))
        k = lbl.split()[0]
        counts[k] = counts.get(k, 0) + 1

    def sig(sid, kind, n, eos):
        return "(%d, (%d, %d, %s))" % (sid, kind, n, common.coq_bool(eos))

    UNK = 4294967295
    sched = set()   # records whose next popped RST_STREAM was made from a scheduled reset
    kept_head = set()   # records whose opening HEADERS survived a clear_queue (reset while pending open)
    last_reset = None
    keymap = {}     # serial -> stream id
    for st in sc["trace"]:
        for e in st.get("ev", []):
            name, a = e[0], e[2:]
            if name == "store.insert":
                live.add(a[0])
                keymap[a[0]] = a[1]
                add("LNew %d" % a[0])
            elif name == "store.remove":
                if a[0] in live:
                    live.discard(a[0])
                    add("LRemove %d" % a[0])
            elif name == "prio.send_data":
                key, sid, streaming, sz, eos = a[0], a[1], a[2], a[12], a[13]
                o = off.get(key, 0)
                ok = streaming == 1 and sz <= 2147483647
                add("LSendData %d %s (patt %d %d %d %d) %s" % (key, common.coq_bool(streaming), sid, role_who, o, min(sz, 3000000), common.coq_bool(eos)),
                    "(Some (%d, %d))" % (a[9], UNK), None)
                if ok:
                    off[key] = o + sz
            elif name == "prio.queue_frame":
                key, kind, eos, info, buffered, extra = a[0], a[2], a[3], a[4], a[5], a[6]
                if kind == 1:
                    f = "(FHeaders %s [] %s)" % ("HkInfo" if info else "HkHead", common.coq_bool(eos))
                elif kind == 2:
                    f = "(FPush %d [])" % extra
                elif kind == 3:
                    f = "(FReset %d)" % extra
                else:
                    continue          # DATA: reported by prio.send_data
                add("LQueue %d %s" % (key, f), "(Some (%d, %d))" % (buffered, UNK))
            elif name == "send.send_reset":
                # [serial, id, streaming, send_closed, closed, pending bits, window, available, requested, buffered, is_reset, queue empty, reason]
                last_reset = (a[0], bool(a[5] & 1) and not a[11] and not a[10])
            elif name == "prio.clear_queue":
                add("LClear %d" % a[0])
                if last_reset and last_reset[0] == a[0] and last_reset[1]:
                    # reset of a request still waiting for a concurrency slot (repair a052906): the HEADERS that open the
                    # stream stay queued in front of the RST_STREAM.  The content model drops the whole queue at LClear; the
                    # emission of that one kept HEADERS frame is outside the content equation and is not compared.
                    kept_head.add(a[0])
                    counts["kept-head-after-clear"] = counts.get("kept-head-after-clear", 0) + 1
                last_reset = None
            elif name == "prio.drop_promised":
                # the promised stream of a PUSH_PROMISE dropped with its parent's queue loses its own queue on the spot (repair cc6ac6c)
                if a[0] in live:
                    add("LClear %d" % a[0])
            elif name == "prio.pop_data":
                key, avail, win, sz, max_len, ln, eos = a[0], a[7], a[6], a[12], a[13], a[14], a[15]
                eos_out = bool(eos) and ln >= sz
                add("LPop %d %d %s %s" % (key, max_len, Zs(avail), Zs(win)), "(Some (%d, %d))" % (a[9], UNK),
                    "(Some [%s])" % sig(key, 0, ln, eos_out))
            elif name == "prio.pop_sched_reset":
                sched.add(a[0])
            elif name == "prio.pop_other":
                key, kind, eos, buffered, extra = a[0], a[2], a[3], a[4], a[5]
                if kind == 3 and key in sched:
                    sched.discard(key)
                    add("LPopReset %d %d" % (key, extra), None, "(Some [%s])" % sig(key, 3, 0, False))
                elif kind == 1 and key in kept_head:
                    kept_head.discard(key)
                elif kind in (1, 2, 3):
                    add("LPop %d 0 0%%Z 0%%Z" % key, "(Some (%d, %d))" % (buffered, UNK),
                        "(Some [%s])" % sig(key, kind, 0, bool(eos) if kind == 1 else False))
                else:
                    add("LUnexpected_pop_kind_%d" % kind)
            elif name == "prio.pop_drop_push":
                add("LPopDropPush %d" % a[0])
            elif name == "prio.reclaim":
                add("LReclaim")
            elif name == "codec.data_done":
                add("LFlushed")
    fin = "None"
    for st in sc["trace"][-1:]:
        sn = st.get("snap")
        if sn and not sn["conn"].get("conn_error") and "in_flight_data_frame" in sn["conn"]:
            ss = ["(%d, (%d, %d))" % (s["serial"], s["buffered_send_data"], s.get("pending_send_len", 0)) for s in sn["streams"] if "pending_send_len" in s and "serial" in s]
            if len(ss) == len(sn["streams"]) and not kept_head:
                fin = "(Some (%d, [%s]))" % (sn["conn"]["in_flight_data_frame"], "; ".join(ss))
    wd = []
    for st in sc["trace"]:
        for f in st["out"]:
            if f["t"] == "DATA" and f.get("pad", -1) < 0:
                wd.append("(%d, %d, %d)" % (f["sid"], f["len"], f.get("sum", 0)))
    km = "[%s]" % "; ".join("(%d, %d)" % kv for kv in sorted(keymap.items()))
    return (1024, km), labels, fin, "(Some [%s])" % "; ".join(wd), counts


def coq_case(sc):
    chain, labels, fin, wd, counts = labels_of_scenario(sc)
    return "((%d, %s, [%s], %s, %s) : case_t)" % (chain[0], chain[1], ";\n    ".join(labels), fin, wd), counts, len(labels)


def hooks_present():
    """the data-path hook vocabulary (prio.queue_frame / prio.pop_other) is optional: without it the lock-step is skipped
    and only the oracles run"""
    try:
        with open(os.path.join(common.REPO, "src/proto/streams/prioritize.rs")) as f:
            s = f.read()
        return '"prio.pop_other"' in s and '"prio.queue_frame"' in s and '"prio.reclaim"' in s and '"codec.data_done"' in open(
            os.path.join(common.REPO, "src/codec/framed_write.rs")).read()
    except OSError:
        return False


def correspond_datapath(rep, tier, seed, profiles=("flow", "bp", "mixed", "reset", "queue", "starve")):
    per = 40 if tier == "quick" else 800
    steps = 100 if tier == "quick" else 140
    all_cases, all_scs, hist = [], [], {}
    all_scs.extend(corpus_conn())
    for pi, prof in enumerate(profiles):
        scs, _ = sendflow.gen_scenarios(seed * 6151 + pi, per, steps, prof)
        for sc in scs:
            all_scs.append(sc)
    if not hooks_present():
        rep.partial.append("data-path hook events (prio.queue_frame / prio.pop_other / prio.reclaim / codec.data_done) are not in /repo: "
                           "the DataPath lock-step was skipped; the two-endpoint oracle and the wire oracle ran")
        return all_scs, []
    lock_scs = []
    for sc in all_scs:
        if sc["cfg"].get("role") == "server" and False:
            continue
        case, counts, nl = coq_case(sc)
        if nl == 0:
            continue
        all_cases.append(case)
        lock_scs.append(sc)
        for k, v in counts.items():
            hist[k] = hist.get(k, 0) + v
    failing, err = common.coq_eval_failing("datapath", PREAMBLE, "check_datapath", all_cases, shard=10)
    if err:
        rep.violation("broken-correspondence", {"what": "coqc failed on generated datapath cases", "log": err[-3000:]}, no_input=True)
    nontrivial = sum(1 for sc in lock_scs if any(f["t"] == "DATA" and f["flen"] > 0 for st in sc["trace"] for f in st["out"]))
    rep.correspondences.append({
        "name": "datapath-lockstep", "cases": len(all_cases), "nontrivial": nontrivial, "disagreements": len(failing),
        "distribution": {"labels": hist, "profiles": list(profiles)},
        "rule": "random single-endpoint connection scenarios; every hooked entry into the send queue / split / reclaim machinery becomes "
                "a label of Model/DataPath.v; bodies are regenerated inside Coq from (stream, offset, length); the model is stepped and "
                "compared with the observed pre-state (buffered_send_data, queue length), the frame handed to the codec (kind, length, "
                "END_STREAM), the final snapshot, and the digests of the DATA frames the harness parsed off the wire"})
    rep._datapath_lock = (lock_scs, failing)
    return all_scs, [lock_scs[i] for i in failing]


def report_disagreements(rep, failing_scs):
    import re
    for sc in failing_scs[:3]:
        case, counts, nl = coq_case(sc)
        rc, out = common.coq_eval_raw("datapath_diag", PREAMBLE + "Definition c : case_t := %s.\nEval vm_compute in (diag_datapath c).\n" % case)
        m = re.search(r"= (\d+)", out)
        code = int(m.group(1)) if m else None
        _, labels, _, _, _ = labels_of_scenario(sc)
        k = (code // 10 - 1) if code else None
        rep.violation("broken-correspondence", {
            "correspondence": "Model/DataPath.v check_datapath vs /repo data-path events",
            "diag_code": code, "reason": {1: "pre-state differs", 2: "frame handed to the codec differs", 3: "model Stuck", 4: "model Panic"}.get((code or 0) % 10, "final snapshot / wire digests differ"),
            "first_diverging_label": labels[k] if k is not None and k < len(labels) else None,
            "labels_before": labels[max(0, (k or 0) - 6):(k or 0)],
            "theorems_no_longer_tied_to_code": THEOREMS,
            "scenario": {"cfg": sc["cfg"], "seed": sc.get("seed"), "i": sc.get("i"), "trace": [{"op": st["op"]} for st in sc["trace"]]}},
            no_input=True)


def search_datapath(rep, tier, seed):
    """look harder for a concrete failing input: more two-endpoint cases, deeper single-endpoint traces"""
    for k in range(3 if tier == "quick" else 10):
        cases, _ = run_pair(seed * 7919 + 101 * k + 5, 1500)
        for c in cases:
            viol = pair_oracle(c)
            if viol:
                rep.violation("failing-input", {"oracle": "C01 end-to-end on two real endpoints", "violations": viol[:4],
                                                "replay": {"bin": "pair", "seed": c.get("seed"), "i": c.get("i"), "steps": 30000}, "cfg": c.get("cfg")})
                return True
        for prof in ("bp", "flow", "reset", "mixed"):
            scs, _ = sendflow.gen_scenarios(seed * 104723 + k * 31 + len(prof), 150, 140, prof, snap=False)
            before = len(rep.violations)
            if oracle_wire(rep, scs) > 0 and len(rep.violations) > before:
                return True
    return False


if __name__ == "__main__":
    seed = int(sys.argv[1]) if len(sys.argv) > 1 else 1
    n = int(sys.argv[2]) if len(sys.argv) > 2 else 300
    cases, summary = run_pair(seed, n)
    bad = 0
    for c in cases:
        viol = pair_oracle(c)
        if viol:
            bad += 1
            if bad <= 5:
                print(json.dumps({"seed": c["seed"], "i": c["i"], "viol": viol[:2]}, indent=1)[:3000])
    print("cases", len(cases), "violating", bad, pair_stats(cases), summary)
