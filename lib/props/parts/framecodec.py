"""Correspondence + oracle search for the HTTP/2 frame codec (property C12).

Implementation side : /verif/harness/src/bin/framecodec.rs   (drives h2::Codec)
Model side          : coq/Model/{FrameCodec,ReadBuf,WriteBuf}.v  check_read / check_serialize / check_write
Oracle              : coq/Ref/Rfc9113Frame.v evaluated on the implementation's input/output
                      (oracle_read / oracle_serialize / oracle_write in the Model files)

    correspond_framecodec(rep, tier, seed)   model == implementation, case by case (inside Coq)
    search_framecodec(rep, tier, seed)       reference oracle on implementation behaviour
"""
import json
import os
import re
import sys

try:
    import common
except ImportError:                                            # stand-alone self-test
    sys.path.insert(0, os.path.join(os.path.dirname(os.path.abspath(__file__)), "..", ".."))
    import common

# Octet strings are rendered 7 octets per primitive-integer literal: Coq elaborates a `list N` literal at
# ~80 us per element, which would dominate the whole check.  `unpack` lives in the generated case files
# only (it is not part of the model or of any theorem).
PREAMBLE = ("From H2V Require Import Base.Tac Base.Bytes Gen.FrameConsts Ref.Rfc9113Frame "
            "Model.FrameCodec Model.ReadBuf Model.WriteBuf.\nFrom Coq Require Import Uint63.\n"
            "Local Open Scope N_scope.\n"
            "Definition w7 (x : int) : list N := let v := Z.to_N (Uint63.to_Z x) in\n"
            "  [(v / 281474976710656) mod 256; (v / 1099511627776) mod 256; (v / 4294967296) mod 256;\n"
            "   (v / 16777216) mod 256; (v / 65536) mod 256; (v / 256) mod 256; v mod 256].\n"
            "Definition unpack (len : N) (ws : list int) : list N := firstn (N.to_nat len) (flat_map w7 ws).\n"
            "Definition both_read c := check_read c && oracle_read c.\n"
            "Definition both_serialize c := check_serialize c && oracle_serialize c.\n"
            "Definition both_write c := check_write c && oracle_write c.")
CORPUS = os.path.join(common.VERIF, "corpus", "framecodec")

THEOREMS = [
    "C12_roundtrip", "C12_roundtrip_stream", "C12_roundtrip_reader", "C12_parse_agrees_with_rfc",
    "C12_codec_boundary_only_defers", "C12_continuation_stream_zero_refused",
    "C12_parse_never_panics", "C12_load_never_panics", "C12_reader_never_panics",
    "C12_read_chunking", "C12_read_chunking_init", "C12_write_no_dup_drop", "C12_write_prefix",
    "C12_write_complete", "C12_write_zero", "C12_send_limit", "C12_send_limit_data_enforced",
    "C12_recv_limit", "C12_recv_dead_silent", "C12_malformed_block_never_delivered",
]

PARTIAL = [
    "layering: RST_STREAM on stream 0 (RFC 9113 6.4) and CONTINUATION on stream 0 (6.10) are not refused by the frame "
    "loader itself; the codec hands RST_STREAM(0) up unchanged and proto/streams/streams.rs recv_reset answers "
    "PROTOCOL_ERROR (outside this model), CONTINUATION(0) is refused by decode_frame's CONTINUATION book-keeping "
    "(theorem C12_continuation_stream_zero_refused).  The reference used for the comparison is the grammar at the "
    "codec boundary (Ref/Rfc9113Frame.v rfc_parse_frame_codec); C12_codec_boundary_only_defers shows it differs from "
    "the plain grammar in exactly these two refusals.  Not a defect of the endpoint.",
    "error codes: h2 answers every malformed frame with PROTOCOL_ERROR where RFC 9113 names FRAME_SIZE_ERROR for wrong "
    "fixed lengths (PING, RST_STREAM, PRIORITY, WINDOW_UPDATE, SETTINGS); the property names FRAME_SIZE_ERROR only for "
    "frames above the size limit, which is proved and checked exactly (C12_recv_limit, oracle_read).",
    "HPACK is a parameter of the reader model; the correspondence instantiates it with the literal-field fragment the "
    "harness generates (hp_lit); the full decoder is the subject of C11.",
    "GOAWAY debug data are not checked against the peer's max frame size by the encoder (frame_wf precondition "
    "8 + debug <= max); h2 only ever sends short static strings.",
    "write-buffer capacity (bytes::BytesMut growth) is modelled after the bytes crate, not h2; it decides has_capacity "
    "only, never the octets written (C12_write_no_dup_drop holds for every capacity).",
]


# ----------------------------------------------------------------------------------------------
# JSON -> Coq terms

def N(x):
    return str(int(x))


def NL(xs):
    xs = [int(x) for x in xs]
    if len(xs) < 24:
        return common.coq_N_list(xs)
    words = []
    for i in range(0, len(xs), 7):
        ch = xs[i:i + 7]
        ch = ch + [0] * (7 - len(ch))
        v = 0
        for b in ch:
            v = v * 256 + b
        words.append("%d%%uint63" % v)
    return "(unpack %d [%s])" % (len(xs), "; ".join(words))


def OPT(x):
    return "None" if x is None else "(Some %d)" % int(x)


def B(b):
    return "true" if b else "false"


def dep_term(d):
    if d is None:
        return "None"
    return "(Some {| dep_id := %d; dep_weight := %d; dep_excl := %s |})" % (d["id"], d["w"], B(d["x"]))


def settings_term(o):
    return ("{| s_flags := %d; s_header_table_size := %s; s_enable_push := %s; s_max_concurrent_streams := %s; "
            "s_initial_window_size := %s; s_max_frame_size := %s; s_max_header_list_size := %s; "
            "s_enable_connect_protocol := %s |}" % (o["flags"], OPT(o["hts"]), OPT(o["ep"]), OPT(o["mcs"]),
                                                    OPT(o["iws"]), OPT(o["mfs"]), OPT(o["mhls"]), OPT(o["ecp"])))


def frame_term(o, block=None):
    """Coq `frame` term of a canonical frame object (as received or as sent)."""
    t = o["t"]
    if t == "data":
        return "(FData %d %d %s %s)" % (o["sid"], o["flags"], OPT(o.get("pad")), NL(o["data"]))
    if t == "headers":
        return "(FHeaders %d %d %s %s)" % (o["sid"], o["flags"], dep_term(o.get("dep")), NL(block or []))
    if t == "push_promise":
        return "(FPushPromise %d %d %d %s)" % (o["sid"], o["flags"], o["promised"], NL(block or []))
    if t == "priority":
        return "(FPriority %d %s)" % (o["sid"], dep_term(o["dep"])[6:-1])
    if t == "settings":
        return "(FSettings %s)" % settings_term(o)
    if t == "ping":
        return "(FPing %s %s)" % (B(o["ack"]), NL(o["payload"]))
    if t == "goaway":
        return "(FGoAway %d %d %s)" % (o["last"], o["code"], NL(o["debug"]))
    if t == "window_update":
        return "(FWindowUpdate %d %d)" % (o["sid"], o["inc"])
    if t == "reset":
        return "(FReset %d %d)" % (o["sid"], o["code"])
    raise ValueError("unknown frame object %r" % (o,))


def fields_term(fs):
    return "[" + "; ".join("(%s, %s)" % (NL(n), NL(v)) for n, v in fs) + "]"


def ievent_term(e):
    t = e["t"]
    if t in ("headers", "push_promise"):
        if e.get("pseudo"):
            return None          # pseudo header fields are outside the modelled HPACK fragment
        return "(IHeaders %s %s %s)" % (frame_term(e), fields_term(e["fields"]), B(e["over"]))
    if t == "err_reset":
        return "(IReset %d %d)" % (e["sid"], e["reason"])
    if t == "err_goaway":
        return "(IGoAway %d %s)" % (e["reason"], NL(e["debug"]))
    if t == "err_io":
        return "IIo"
    if t == "panic":
        return "IPanic"
    if t in ("data", "priority", "settings", "ping", "goaway", "window_update", "reset"):
        if t == "data" and e.get("flags_dbg", e["flags"]) != e["flags"]:
            return None
        return "(IFrame %s)" % frame_term(e)
    return None                  # harness-level anomaly (eof_unexpected ...): always a disagreement


def read_case_term(c):
    evs = [ievent_term(e) for e in c["events"]]
    if any(e is None for e in evs):
        evs = ["IPanic", "IIo", "IPanic"]       # cannot match any model run
    return "(%d, %d, (%s : list N), (%s : list N), (%s : list ievent), %s)" % (
        c["max_frame"], c["max_hls"], NL(c["bytes"]), NL(c["lens"]), common.coq_list(evs), B(c["eof_io"]))


def serialize_case_term(c):
    f = c["frame"]
    return "(%d, %s, %s)" % (c["max"], frame_term(f, f.get("block")),
                             "None" if c["bytes"] is None else "(Some %s)" % NL(c["bytes"]))


def titem_term(t):
    if t == "p":
        return "TPending"
    if t == "z":
        return "TZero"
    if t == "e":
        return "TError"
    return "(TAccept %d)" % t["a"]


def op_term(o, frames):
    if o == "poll_ready":
        return "OpPollReady"
    if o == "flush":
        return "OpFlush"
    f = frames[o["buffer"]]
    return "(OpBuffer %s)" % frame_term(f, f.get("block"))


def write_case_term(c):
    return "(%s, %d, (%s : list op), (%s : list titem), (%s : list N), (%s : list (list N)))" % (
        B(c["vectored"]), c["max"], common.coq_list([op_term(o, c["frames"]) for o in c["ops"]]),
        common.coq_list([titem_term(t) for t in c["script"]]), NL(c["obs"]),
        common.coq_list([NL(w) for w in c["writes"]]))


TERM = {"parse": read_case_term, "malformed": read_case_term, "readchunk": read_case_term, "replay_read": read_case_term,
        "serialize": serialize_case_term, "writechunk": write_case_term, "replay_write": write_case_term}
CHECK = {"parse": "check_read", "malformed": "check_read", "readchunk": "check_read", "replay_read": "check_read",
         "serialize": "check_serialize", "writechunk": "check_write", "replay_write": "check_write"}
BOTH = {"parse": "both_read", "malformed": "both_read", "readchunk": "both_read", "replay_read": "both_read",
        "serialize": "both_serialize", "writechunk": "both_write", "replay_write": "both_write"}
ORACLE = {"parse": "oracle_read", "malformed": "oracle_read", "readchunk": "oracle_read", "replay_read": "oracle_read",
          "serialize": "oracle_serialize", "writechunk": "oracle_write", "replay_write": "oracle_write"}


# ----------------------------------------------------------------------------------------------
# running the harness

def parse_lines(out):
    cases, summary = [], {}
    for line in out.splitlines():
        line = line.strip()
        if not line.startswith("{"):
            continue
        try:
            o = json.loads(line)
        except ValueError:
            continue
        if "summary" in o:
            summary = o["summary"]
        else:
            cases.append(o)
    return cases, summary


def harness(mode, seed, n, input=None):
    rc, out = common.run_harness("framecodec", ["--seed", seed, "--n", n, "--mode", mode], input=input)
    cases, summary = parse_lines(out)
    if rc != 0:
        summary = dict(summary, harness_rc=rc, harness_tail=out[-400:])
    return cases, summary


def replay(case):
    """Re-run the implementation on an explicit case (used by the shrinker)."""
    cases, _ = harness("replay", 0, 1, input=(json.dumps(case) + "\n").encode())
    return cases[0] if cases else None


def load_corpus():
    """The committed corpus holds *inputs* (replay format); they are run through the current implementation."""
    inputs = []
    if os.path.isdir(CORPUS):
        for fn in sorted(os.listdir(CORPUS)):
            if fn.endswith(".json"):
                with open(os.path.join(CORPUS, fn)) as f:
                    inputs.extend(json.load(f))
    if not inputs:
        return []
    cases, _ = harness("replay", 0, len(inputs), input=("\n".join(json.dumps(c) for c in inputs) + "\n").encode())
    for c, i in zip(cases, inputs):
        c["tag"] = "corpus:" + i.get("tag", "")
    return cases


def eval_bool(tag, fn_by_mode, cases):
    """Evaluate a boolean Coq function on every case (grouped by function); returns (failing indices, error log)."""
    failing, errs = [], None
    by_fn = {}
    for i, c in enumerate(cases):
        by_fn.setdefault(fn_by_mode[c["mode"]], []).append(i)
    for fn, idx in by_fn.items():
        terms = [TERM[cases[i]["mode"]](cases[i]) for i in idx]
        # Coq's parser is the bottleneck: small shards keep all cores busy
        per = max(8, len(terms) // common.NPROC + 1)
        bad, err = common.coq_eval_failing(re.sub(r"\W", "_", "%s_%s" % (tag, fn)), PREAMBLE, fn, terms, shard=per)
        if err:
            errs = (errs or "") + err
        failing.extend(idx[j] for j in bad)
    return sorted(failing), errs


def is_nontrivial(c):
    m = c["mode"]
    if m in ("parse", "readchunk", "malformed", "replay_read"):
        return len(c["events"]) > 0
    if m == "serialize":
        return c["bytes"] is not None
    return len(c["writes"]) > 0


def case_brief(c):
    """A small rendering of a case for evidence / replays."""
    d = {k: v for k, v in c.items() if k not in ("bytes", "chunks", "writes", "frames")}
    if "bytes" in c and c["bytes"] is not None:
        d["bytes_len"] = len(c["bytes"])
        d["bytes_head"] = c["bytes"][:64]
    if "writes" in c:
        d["writes_lens"] = [len(w) for w in c["writes"]][:50]
    return d


# ----------------------------------------------------------------------------------------------
# shrinking (read side: drop whole frames, then trailing octets; write side: drop frames)

def split_frames(bs):
    out, i = [], 0
    while i + 9 <= len(bs):
        ln = (bs[i] << 16) | (bs[i + 1] << 8) | bs[i + 2]
        if i + 9 + ln > len(bs):
            break
        out.append(bs[i:i + 9 + ln])
        i += 9 + ln
    if i < len(bs):
        out.append(bs[i:])
    return out


def shrink_read(case, still_fails, budget=40):
    cur = case
    frames = split_frames(cur["bytes"])
    changed = True
    while changed and budget > 0 and len(frames) > 1:
        changed = False
        for k in range(len(frames)):
            cand_frames = frames[:k] + frames[k + 1:]
            bs = [b for f in cand_frames for b in f]
            cand = replay({"kind": "read", "max_frame": cur["max_frame"], "max_hls": cur["max_hls"],
                           "bytes": bs, "lens": [len(bs)]})
            budget -= 1
            if cand is not None and still_fails(cand):
                cur, frames, changed = cand, cand_frames, True
                break
            if budget <= 0:
                break
    return cur


def shrink_write(case, still_fails, budget=30):
    cur = case
    changed = True
    while changed and budget > 0:
        changed = False
        idxs = sorted({o["buffer"] for o in cur["ops"] if isinstance(o, dict)})
        for k in idxs:
            if len(idxs) <= 1:
                break
            ops = []
            for o in cur["ops"]:
                if isinstance(o, dict) and o["buffer"] == k:
                    continue
                ops.append(o)
            cand = replay({"kind": "write", "vectored": cur["vectored"], "max": cur["max"],
                           "wframes": cur["wframes"], "ops": ops, "script": cur["script"]})
            budget -= 1
            if cand is not None and still_fails(cand):
                cur, changed = cand, True
                break
            if budget <= 0:
                break
    return cur


# ----------------------------------------------------------------------------------------------

def generate(tier, seed, salt=0):
    big = tier != "quick"
    plan = [("parse", 9000 if big else 360), ("malformed", 8000 if big else 320),
            ("readchunk", 2000 if big else 50), ("serialize", 6000 if big else 300),
            ("writechunk", 3000 if big else 100)]
    cases, dist = [], {}
    for mode, n in plan:
        cs, summary = harness(mode, int(seed) + salt, n)
        cases.extend(cs)
        dist[mode] = summary
    return cases, dist


READ_MODES = ("parse", "malformed", "readchunk", "replay_read")


_CACHE = {}


def evaluate(tag, cases):
    """One pass of `check && oracle` over all cases (the octets of a case are parsed by Coq once); the few cases
    that fail are then looked at separately.  Returns (check_failing, oracle_failing, out_of_model, error_log)."""
    both_bad, err = eval_bool(tag, BOTH, cases)
    sub = [cases[i] for i in both_bad]
    chk = orc = oom = []
    if sub:
        c_bad, e1 = eval_bool(tag + "_c", CHECK, sub)
        o_bad, e2 = eval_bool(tag + "_o", ORACLE, sub)
        err = (err or "") + (e1 or "") + (e2 or "") or None
        chk = [both_bad[j] for j in c_bad]
        orc = [both_bad[j] for j in o_bad]
        # a read case whose header block leaves the modelled HPACK fragment (the model says EvUnsupported) is
        # not a disagreement: it is outside the domain of this correspondence
        fr = [i for i in chk if cases[i]["mode"] in READ_MODES]
        if fr:
            unsup, _ = eval_bool(tag + "_s", {m: "read_supported" for m in TERM}, [cases[i] for i in fr])
            oom = [fr[j] for j in unsup]
            chk = [i for i in chk if i not in set(oom)]
    return chk, orc, oom, err


def correspond_framecodec(rep, tier, seed):
    cases = load_corpus()
    ncorpus = len(cases)
    gen, dist = generate(tier, seed)
    cases.extend(gen)
    failing, oracle_bad, out_of_model, err = evaluate("framecodec", cases)
    _CACHE["cases"], _CACHE["oracle_bad"] = cases, oracle_bad
    if err:
        rep.violation("broken-correspondence", {"what": "coqc failed on generated cases", "log": err[-3000:]}, no_input=True)
    counts = {}
    for c in cases:
        counts[c["mode"]] = counts.get(c["mode"], 0) + 1
    rep.correspondences.append({
        "name": "framecodec", "cases": len(cases) - len(out_of_model), "corpus_cases": ncorpus,
        "nontrivial": sum(1 for i, c in enumerate(cases) if is_nontrivial(c) and i not in set(out_of_model)),
        "disagreements": len(failing), "out_of_model": len(out_of_model), "by_mode": counts, "distribution": dist,
        "rule": "parse/readchunk: streams of 1-6 well-formed frames of all ten types + unknown types written by the "
                "harness' own frame writer (random flags incl. undefined bits, padding, priority, reserved bits, "
                "CONTINUATION runs cut anywhere) under whole / byte-at-a-time / random chunkings with Pending between "
                "reads; malformed: 30 classes of broken streams; serialize/writechunk: h2::frame values through "
                "Codec::{poll_ready,buffer,flush} over scripted partial writes (vectored and not), several "
                "max_send_frame_size values; corpus: /verif/corpus/framecodec (inputs, re-run on the current tree).  "
                "Non-trivial = at least one event / octet produced.  The model is evaluated inside Coq (check_read / "
                "check_serialize / check_write).  out_of_model = header blocks outside the literal HPACK fragment "
                "(only reachable by the bit-flip mutation)."})
    if len(out_of_model) * 20 > len(cases):
        rep.violation("broken-correspondence", {"what": "more than 5% of the cases fall outside the modelled HPACK fragment",
                                                "out_of_model": len(out_of_model)}, no_input=True)
    rep.samples.extend(case_brief(c) for c in cases[ncorpus:ncorpus + 3])
    rep.partial.extend(p for p in PARTIAL if p not in rep.partial)
    if failing:
        classify(rep, [cases[i] for i in failing[:6]], "model and implementation disagree")
    # the reference oracle on the same cases (already evaluated in the combined pass)
    search_framecodec(rep, tier, seed, cases=cases)
    return cases


def classify(rep, bad_cases, what):
    """Decide with the oracle whether the implementation violates C12 on these inputs."""
    obad, err = eval_bool("framecodec_classify", ORACLE, bad_cases)
    for i, c in enumerate(bad_cases):
        if i in obad:
            report_violation(rep, c)
        else:
            rep.violation("broken-correspondence", {"case": case_brief(c), "what": what + " (oracle holds on this input)"},
                          no_input=True)


def oracle_fails(c):
    bad, err = eval_bool("framecodec_shrink", ORACLE, [c])
    return bool(bad) and not err


def report_violation(rep, c):
    m = c["mode"]
    try:
        if m in ("parse", "malformed", "readchunk", "replay_read"):
            c = shrink_read(c, oracle_fails)
        elif m in ("writechunk", "replay_write") and "wframes" in c:
            c = shrink_write(c, oracle_fails)
    except Exception as ex:                                   # shrinking is best effort
        c = dict(c, shrink_error=repr(ex))
    payload = {"what": "reference oracle (Ref/Rfc9113Frame.v) rejects the implementation's behaviour",
               "mode": m, "case": c if len(json.dumps(c)) < 200000 else case_brief(c)}
    rep.violation("failing-input", payload)


def search_framecodec(rep, tier, seed, cases=None):
    """Oracle = reference parser / serialiser evaluated in Coq on the implementation's input/output:
       read side : every event the implementation produced agrees with the RFC grammar applied to the same octets
                   (values equal, rejection where the grammar rejects, FRAME_SIZE_ERROR before any payload octet of
                   an oversize frame), and is the same under every chunking of the same octets;
       write side: the octets accepted by the transport parse (reference parser) back to the frames that were
                   buffered, in order, nothing duplicated / dropped / reordered, a prefix when the transport stopped,
                   and no payload is longer than max_send_frame_size."""
    if cases is None and tier == "quick" and _CACHE.get("cases") is not None:
        cases = _CACHE["cases"]                 # the quick tier looks at the cases of the correspondence run
    if cases is not None and cases is _CACHE.get("cases"):
        bad, err = list(_CACHE["oracle_bad"]), None
    else:
        if cases is None:
            cases, _ = generate(tier, seed, salt=7919)
        bad, err = eval_bool("framecodec_oracle", ORACLE, cases)
    if err:
        rep.violation("broken-correspondence", {"what": "coqc failed on the oracle", "log": err[-3000:]}, no_input=True)
    bad = set(bad)
    # chunk dependence: same octets, same limits => same events
    groups = {}
    for i, c in enumerate(cases):
        if c["mode"] == "readchunk":
            groups.setdefault((c["group"], json.dumps(c["bytes"])[:200], len(c["bytes"])), []).append(i)
    chunk_bad = []
    for _, idx in groups.items():
        ref = json.dumps([cases[idx[0]]["events"], cases[idx[0]]["eof_io"]], sort_keys=True)
        for i in idx[1:]:
            if json.dumps([cases[i]["events"], cases[i]["eof_io"]], sort_keys=True) != ref:
                chunk_bad.append(i)
    rep.oracle_runs.append({"name": "framecodec-reference-oracle", "cases": len(cases),
                            "nontrivial": sum(1 for c in cases if is_nontrivial(c)),
                            "failures": len(bad) + len(chunk_bad), "chunk_groups": len(groups)})
    for i in sorted(bad)[:5]:
        report_violation(rep, cases[i])
    for i in chunk_bad[:3]:
        rep.violation("failing-input", {"what": "result depends on how the transport split the reads",
                                        "case": case_brief(cases[i]), "bytes": cases[i]["bytes"][:4000],
                                        "lens": cases[i]["lens"][:4000]})
    return len(bad) + len(chunk_bad)


if __name__ == "__main__":
    import time
    tier = sys.argv[1] if len(sys.argv) > 1 else "quick"
    seed = sys.argv[2] if len(sys.argv) > 2 else "1"
    t0 = time.time()
    rep = common.Report("C12", tier, seed)
    correspond_framecodec(rep, tier, seed)        # includes the oracle on the same cases
    t1 = time.time()
    t2 = time.time()
    c = rep.correspondences[0]
    print(json.dumps({"cases": c["cases"], "nontrivial": c["nontrivial"], "disagreements": c["disagreements"],
                      "by_mode": c["by_mode"], "oracle": rep.oracle_runs, "known": rep.known_hits, "partial": len(rep.partial),
                      "violations": [p for p, _ in rep.violations],
                      "t_correspond": round(t1 - t0, 1), "t_search": round(t2 - t1, 1)}, indent=1))
    sys.exit(1 if (c["disagreements"] or rep.violations) else 0)
