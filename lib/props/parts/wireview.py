"""Wire-level view of a connection trace, independent of hooks: what an observer of the byte stream in
both directions can say about each stream (RFC 9113 5.1), plus the property oracles that are
evaluated on it:

  C04  sender_oracle      every frame the endpoint wrote obeys the stream life cycle
  C17  reset_oracle       at most/exactly one RST_STREAM with the right code; peer errors surface intact
  C07  ending_oracle      after any ending every handle operation resolves, the connection future completes
  C09  reaction_oracle    forbidden peer frames are answered by GOAWAY/RST_STREAM, tolerated ones are not penalised

A trace step has: op (incl. peer frames fed, with their description in op["what"]), res (API result),
out (frames written by the endpoint in this step, parsed by the harness' own parser), io.inbound (bytes
fed but not yet read by the endpoint).
"""
import json

CONN_TYPES = ("SETTINGS", "PING", "GOAWAY")
STREAM_TYPES = ("DATA", "HEADERS", "CONTINUATION", "RST_STREAM", "PUSH_PROMISE", "PRIORITY")


def is_local(sid, client):
    return (sid % 2 == 1) == client


class StreamW:
    __slots__ = ("sid", "local", "opened_out", "opened_in", "out_eos", "in_eos", "out_rst", "in_rst", "out_headers",
                 "out_data", "reserved_by_push", "out_after_eos", "rst_codes", "in_rst_code", "out_head_done", "out_info", "out_eos_api")

    def __init__(self, sid, local):
        self.sid, self.local = sid, local
        self.opened_out = self.opened_in = False
        self.out_eos = self.in_eos = False
        self.out_rst = self.in_rst = False
        self.out_headers = 0
        self.out_data = 0
        self.reserved_by_push = False
        self.rst_codes = []
        self.in_rst_code = None
        self.out_head_done = False
        self.out_info = 0
        self.out_eos_api = False


class WireView:
    def __init__(self, sc):
        self.sc = sc
        self.client = sc["cfg"]["role"] == "client"
        self.streams = {}
        self.max_peer_sid = 0          # highest peer-parity id the peer has used (fed)
        self.max_local_opened = 0
        self.goaway_out = []           # (step, last, code)
        self.goaway_in = []
        self.viol = []

    def s(self, sid):
        if sid not in self.streams:
            self.streams[sid] = StreamW(sid, is_local(sid, self.client))
        return self.streams[sid]

    # -------- C04
    def sender_oracle(self):
        """RFC 9113 5.1 / 6 from the sender's side, on the frames the endpoint wrote."""
        v = []
        client = self.client
        expect_cont = None
        self.push_bad = {}
        handles = {}
        rst_fed = {}        # sid -> True once a step with an empty inbound buffer followed the feed (processed)
        rst_pending = set()
        for st in self.sc["trace"]:
            op = st["op"]
            res = st["res"]
            if isinstance(res, dict) and "sid" in res and "h" in res:
                handles[res["h"]] = res["sid"]
                if op.get("op") == "push_request":
                    parent = handles.get(op.get("h"))
                    if parent is not None:
                        ps = self.s(parent)
                        if rst_fed.get(parent) or ps.out_rst or ps.out_eos_api:
                            self.push_bad[res["sid"]] = {"parent": parent, "peer_reset_processed": bool(rst_fed.get(parent)),
                                                         "we_reset": ps.out_rst, "response_ended": ps.out_eos_api}
            if op.get("op") in ("send_response", "send_data", "send_trailers") and res == "ok" and (op.get("eos") or op.get("op") == "send_trailers"):
                sid_ = handles.get(op.get("h"))
                if sid_ is not None:
                    self.s(sid_).out_eos_api = True
            if st.get("io", {}).get("inbound") == 0 and rst_pending:
                for x in rst_pending:
                    rst_fed[x] = True
                rst_pending = set()
            if op.get("op") == "peer" and isinstance(op.get("what"), dict) and op["what"].get("t") == "RST_STREAM":
                rst_pending.add(op["what"].get("sid"))
            if op.get("op") == "peer" and isinstance(op.get("what"), dict):
                w = op["what"]
                t = w.get("t")
                sid = w.get("sid", 0) or 0
                if t in ("HEADERS", "DATA", "RST_STREAM", "WINDOW_UPDATE", "PUSH_PROMISE") and sid and not is_local(sid, client):
                    self.max_peer_sid = max(self.max_peer_sid, sid)
                if t == "PUSH_PROMISE":
                    pr = w.get("promised", 0)
                    self.max_peer_sid = max(self.max_peer_sid, pr)
                    self.s(pr).opened_in = True
                if t == "HEADERS" and sid:
                    self.s(sid).opened_in = True
                    if w.get("eos"):
                        self.s(sid).in_eos = True
                if t == "DATA" and w.get("eos") and sid:
                    self.s(sid).in_eos = True
                if t == "RST_STREAM" and sid:
                    self.s(sid).in_rst = True
                    self.s(sid).in_rst_code = w.get("code")
                if "chaos" in w:
                    # chaos frames may touch arbitrary ids: treat every id at or below as used by the peer
                    pass
            for f in st["out"]:
                t = f["t"]
                sid = f.get("sid", 0) or 0
                where = {"step": st["i"], "frame": {k: f[k] for k in f if k in ("t", "sid", "eos", "eoh", "len", "code", "promised", "inc", "ack")}}
                if expect_cont is not None and not (t == "CONTINUATION" and sid == expect_cont):
                    v.append(dict(where, why="header block not contiguous: expected CONTINUATION on stream %d" % expect_cont))
                    expect_cont = None
                if t in CONN_TYPES and sid != 0:
                    v.append(dict(where, why="connection-level frame type on a stream"))
                if t in STREAM_TYPES and sid == 0:
                    v.append(dict(where, why="stream-level frame type on stream 0"))
                if t == "BAD_PREFACE":
                    v.append(dict(where, why="client preface is wrong"))
                if t in ("HEADERS", "PUSH_PROMISE"):
                    expect_cont = sid if not f.get("eoh") else None
                elif t == "CONTINUATION":
                    if expect_cont is None and not any(x.get("why", "").startswith("header block not") for x in v[-1:]):
                        v.append(dict(where, why="CONTINUATION without an open header block"))
                    expect_cont = sid if not f.get("eoh") else None
                if sid == 0 or t in ("WINDOW_UPDATE", "PRIORITY") and sid == 0:
                    if t == "GOAWAY":
                        self.goaway_out.append((st["i"], f.get("last"), f.get("code")))
                    continue
                s = self.s(sid)
                local = s.local
                if t == "PUSH_PROMISE":
                    pr = f.get("promised", 0)
                    ps = self.s(pr)
                    if client:
                        v.append(dict(where, why="a client sent PUSH_PROMISE"))
                    if pr % 2 != 0:
                        v.append(dict(where, why="promised stream id is not even"))
                    if pr <= self.max_local_opened:
                        v.append(dict(where, why="promised stream id does not increase", previous=self.max_local_opened))
                    self.max_local_opened = max(self.max_local_opened, pr)
                    ps.reserved_by_push = True
                    ps.opened_out = True
                    # parent must be open or half-closed (remote) as far as the endpoint knew when the
                    # application asked for the push
                    if pr in self.push_bad:
                        v.append(dict(where, why="PUSH_PROMISE on a parent stream that was not open / half-closed (remote) when push_request was called",
                                      detail=self.push_bad[pr]))
                    continue
                # idle check
                if local:
                    if not s.opened_out:
                        if t == "HEADERS" and not s.reserved_by_push:
                            if (client and sid % 2 != 1) or (not client):
                                v.append(dict(where, why="locally initiated stream with wrong parity / server opened a stream without PUSH_PROMISE"))
                            if sid <= self.max_local_opened:
                                v.append(dict(where, why="stream identifiers do not strictly increase", previous=self.max_local_opened))
                            self.max_local_opened = max(self.max_local_opened, sid)
                            s.opened_out = True
                        elif t != "PRIORITY":
                            v.append(dict(where, why="frame on an idle (never opened) locally initiated stream"))
                            s.opened_out = True
                else:
                    if sid > self.max_peer_sid and t != "PRIORITY":
                        v.append(dict(where, why="frame on an idle peer-initiated stream (the peer never used this id)", max_peer_sid=self.max_peer_sid))
                # after RST_STREAM / END_STREAM
                if s.out_rst and t not in ("PRIORITY", "RST_STREAM"):
                    v.append(dict(where, why="frame after RST_STREAM was sent on this stream"))
                elif s.out_eos and t not in ("WINDOW_UPDATE", "RST_STREAM", "PRIORITY"):
                    v.append(dict(where, why="frame after END_STREAM was sent on this stream"))
                if t == "HEADERS":
                    s.out_headers += 1
                    status = None
                    if isinstance(f.get("fields"), list):
                        for n, val in f["fields"]:
                            if n == ":status":
                                status = val
                    info = status is not None and status.startswith("1") and len(status) == 3
                    if s.out_head_done and not f.get("eos"):
                        v.append(dict(where, why="second header section without END_STREAM (trailers must end the stream)"))
                    if info:
                        s.out_info += 1
                        if f.get("eos"):
                            v.append(dict(where, why="interim (1xx) response with END_STREAM"))
                    else:
                        s.out_head_done = True
                    if not local and not s.opened_in:
                        v.append(dict(where, why="response HEADERS on a stream the peer has not opened"))
                if t == "DATA":
                    s.out_data += 1
                    if not s.out_head_done:
                        v.append(dict(where, why="DATA before the stream's header section was sent"))
                if t in ("HEADERS", "DATA") and f.get("eos"):
                    s.out_eos = True
                if t == "RST_STREAM":
                    s.out_rst = True
                    s.rst_codes.append(f.get("code"))
        return v

    # -------- C17 (wire part)
    def reset_oracle(self):
        """Per stream id at most one RST_STREAM from the endpoint for streams it had state for (replies
        STREAM_CLOSED/… to late frames on forgotten ids are one per offending frame and are not counted);
        an explicit send_reset(code)/respond_reset(code) on a live stream puts exactly that code on the wire;
        a handle dropped before completion yields CANCEL; a peer RST_STREAM/GOAWAY code surfaces on the handles."""
        v = []
        client = self.client
        explicit = {}     # sid -> code requested through the API
        handles = {}      # h -> sid
        fed_after_rst = {}
        out_rst = {}      # sid -> list of (step, code)
        peer_frames_on = {}
        peer_rst = {}
        prev_snap = {}
        other_error = False      # a GOAWAY from the peer / a connection-level failure may reach the stream first (first error wins)
        tainted = set()
        must_rst = {}            # sid -> (step, code): explicit reset of a stream not yet closed on the wire
        head_out, eos_written, eos_fed = set(), set(), set()
        conn_over = False
        for st in self.sc["trace"]:
            op, res = st["op"], st["res"]
            o = op.get("op")
            if o in ("eof", "read_fail", "drop_conn", "abrupt_shutdown", "graceful_shutdown") or (o == "write_mode" and op.get("mode") in ("fail",)):
                conn_over = True
            if o in ("conn_poll", "poll_accept") and isinstance(res, str) and (res.startswith("E(") or res.startswith("Ready")):
                conn_over = True
            if o == "peer" and isinstance(op.get("what"), dict):
                w0 = op["what"]
                if w0.get("t") in ("HEADERS", "DATA") and w0.get("eos"):
                    eos_fed.add(w0.get("sid"))
                if w0.get("t") == "PUSH_PROMISE":
                    eos_written.add(w0.get("promised"))   # the client never sends on a pushed stream
                if w0.get("t") == "GOAWAY" or "chaos" in w0:
                    conn_over = True
            for f0 in st["out"]:
                if f0["t"] == "PUSH_PROMISE":
                    eos_fed.add(f0.get("promised"))      # a pushed stream is closed on the peer's side from the start
                if f0["t"] in ("HEADERS", "PUSH_PROMISE"):
                    head_out.add(f0["sid"] if f0["t"] == "HEADERS" else f0.get("promised"))
                if f0["t"] in ("HEADERS", "DATA") and f0.get("eos"):
                    eos_written.add(f0["sid"])
                if f0["t"] == "GOAWAY":
                    conn_over = True
            if (prev_snap or {}).get("conn", {}).get("conn_error") or (st.get("snap") or {}).get("conn", {}).get("conn_error"):
                conn_over = True          # a connection error is recorded although its GOAWAY may still be unwritten
            if o in ("eof", "read_fail", "drop_conn", "abrupt_shutdown") or (o == "write_mode" and op.get("mode") in ("fail", "zero")):
                other_error = True
            if o in ("conn_poll", "poll_accept") and isinstance(res, str) and res.startswith("E("):
                other_error = True
            if o == "peer" and isinstance(op.get("what"), dict) and (op["what"].get("t") == "GOAWAY" or "chaos" in op["what"]):
                other_error = True
            if isinstance(res, dict) and "sid" in res and "h" in res:
                handles[res["h"]] = res["sid"]
            if o in ("send_reset", "respond_reset") and res == "ok":
                sid = handles.get(op.get("h"))
                # wire view at the moment of the call: a stream whose two END_STREAMs are not both on the wire yet has
                # not "closed cleanly" - the reset must reach the wire (checked at the end of a settled run)
                # (the stream exists on the wire: its HEADERS / PUSH_PROMISE were written, or the peer opened it)
                if sid is not None and (sid in head_out or not is_local(sid, client)) and sid not in out_rst and sid not in peer_rst \
                        and not (sid in eos_written and sid in eos_fed) and sid not in must_rst:
                    must_rst[sid] = (st["i"], op.get("code", 8))
                # the library may already have reset the stream (peer violation): then the call is a no-op
                already = any(e[0] == "send.send_reset" and len(e) > 12 and e[12] == 1 for e in st.get("ev", []))
                live = any(e[0] == "send.send_reset" for e in st.get("ev", []))
                if sid is not None and sid not in explicit and live and not already:
                    explicit[sid] = op.get("code", 8)
            if o == "peer" and isinstance(op.get("what"), dict):
                w = op["what"]
                sid = w.get("sid", 0) or 0
                if w.get("t") == "PUSH_PROMISE" and w.get("promised"):
                    # the promise is the first peer frame of the promised stream (it may be answered by a refusal)
                    peer_frames_on[w["promised"]] = peer_frames_on.get(w["promised"], 0) + 1
                if sid:
                    peer_frames_on[sid] = peer_frames_on.get(sid, 0) + 1
                    if sid in out_rst:
                        fed_after_rst[sid] = fed_after_rst.get(sid, 0) + 1
                if w.get("t") == "RST_STREAM":
                    # first error wins: the stream may already have failed (library reset still queued behind a blocked
                    # write, connection error, ...); the statistics snapshot of the previous step tells
                    already_closed = any(x["id"] == sid and x["state"].startswith("Closed(") and "EndStream)" not in x["state"][:18]
                                         for x in prev_snap.get("streams", []))
                    if other_error or sid in out_rst or already_closed or not prev_snap:
                        tainted.add(sid)
                    peer_rst.setdefault(sid, w.get("code"))
            # surfaced error codes
            if isinstance(res, str) and res.startswith("E(reset,") and op.get("h") in handles:
                sid = handles[op["h"]]
                parts = res[2:-1].split(",")
                code, origin = parts[1], parts[2]
                if origin == "remote" and sid in peer_rst and sid not in tainted and str(peer_rst[sid]) != code:
                    v.append({"step": st["i"], "why": "a peer RST_STREAM surfaced with a different code", "sid": sid, "wire": peer_rst[sid], "api": res})
                if origin == "remote" and sid not in peer_rst:
                    v.append({"step": st["i"], "why": "a handle reports a remote reset but the peer never reset this stream", "sid": sid, "api": res})
            if o in ("poll_reset", "respond_poll_reset") and isinstance(res, dict) and "reason" in res and op.get("h") in handles:
                sid = handles[op["h"]]
                # a connection error (for instance the reset quota answered with GOAWAY ENHANCE_YOUR_CALM while this very
                # RST_STREAM was processed) reaches every open stream and then is the error the stream reports
                if sid in peer_rst and sid not in tainted and sid not in explicit and res["reason"] != peer_rst[sid] and sid not in out_rst \
                        and not conn_over:
                    v.append({"step": st["i"], "why": "poll_reset reports a code different from the peer's RST_STREAM", "sid": sid, "wire": peer_rst[sid], "api": res})
            for f in st["out"]:
                if f["t"] == "RST_STREAM":
                    out_rst.setdefault(f["sid"], []).append((st["i"], f.get("code")))
            if "snap" in st:
                prev_snap = st["snap"]
        if self.sc.get("settled") and not conn_over:
            # a stream still waiting for a concurrency slot keeps its HEADERS queued and sends the RST_STREAM right after
            # them once it is opened: nothing is owed while it waits
            waiting = {x["id"] for x in (prev_snap or {}).get("streams", []) if x.get("is_pending_open") or x.get("is_pending_push")}
            for sid, (step, code) in must_rst.items():
                if sid in waiting or not prev_snap:
                    continue
                # a final frame that had already been handed to the codec when the call was made still goes out and ends the
                # stream cleanly: then no RST_STREAM is owed
                if sid not in out_rst and sid not in peer_rst and not (sid in eos_written and sid in eos_fed):
                    v.append({"step": step, "why": "send_reset on a stream that had not closed cleanly on the wire put no RST_STREAM on the wire (and the stream never ended cleanly either)",
                              "sid": sid, "api_code": code, "end_stream_written": sid in eos_written, "end_stream_received": sid in eos_fed})
        for sid, lst in out_rst.items():
            # replies to late peer frames on a stream already reset are allowed: one per offending frame
            # every peer frame on the stream may legitimately be answered by one more RST_STREAM (late frames)
            allowed = max(1, peer_frames_on.get(sid, 0) + (1 if is_local(sid, client) else 0))
            if len(lst) > allowed:
                v.append({"why": "more RST_STREAM frames than one (plus one per late peer frame) on a stream", "sid": sid, "rsts": lst, "late_peer_frames": fed_after_rst.get(sid, 0)})
            if sid in explicit and lst and lst[0][1] != explicit[sid] and sid not in peer_rst:
                # the first RST on a stream the application reset must carry the application's code, unless the
                # library had already reset it for a protocol violation (then the peer sent something illegal)
                if lst[0][1] not in (1, 3, 5, 7, 11) or self.sc.get("profile") not in ("chaos",):
                    v.append({"why": "RST_STREAM does not carry the code given to send_reset", "sid": sid, "wire": lst[0][1], "api_code": explicit[sid]})
        return v

    # -------- C07
    def ending_oracle(self):
        """After the connection ended (its future completed / accept returned None or an error, and - as an
        executor or accept loop would - the connection object was dropped), every handle operation returns Ready
        (an error, a value or end-of-stream), never Pending.  Two documented-usage filters: poll_trailers is only
        judged once poll_data on that handle has finished (trailers come after the body), and poll_reset on a stream
        that had closed cleanly is reported under its own class (see known findings)."""
        v = []
        done_at = None
        data_done = set()
        handles = {}
        eos_out, eos_in, rst = set(), set(), set()
        fed_rst = []
        # tasks parked by a poll that returned Pending: waker id -> (step, op); a task leaves the table when its waker
        # fires, when it is polled again, or when its handle is dropped
        KIND = {"poll_response": 0, "poll_pushed_response": 0, "poll_data": 1, "poll_trailers": 2, "poll_capacity": 3,
                "poll_reset": 4, "respond_poll_reset": 4, "poll_push": 5, "poll_informational": 6}
        parked = {}

        def waker_of(op_):
            o_ = op_.get("op")
            if o_ == "poll_ready":
                return 2 + 1000 * int(op_.get("sr", 0))
            if o_ == "poll_pong":
                return 3
            if o_ in KIND and op_.get("h") is not None:
                return 100 + 8 * int(op_["h"]) + KIND[o_]
            return None
        for st in self.sc["trace"]:
            op, res = st["op"], st["res"]
            o = op.get("op")
            for wid in st.get("wakes") or []:
                parked.pop(wid, None)
            wid = waker_of(op)
            if wid is not None and wid >= 100:
                # one task per slot: whatever that task polls next in the slot supersedes what it was parked on
                base, k = 100 + 8 * ((wid - 100) // 8), (wid - 100) % 8
                for k2 in {0: (0, 1, 2, 6), 1: (0, 1, 2, 6), 2: (0, 1, 2, 6), 6: (0, 1, 2, 6), 3: (3, 4), 4: (3, 4), 5: (5,)}.get(k, (k,)):
                    parked.pop(base + k2, None)
            if o in ("send_data", "send_trailers", "send_reset", "respond_reset", "send_response") and op.get("h") is not None:
                # the task that owns the send half acted on it: it is not parked any more
                parked.pop(100 + 8 * int(op["h"]) + 3, None)
                parked.pop(100 + 8 * int(op["h"]) + 4, None)
            if wid is not None:
                if res == "Pending":
                    # h2 keeps ONE waker per stream and direction (recv_task: response / body / trailers / interim
                    # responses; send_task: capacity / reset): the documented usage is one task per slot, so a later
                    # registration in the same slot replaces the earlier one, which is then not owed a wake-up
                    if wid >= 100:
                        base, k = 100 + 8 * ((wid - 100) // 8), (wid - 100) % 8
                        same = {0: (0, 1, 2, 6), 1: (0, 1, 2, 6), 2: (0, 1, 2, 6), 6: (0, 1, 2, 6), 3: (3, 4), 4: (3, 4), 5: (5,)}.get(k, (k,))
                        for k2 in same:
                            parked.pop(base + k2, None)
                    parked[wid] = (st["i"], op)
                else:
                    parked.pop(wid, None)
            if o and o.startswith("drop_") and op.get("h") is not None:
                for k in range(8):
                    parked.pop(100 + 8 * int(op["h"]) + k, None)
            if o == "drop_sr":
                parked.pop(2 + 1000 * int(op.get("sr", 0)), None)
            if o == "drop_ping_pong":
                parked.pop(3, None)
            if isinstance(res, dict) and "sid" in res and "h" in res:
                handles[res["h"]] = res["sid"]
                if o == "send_request" and op.get("eos"):
                    eos_out.add(res["sid"])
                if o == "push_request":
                    eos_in.add(res["sid"])         # a pushed stream is closed on the peer's side from the start, written or not
            # the endpoint regards its side as finished once END_STREAM was submitted (queued), written or not
            if o in ("send_response", "send_pushed_response", "send_data") and res == "ok" and op.get("eos") and op.get("h") in handles:
                eos_out.add(handles[op["h"]])
            if o == "send_trailers" and res == "ok" and op.get("h") in handles:
                eos_out.add(handles[op["h"]])
            if done_at is None:
                if o == "peer" and isinstance(op.get("what"), dict):
                    w = op["what"]
                    if w.get("t") in ("HEADERS", "DATA") and w.get("eos"):
                        eos_in.add(w.get("sid"))
                    if w.get("t") == "RST_STREAM":
                        fed_rst.append(w.get("sid"))   # judged when the endpoint next reads (see below)
                    if w.get("t") == "PUSH_PROMISE" and w.get("promised"):
                        eos_out.add(w["promised"])     # the client never sends on a pushed stream
                if o in ("conn_poll", "poll_accept") and fed_rst:
                    # the endpoint reads what was fed: a reset that reaches a stream which has completed meanwhile (its own
                    # END_STREAM submitted before this read) changes nothing
                    for sid_ in fed_rst:
                        if not (sid_ in eos_out and sid_ in eos_in):
                            rst.add(sid_)
                    fed_rst = []
                for f in st["out"]:
                    if f["t"] == "PUSH_PROMISE" and f.get("promised"):
                        eos_in.add(f["promised"])      # a pushed stream is closed on the peer's side from the start
                    if f["t"] in ("HEADERS", "DATA") and f.get("eos"):
                        eos_out.add(f["sid"])
                    if f["t"] == "RST_STREAM" and not (f["sid"] in eos_out and f["sid"] in eos_in):
                        rst.add(f["sid"])
            if o == "poll_data" and (res == "None" or (isinstance(res, str) and res.startswith("E("))):
                data_done.add(op.get("h"))
            if done_at is None:
                if o in ("conn_poll",) and isinstance(res, str) and (res.startswith("Ready") or res.startswith("E(")):
                    done_at = st["i"]
                if o == "conn_poll" and isinstance(res, dict) and "done" in res:
                    done_at = st["i"]
                if o == "poll_accept" and (res == "None" or (isinstance(res, str) and res.startswith("E("))):
                    done_at = st["i"]
                if o == "drop_conn":
                    done_at = st["i"]
                continue
            if res == "Pending" and o in ("poll_response", "poll_data", "poll_trailers", "poll_capacity", "poll_reset", "respond_poll_reset",
                                          "poll_ready", "poll_pong", "poll_push", "poll_pushed_response", "poll_informational"):
                if o == "poll_trailers" and op.get("h") not in data_done:
                    continue
                sid = handles.get(op.get("h"))
                clean = sid in eos_out and sid in eos_in and sid not in rst
                cls = "reset-wait-on-cleanly-closed-stream" if (o in ("poll_reset", "respond_poll_reset") and clean) else "pending-after-end"
                v.append({"step": st["i"], "why": "operation still Pending after the connection ended", "class": cls, "op": op, "connection_ended_at": done_at})
        # a task that was told to wait BEFORE the connection ended must be woken by the ending (it then finds the error or
        # the end): judged once the connection object is gone and the run was driven to quiescence
        if done_at is not None and self.sc.get("settled"):
            for wid, (step, op_) in sorted(parked.items()):
                if step >= done_at:
                    continue              # parked after the end: already reported above as pending-after-end
                o_ = op_.get("op")
                if o_ == "poll_trailers" and op_.get("h") not in data_done:
                    continue
                sid = handles.get(op_.get("h"))
                clean = sid in eos_out and sid in eos_in and sid not in rst
                if o_ in ("poll_reset", "respond_poll_reset") and clean:
                    cls = "reset-wait-on-cleanly-closed-stream"
                elif clean and wid >= 100:
                    continue              # the stream had completed before the connection ended: the ending owes it nothing
                else:
                    cls = "waiter-not-woken-by-connection-end"
                v.append({"step": step, "why": "a task parked before the connection ended was never woken by the ending", "class": cls, "op": op_,
                          "waker": wid, "connection_ended_at": done_at})
        return v, done_at


# -------- C09
MUST_CONN_ERROR = {
    "wu-zero-conn", "data-on-zero", "data-on-idle", "data-too-much-padding", "settings-bad-window", "ping-bad-len",
    "rst-on-zero", "stray-continuation", "headers-bad-hpack", "rst-on-idle", "goaway-short",
    "push-on-half-closed-remote",      # RFC 9113 6.6: PUSH_PROMISE on a stream that is neither open nor half-closed (local)
}


def reaction_oracle(sc):
    """Violations that corrupt shared state must end the connection with a GOAWAY carrying an error code: take the
    first injected frame of an unambiguous connection-error class (window increment 0 on stream 0, DATA or RST_STREAM on
    stream 0, DATA / RST_STREAM on an idle stream, padding longer than the payload, SETTINGS_INITIAL_WINDOW_SIZE above
    2^31-1, PING or GOAWAY with a bad length, CONTINUATION without HEADERS, an undecodable header block); if the endpoint
    consumed it while the connection was alive and the run was driven to quiescence, a GOAWAY with a non-zero code
    must have been written, and no later peer frame may have been acted on (no new stream accepted afterwards)."""
    if not sc.get("settled"):
        return None
    first = None
    ended = False
    for st in sc["trace"]:
        op, res = st["op"], st["res"]
        o = op.get("op")
        if o in ("eof", "read_fail", "drop_conn", "abrupt_shutdown", "graceful_shutdown") or (o == "write_mode" and op.get("mode") in ("fail", "zero")):
            ended = True
        if o in ("conn_poll", "poll_accept") and isinstance(res, str) and (res.startswith("E(") or res.startswith("Ready") or res == "None"):
            if first is None:
                ended = True
        if o == "peer" and isinstance(op.get("what"), dict):
            w = op["what"]
            if w.get("t") == "GOAWAY" and first is None:
                ended = True        # after the peer's GOAWAY the endpoint may legitimately be closing
            if "chaos" in w and first is None and not ended:
                if w["chaos"] in MUST_CONN_ERROR:
                    first = (st["i"], w["chaos"])
                else:
                    return None     # an ambiguous injection came first: no verdict for this run
    if first is None:
        return None
    step, kind = first
    consumed = False
    goaway = None
    accepted_after = None
    free_writes_at_consumption = False
    free_writes = True            # transport accepts everything (the GOAWAY can reach the wire in the poll that queues it)
    for st in sc["trace"]:
        if st["op"].get("op") == "write_mode":
            free_writes = st["op"].get("mode") == "all"
        if st["i"] <= step:
            continue
        if st.get("io", {}).get("inbound") == 0 and st["op"].get("op") in ("conn_poll", "poll_accept"):
            if not consumed:
                free_writes_at_consumption = free_writes
            elif not free_writes:
                free_writes_at_consumption = False
            consumed = True
        for f in st["out"]:
            if f["t"] == "GOAWAY" and f.get("code", 0) != 0:
                goaway = (st["i"], f.get("code"))
        o2 = st["op"].get("op")
        if goaway is None and o2 == "peer" and isinstance(st["op"].get("what"), dict) and \
                ("chaos" in st["op"]["what"] or st["op"]["what"].get("t") == "GOAWAY"):
            # the next injected violation (or the peer's own GOAWAY): a GOAWAY written from here on may answer that one, so the
            # verdict on the first violation is taken now - it was consumed (the connection task read everything it was fed and
            # went on) without ending the connection, or there is no verdict
            if consumed and free_writes_at_consumption:
                return {"step": step, "why": "a connection-level violation was consumed and the connection carried on (no GOAWAY with an "
                                             "error code before the next injected frame)", "violation": kind, "next_injection_at": st["i"]}
            return None
        if goaway is None and (o2 in ("eof", "read_fail", "drop_conn", "abrupt_shutdown")
                               or (o2 == "write_mode" and st["op"].get("mode") in ("fail", "zero"))):
            return None      # the script ended the connection before the GOAWAY could reach the wire (throttled writes): no verdict
        if consumed and goaway is None and st["op"].get("op") == "poll_accept" and isinstance(st["res"], dict) and "sid" in st["res"]:
            # accepted a stream from frames fed after the violation? only count streams whose HEADERS were fed after it
            opening = [t["i"] for t in sc["trace"] if t["op"].get("op") == "peer" and isinstance(t["op"].get("what"), dict)
                       and t["op"]["what"].get("t") == "HEADERS" and t["op"]["what"].get("sid") == st["res"]["sid"]]
            fed_after = bool(opening) and min(opening) > step      # the HEADERS that OPENED it (later ones are trailers)
            if fed_after:
                accepted_after = st["i"]
    if not consumed:
        return None
    if goaway is None:
        return {"step": step, "why": "a connection-level violation was consumed but no GOAWAY with an error code was written", "violation": kind}
    if accepted_after is not None:
        return {"step": step, "why": "a stream opened after a connection-level violation was still handed to the application", "violation": kind, "accepted_at": accepted_after}
    return None


def tolerance_oracle(sc):
    """Legal traffic is never penalised: in a run whose scripted peer stays strictly within the protocol (profiles `legal`, and
    `race`: legal plus the races the RFC tolerates - frames in flight for a stream the endpoint has just reset or refused, the
    endpoint's concurrency limit binding the peer only from the peer's SETTINGS acknowledgement) the
    endpoint writes no GOAWAY with an error code and no RST_STREAM with a protocol-violation code (PROTOCOL_ERROR,
    FLOW_CONTROL_ERROR, STREAM_CLOSED, FRAME_SIZE_ERROR, COMPRESSION_ERROR) unless the application asked for that code."""
    if sc.get("profile") not in ("legal", "race"):
        return None
    asked = set()
    rst_before = set()
    for st in sc["trace"]:
        op = st["op"]
        if op.get("op") in ("send_reset", "respond_reset", "abrupt_shutdown"):
            asked.add(op.get("code"))
        if op.get("op") in ("eof", "read_fail", "drop_conn") or (op.get("op") == "write_mode" and op.get("mode") in ("fail", "zero")):
            return None
        for f in st["out"]:
            if f["t"] == "GOAWAY" and f.get("code", 0) not in (0,) and f.get("code") not in asked:
                return {"step": st["i"], "why": "GOAWAY with an error code although the peer sent only legal traffic", "code": f.get("code")}
            if f["t"] == "RST_STREAM":
                late_reply = f["sid"] in rst_before      # STREAM_CLOSED replies to frames racing with our own reset are permitted
                rst_before.add(f["sid"])
                if late_reply:
                    continue
            if f["t"] == "RST_STREAM" and f.get("code") in (1, 3, 5, 6, 9) and f.get("code") not in asked:
                return {"step": st["i"], "why": "RST_STREAM with a protocol-violation code although the peer sent only legal traffic", "sid": f["sid"], "code": f.get("code")}
    return None


def wire_oracles(sc):
    wv = WireView(sc)
    r9 = [x for x in (reaction_oracle(sc), tolerance_oracle(sc)) if x]
    return {"C04": wv.sender_oracle(), "C17": wv.reset_oracle(), "C07": wv.ending_oracle()[0], "C09": r9}


if __name__ == "__main__":
    import sys
    sys.path.insert(0, "/verif/lib")
    sys.path.insert(0, "/verif/lib/props/parts")
    import sendflow
    tot = {"C04": 0, "C17": 0, "C07": 0, "C09": 0}
    shown = 0
    for pi, prof in enumerate(("mixed", "reset", "limits", "shutdown", "flow", "chaos", "legal")):
        scs, _ = sendflow.gen_scenarios(int(sys.argv[1]) * 101 + pi, 60, 100, prof, snap=False)
        for sc in scs:
            r = wire_oracles(sc)
            for k, v in r.items():
                if v:
                    tot[k] += 1
                    if shown < 8:
                        shown += 1
                        print(k, sc["cfg"]["role"], prof, json.dumps(v[:2])[:600])
    print(tot)
